//! C07 – budget limits are enforced exactly and the usage report is accurate.
use proptest::prelude::*;
use serde::{Deserialize, Serialize};
use std::cell::RefCell;
use std::collections::BTreeMap;
use std::rc::Rc;
use vcheck::engine::{self, Ctx, Outcome, Property};
use vcheck::gdoc::{self, Kind, Layout, Node};
use vcheck::opts::{BudgetD, BudgetSel, DeOpts, Dup};
use vcheck::untyped::U;
use vcheck::usage::{self, Counter, Usage, COUNTERS};

#[derive(Clone, Debug, Serialize, Deserialize)]
enum Case {
    /// threshold exactness, no false rejection, report accuracy, ratio heuristic (whole stream)
    Stream { docs: Vec<Node>, layout: Layout, slack: Vec<u8> },
    /// per-document enforcement: the verdict for `doc` must not depend on the prefix
    PerDoc { prefix: Vec<u8>, doc: u8, tighten: Option<Counter> },
    /// per-document enforcement with a single limit: only `counter` is limited (to the final
    /// document's own usage), so earlier documents that exceed just that counter are rejected
    /// through it - and must leave nothing behind
    PerDocSingle { prefix: Vec<u8>, doc: u8, counter: Counter },
    /// per-document enforcement of the alias/anchor ratio: the stream prefix + doc + suffix
    /// reports a ratio breach iff `doc` read alone does (all other documents are within it)
    PerDocRatio { prefix: Vec<u8>, doc: u8, suffix: bool, reject: bool },
    /// per-document enforcement: the same document twice in one stream gets the same verdict
    /// twice, whatever the limit (`delta` is added to the document's own usage of `counter`)
    PerDocTwice { doc: u8, counter: Counter, delta: i8 },
}

fn budget_with(c: Counter, v: usize) -> BudgetD {
    let mut b = BudgetD::unlimited();
    set(&mut b, c, v);
    b
}
fn set(b: &mut BudgetD, c: Counter, v: usize) {
    match c {
        Counter::Events => b.max_events = v,
        Counter::Nodes => b.max_nodes = v,
        Counter::Depth => b.max_depth = v,
        Counter::Aliases => b.max_aliases = v,
        Counter::Anchors => b.max_anchors = v,
        Counter::ScalarBytes => b.max_total_scalar_bytes = v,
        Counter::MergeKeys => b.max_merge_keys = v,
        Counter::Documents => b.max_documents = v,
    }
}
fn breach_counter(b: &serde_saphyr::budget::BudgetBreach) -> Option<Counter> {
    use serde_saphyr::budget::BudgetBreach as B;
    Some(match b {
        B::Events { .. } => Counter::Events,
        B::Nodes { .. } => Counter::Nodes,
        B::Depth { .. } => Counter::Depth,
        B::Aliases { .. } => Counter::Aliases,
        B::Anchors { .. } => Counter::Anchors,
        B::ScalarBytes { .. } => Counter::ScalarBytes,
        B::MergeKeys { .. } => Counter::MergeKeys,
        B::Documents { .. } => Counter::Documents,
        _ => return None,
    })
}

enum R {
    Ok,
    /// budget error: (counter or None for ratio/other breach, line, col, text)
    #[allow(dead_code)]
    Budget(Option<Counter>, bool, u64, u64, String),
    Other(String),
}

fn find_budget(e: &serde_saphyr::Error) -> Option<(Option<Counter>, bool, u64, u64)> {
    let inner = e.without_snippet();
    match inner {
        serde_saphyr::Error::Budget { breach, .. } => {
            let (l, c) = inner.location().map(|l| (l.line(), l.column())).unwrap_or((0, 0));
            let ratio = matches!(breach, serde_saphyr::budget::BudgetBreach::AliasAnchorRatio { .. });
            Some((breach_counter(breach), ratio, l, c))
        }
        // (a breach met while an alias is replayed is still "the matching budget error": an
        // `AliasError` that carries the breach as text is not)
        _ => None,
    }
}

fn run_stream(text: &str, b: &BudgetD, report: Option<Rc<RefCell<Option<serde_saphyr::budget::BudgetReport>>>>) -> R {
    let mut o = DeOpts { budget: BudgetSel::Explicit(b.clone()), dup: Dup::Last, ..DeOpts::default() }.build();
    if let Some(r) = report {
        o = o.with_budget_report(move |rep| {
            *r.borrow_mut() = Some(rep);
        });
    }
    match serde_saphyr::from_multiple_with_options::<U>(text, o) {
        Ok(_) => R::Ok,
        Err(e) => match find_budget(&e) {
            Some((c, ratio, l, col)) => R::Budget(c, ratio, l, col, e.without_snippet().to_string()),
            None => R::Other(e.without_snippet().to_string()),
        },
    }
}

fn check_stream(docs: &[Node], layout: &Layout, slack: &[u8]) -> Outcome {
    for d in docs {
        let r = gdoc::render(d, layout);
        if gdoc::selfcheck_render(d, layout, &r.text).is_err() {
            return Outcome::Discard("selfcheck-render");
        }
        if gdoc::expand_aliases(d).is_err() {
            return Outcome::Discard("unbound-or-recursive-alias");
        }
    }
    let text = gdoc::render_stream(docs, layout);
    let an = match usage::analyze(&text) {
        Ok(a) => a,
        Err(_) => return Outcome::Discard("selfcheck-analyze"),
    };
    let u = &an.total;

    // (3) report accuracy, unlimited budget
    let cell = Rc::new(RefCell::new(None));
    match run_stream(&text, &BudgetD::unlimited(), Some(cell.clone())) {
        R::Ok => {}
        R::Budget(_, _, _, _, m) => return Outcome::Fail(format!("rejected under an unlimited budget: {m} (text {text:?})")),
        R::Other(_) => return Outcome::Discard("document-invalid-for-target"),
    }
    let rep = cell.borrow_mut().take();
    let Some(rep) = rep else {
        return Outcome::Fail(format!("budget report callback was not invoked (text {text:?})"));
    };
    let got = Usage {
        events: rep.events,
        nodes: rep.nodes,
        max_depth: rep.max_depth,
        aliases: rep.aliases,
        anchors: rep.anchors,
        scalar_bytes: rep.total_scalar_bytes,
        merge_keys: rep.merge_keys,
        documents: rep.documents,
        replayed_events: u.replayed_events,
        max_expansions_per_anchor: u.max_expansions_per_anchor,
    };
    if got != *u {
        return Outcome::Fail(format!("usage report {got:?} differs from the independent count {u:?} (text {text:?})"));
    }
    // raw-only count == check_yaml_budget
    match serde_saphyr::budget::check_yaml_budget(&text, BudgetD::unlimited().build(), serde_saphyr::budget::EnforcingPolicy::AllContent) {
        Ok(rep) => {
            let got = Usage {
                events: rep.events,
                nodes: rep.nodes,
                max_depth: rep.max_depth,
                aliases: rep.aliases,
                anchors: rep.anchors,
                scalar_bytes: rep.total_scalar_bytes,
                merge_keys: rep.merge_keys,
                documents: rep.documents,
                replayed_events: 0,
                max_expansions_per_anchor: 0,
            };
            let mut want = an.raw.clone();
            want.replayed_events = 0;
            want.max_expansions_per_anchor = 0;
            if got != want {
                return Outcome::Fail(format!("check_yaml_budget report {got:?} differs from the raw event count {want:?} (text {text:?})"));
            }
        }
        Err(e) => return Outcome::Fail(format!("check_yaml_budget rejects a valid text: {e} (text {text:?})")),
    }

    // (1) threshold exactness per counter
    for c in COUNTERS {
        let v = u.get(c);
        if v == 0 {
            continue;
        }
        match run_stream(&text, &budget_with(c, v), None) {
            R::Ok => {}
            R::Budget(_, _, _, _, m) => return Outcome::Fail(format!("{c:?} limit set to the exact usage {v} was rejected: {m} (text {text:?})")),
            R::Other(m) => return Outcome::Fail(format!("{c:?} limit = usage {v}: unexpected error {m} (text {text:?})")),
        }
        match run_stream(&text, &budget_with(c, v - 1), None) {
            R::Ok => return Outcome::Fail(format!("{c:?} limit set to usage-1 = {} was accepted (usage {v}) (text {text:?})", v - 1)),
            R::Budget(got, _, l, col, m) => {
                if let Some(g) = got {
                    if g != c {
                        return Outcome::Fail(format!("{c:?} limit exceeded but the breach reported is {g:?}: {m} (text {text:?})"));
                    }
                }
                // "as soon as one is exceeded": located at the event where the counter reaches its final value
                if let Some((_, hit)) = an.first_final.iter().find(|(cc, _)| *cc == c) {
                    if hit.raw && got.is_some() && (l, col) != (hit.line as u64, hit.col as u64) {
                        return Outcome::Fail(format!("{c:?} breach located at {l}:{col}, the limit is first exceeded at {}:{} (text {text:?})", hit.line, hit.col));
                    }
                }
            }
            R::Other(m) => return Outcome::Fail(format!("{c:?} limit = usage-1: expected a budget error, got {m} (text {text:?})")),
        }
    }

    // (2) no false rejection: every limit >= usage
    let mut b = BudgetD::unlimited();
    for (i, c) in COUNTERS.iter().enumerate() {
        let d = *slack.get(i).unwrap_or(&0) as usize;
        set(&mut b, *c, u.get(*c) + d % 4);
    }
    if let R::Budget(_, _, _, _, m) = run_stream(&text, &b, None) {
        return Outcome::Fail(format!("budget {b:?} >= usage {u:?} in every component, but rejected: {m} (text {text:?})"));
    }

    // rustdoc of Budget: breached "when aliases > alias_anchor_ratio_multiplier x anchors (after
    // scanning), once alias_anchor_min_aliases is met": a document without aliases never is
    if u.aliases == 0 {
        for (min, mult) in [(0usize, 0usize), (0, 10)] {
            let mut b = BudgetD::unlimited();
            b.enforce_ratio = true;
            b.ratio_min_aliases = min;
            b.ratio_multiplier = mult;
            match run_stream(&text, &b, None) {
                R::Ok => {}
                R::Budget(_, _, _, _, m) => return Outcome::Fail(format!("ratio heuristic (min {min}, multiplier {mult}) rejected a document without aliases (anchors={}): {m} (text {text:?})", u.anchors)),
                R::Other(m) => return Outcome::Fail(format!("ratio check: unexpected error {m} (text {text:?})")),
            }
        }
    }
    // ratio heuristic around its boundary
    if u.aliases > 0 && u.anchors > 0 {
        for (min, mult) in [
            (u.aliases, (u.aliases - 1) / u.anchors),
            (u.aliases, (u.aliases - 1) / u.anchors + 1),
            (u.aliases + 1, 0),
            (1, u.aliases / u.anchors),
            (0, u.aliases),
        ] {
            let mut b = BudgetD::unlimited();
            b.enforce_ratio = true;
            b.ratio_min_aliases = min;
            b.ratio_multiplier = mult;
            let expect_breach = u.aliases >= min && u.aliases > mult.saturating_mul(u.anchors);
            match run_stream(&text, &b, None) {
                R::Ok if expect_breach => return Outcome::Fail(format!("ratio heuristic (min {min}, multiplier {mult}) should reject aliases={} anchors={} (text {text:?})", u.aliases, u.anchors)),
                R::Budget(_, _, _, _, m) if !expect_breach => return Outcome::Fail(format!("ratio heuristic (min {min}, multiplier {mult}) rejected aliases={} anchors={}: {m} (text {text:?})", u.aliases, u.anchors)),
                R::Other(m) => return Outcome::Fail(format!("ratio check: unexpected error {m} (text {text:?})")),
                _ => {}
            }
        }
    }
    Outcome::Pass
}

// ---------------- per-document independence -----------------------------------------------

type DocT = BTreeMap<String, Vec<i64>>;

const PREFIX_KINDS: [&str; 7] = [
    "---\nk: [1, 2]\n",                                   // 0 valid
    "---\na: &p [1]\nb: &q [2, 3]\nc: *p\n",              // 1 valid with anchors
    "---\n- 1\n- [2, [3, [4]]]\n",                        // 2 type error early (root is a sequence), deep nesting
    "---\nk: [1]\nbad: {deep: [[[[1]]]], x: &z [9]}\nafter: [5]\n", // 3 type error late, inside nesting
    "---\n",                                              // 4 empty
    "---\n~\n",                                           // 5 null
    "---\nm: &a1 [1]\nn: &a2 [2]\no: &a3 [3]\np: &a4 [4]\n", // 6 many anchors
];
const DOCS: [&str; 4] = [
    "---\nx: &v [1, 2, 3]\ny: *v\nz: [4]\n",
    "---\nonly: [7]\n",
    "---\na: &s [1]\nb: &t [2]\nc: *s\nd: *t\ne: *s\n",
    "---\nw: []\n",
];

struct Bytes<'a>(&'a [u8]);
impl<'a> std::io::Read for Bytes<'a> {
    fn read(&mut self, buf: &mut [u8]) -> std::io::Result<usize> {
        let n = buf.len().min(self.0.len()).min(5);
        buf[..n].copy_from_slice(&self.0[..n]);
        self.0 = &self.0[n..];
        Ok(n)
    }
}

/// verdict for the LAST document of `text` under per-document enforcement
fn last_verdict(text: &str, b: &BudgetD) -> Result<String, String> {
    let o = DeOpts { budget: BudgetSel::Explicit(b.clone()), ..DeOpts::default() }.build();
    let mut rd = Bytes(text.as_bytes());
    let mut last = None;
    let mut n = 0;
    for r in serde_saphyr::read_with_options::<_, DocT>(&mut rd, o) {
        n += 1;
        if n > text.len() + 2 {
            return Err("iterator does not terminate".into());
        }
        last = Some(match r {
            Ok(v) => format!("Ok({v:?})"),
            Err(e) => match find_budget(&e) {
                Some((c, ratio, _, _)) => format!("Budget({c:?}, ratio={ratio})"),
                None => format!("Err({})", e.without_snippet()),
            },
        });
    }
    last.ok_or_else(|| "no item".to_string())
}

fn check_perdoc(prefix: &[u8], doc: u8, tighten: Option<Counter>) -> Outcome {
    let d = DOCS[doc as usize % DOCS.len()];
    let an = match usage::analyze(d) {
        Ok(a) => a,
        Err(_) => return Outcome::Discard("selfcheck-analyze"),
    };
    let u = &an.per_doc[0];
    // the budget: exactly the per-document usage of D (so D alone is accepted), optionally one
    // limit lowered by one (so D alone is rejected)
    let mut b = BudgetD::unlimited();
    for c in COUNTERS {
        if c != Counter::Documents {
            set(&mut b, c, u.get(c));
        }
    }
    if let Some(c) = tighten {
        // (whether the document-start event itself belongs to the per-document event count is
        // not fixed by the property, so the event limit is not lowered)
        if c == Counter::Documents || c == Counter::Events || u.get(c) == 0 {
            return Outcome::Discard("tighten-not-applicable");
        }
        set(&mut b, c, u.get(c) - 1);
    }
    let alone = last_verdict(d, &b);
    match (&alone, tighten) {
        (Ok(v), None) if !v.starts_with("Ok") => return Outcome::Fail(format!("document alone rejected under a budget equal to its own usage {u:?}: {v} (doc {d:?})")),
        (Ok(v), Some(c)) if !v.starts_with("Budget") => return Outcome::Fail(format!("document alone accepted although {c:?} is limited to usage-1: {v} (doc {d:?})")),
        (Err(e), _) => return Outcome::Fail(format!("document alone: {e}")),
        _ => {}
    }
    let mut text = String::new();
    for p in prefix {
        text.push_str(PREFIX_KINDS[*p as usize % PREFIX_KINDS.len()]);
    }
    text.push_str(d);
    let in_stream = last_verdict(&text, &b);
    if in_stream != alone {
        return Outcome::Fail(format!(
            "per-document enforcement: the verdict for the last document depends on what was read before: alone {alone:?}, after {} earlier documents {in_stream:?} (budget {b:?}, stream {text:?})",
            prefix.len()
        ));
    }
    Outcome::Pass
}

/// all items of the streaming iterator over `text`: Ok / Budget(..) / Err(..)
fn all_verdicts(text: &str, b: &BudgetD) -> Result<Vec<String>, String> {
    let o = DeOpts { budget: BudgetSel::Explicit(b.clone()), ..DeOpts::default() }.build();
    let mut rd = Bytes(text.as_bytes());
    let mut out = vec![];
    for r in serde_saphyr::read_with_options::<_, DocT>(&mut rd, o) {
        if out.len() > text.len() + 2 {
            return Err("iterator does not terminate".into());
        }
        out.push(match r {
            Ok(v) => format!("Ok({v:?})"),
            Err(e) => match find_budget(&e) {
                Some((c, ratio, _, _)) => format!("Budget({c:?}, ratio={ratio})"),
                None => format!("Err({})", e.without_snippet()),
            },
        });
    }
    Ok(out)
}

fn check_perdoc_single(prefix: &[u8], doc: u8, counter: Counter) -> Outcome {
    let d = DOCS[doc as usize % DOCS.len()];
    let an = match usage::analyze(d) {
        Ok(a) => a,
        Err(_) => return Outcome::Discard("selfcheck-analyze"),
    };
    let u = &an.per_doc[0];
    if counter == Counter::Documents {
        return Outcome::Discard("not-per-document");
    }
    // (whether the document-start event belongs to the per-document event count is not fixed:
    // one event of head-room)
    let lim = u.get(counter) + usize::from(counter == Counter::Events);
    let b = budget_with(counter, lim);
    let alone = last_verdict(d, &b);
    match &alone {
        Ok(v) if !v.starts_with("Ok") => return Outcome::Fail(format!("document alone rejected although only {counter:?} is limited, to its own usage {lim}: {v} (doc {d:?})")),
        Err(e) => return Outcome::Fail(format!("document alone: {e}")),
        _ => {}
    }
    let mut text = String::new();
    for p in prefix {
        text.push_str(PREFIX_KINDS[*p as usize % PREFIX_KINDS.len()]);
    }
    text.push_str(d);
    let in_stream = last_verdict(&text, &b);
    if in_stream != alone {
        return Outcome::Fail(format!(
            "per-document enforcement: the verdict for the last document depends on what was read before: alone {alone:?}, after {} earlier documents {in_stream:?} (only {counter:?} limited to {lim}, stream {text:?})",
            prefix.len()
        ));
    }
    Outcome::Pass
}

fn check_perdoc_twice(doc: u8, counter: Counter, delta: i8) -> Outcome {
    let d = DOCS[doc as usize % DOCS.len()];
    let an = match usage::analyze(d) {
        Ok(a) => a,
        Err(_) => return Outcome::Discard("selfcheck-analyze"),
    };
    if counter == Counter::Documents {
        return Outcome::Discard("not-per-document");
    }
    let lim = (an.per_doc[0].get(counter) as i64 + delta as i64).max(0) as usize;
    let b = budget_with(counter, lim);
    let text = format!("{d}{d}");
    let items = match all_verdicts(&text, &b) {
        Ok(v) => v,
        Err(e) => return Outcome::Fail(format!("stream: {e}")),
    };
    // the verdict for a document: Ok, or rejected (a budget error as its item, or right behind it)
    let verdicts: Vec<bool> = {
        let mut v = vec![];
        let mut i = 0;
        while i < items.len() {
            if items[i].starts_with("Ok") {
                // an error item that follows belongs to this document when it comes before the next Ok
                if items.get(i + 1).is_some_and(|n| n.starts_with("Budget(")) {
                    v.push(false);
                    i += 2;
                } else {
                    v.push(true);
                    i += 1;
                }
            } else {
                v.push(false);
                i += 1;
            }
        }
        v
    };
    // (a breach met at a document's end marker ends the stream: the second document then has no
    // verdict to compare)
    if verdicts.len() > 2 || (verdicts.len() == 2 && verdicts[0] != verdicts[1]) {
        return Outcome::Fail(format!(
            "per-document enforcement: the same document twice in one stream gets different verdicts: items {items:?} ({counter:?} limited to {lim}, its own usage {:+}; stream {text:?})",
            delta
        ));
    }
    Outcome::Pass
}

fn check_perdoc_ratio(prefix: &[u8], doc: u8, suffix: bool, reject: bool) -> Outcome {
    // the two final documents with aliases
    let d = [DOCS[0], DOCS[2]][doc as usize % 2];
    let an = match usage::analyze(d) {
        Ok(a) => a,
        Err(_) => return Outcome::Discard("selfcheck-analyze"),
    };
    let u = &an.per_doc[0];
    if u.aliases == 0 || u.anchors == 0 {
        return Outcome::Discard("selfcheck-no-aliases");
    }
    let mut b = BudgetD::unlimited();
    b.enforce_ratio = true;
    b.ratio_min_aliases = 1;
    // breach iff aliases > multiplier x anchors
    b.ratio_multiplier = if reject { (u.aliases - 1) / u.anchors } else { u.aliases.div_ceil(u.anchors) };
    let breached = |items: &[String]| items.iter().any(|i| i.starts_with("Budget("));
    let alone = match all_verdicts(d, &b) {
        Ok(v) => v,
        Err(e) => return Outcome::Fail(format!("document alone: {e}")),
    };
    if breached(&alone) != reject {
        return Outcome::Fail(format!("ratio heuristic (multiplier {}) on a document with aliases={} anchors={} read alone through the iterator: items {alone:?}", b.ratio_multiplier, u.aliases, u.anchors));
    }
    let mut parts: Vec<&str> = prefix.iter().map(|p| PREFIX_KINDS[*p as usize % PREFIX_KINDS.len()]).collect();
    parts.push(d);
    if suffix {
        parts.push(DOCS[1]);
    }
    // every other document must be within the ratio when read alone
    for (i, p) in parts.iter().enumerate() {
        if i == prefix.len() {
            continue;
        }
        match all_verdicts(p, &b) {
            Ok(v) if !breached(&v) => {}
            _ => return Outcome::Discard("neighbour-breaches-ratio"),
        }
    }
    let text: String = parts.concat();
    let in_stream = match all_verdicts(&text, &b) {
        Ok(v) => v,
        Err(e) => return Outcome::Fail(format!("stream: {e}")),
    };
    if breached(&in_stream) != reject {
        return Outcome::Fail(format!(
            "per-document enforcement of the alias/anchor ratio depends on the position in the stream: the document alone gives {alone:?}, the stream gives {in_stream:?} (multiplier {}, stream {text:?})",
            b.ratio_multiplier
        ));
    }
    Outcome::Pass
}

struct C07;

fn nontrivial(c: &Case) -> bool {
    match c {
        Case::Stream { docs, .. } => docs.iter().any(|d| d.has_alias() && d.depth() >= 2),
        Case::PerDoc { prefix, .. } | Case::PerDocSingle { prefix, .. } => !prefix.is_empty(),
        Case::PerDocRatio { prefix, suffix, .. } => !prefix.is_empty() || *suffix,
        Case::PerDocTwice { .. } => true,
    }
}

fn small_docs() -> Vec<Node> {
    // all ASTs with <= 5 nodes over scalar / seq / map, with one anchor+alias variant each
    let s = Node::plain;
    let mut out = vec![s("a"), Node::seq(false, vec![]), Node::map(false, vec![])];
    // (multi-byte scalars: bytes are counted, not characters)
    let leafs = [s("a"), s("12"), s("<<"), s("gr\u{fc}\u{df}e"), Node::scalar("\u{65e5}\u{672c} \u{2713}", gdoc::Style::Double)];
    for a in &leafs {
        out.push(Node::seq(false, vec![a.clone()]));
        out.push(Node::map(false, vec![(s("k"), a.clone())]));
        for b in &leafs {
            out.push(Node::seq(false, vec![a.clone(), b.clone()]));
            out.push(Node::seq(false, vec![Node::seq(false, vec![a.clone()]), b.clone()]));
            out.push(Node::map(false, vec![(s("k"), Node::seq(true, vec![a.clone(), b.clone()]))]));
            out.push(Node::map(false, vec![(s("k"), a.clone()), (s("l"), b.clone())]));
            out.push(Node::seq(false, vec![a.clone().anchored("x"), Node::alias("x"), b.clone()]));
            out.push(Node::seq(false, vec![Node::seq(true, vec![a.clone(), b.clone()]).anchored("x"), Node::alias("x")]));
            out.push(Node::map(false, vec![(s("k"), Node::map(true, vec![(s("i"), a.clone())]).anchored("m")), (s("<<"), Node::alias("m")), (s("z"), b.clone())]));
            out.push(Node::seq(false, vec![Node::seq(true, vec![a.clone().anchored("i"), Node::alias("i")]).anchored("o"), Node::alias("o"), Node::alias("i")]));
        }
    }
    // an omitted node that carries an anchor (no text at all: zero scalar bytes, also when it is
    // replayed), as item, value and key
    {
        let omitted = || Node::plain("").anchored("e");
        out.push(Node::seq(false, vec![omitted(), Node::alias("e")]));
        out.push(Node::seq(false, vec![omitted(), Node::alias("e"), Node::alias("e"), s("a")]));
        out.push(Node::map(false, vec![(s("k"), omitted()), (s("l"), Node::alias("e"))]));
        out.push(Node::seq(false, vec![Node::seq(true, vec![omitted(), s("a")]).anchored("o"), Node::alias("o"), Node::alias("e")]));
    }
    // a tagged `<<` is an ordinary key, also when it arrives through an alias; an untagged one
    // that arrives through an alias is looked at as well
    for tag in ["!!str", "!x"] {
        for flow in [false, true] {
            out.push(Node::seq(false, vec![s("<<").tagged(tag).anchored("m"), Node::map(flow, vec![(Node::alias("m"), s("1")), (s("b"), s("2"))])]));
            out.push(Node::seq(false, vec![
                s("<<").tagged(tag).anchored("m"),
                Node::map(flow, vec![(Node::alias("m"), s("1"))]).anchored("o"),
                Node::alias("o"),
                Node::map(flow, vec![(s("<<").tagged(tag), Node::map(true, vec![(s("q"), s("1"))]))]),
            ]));
        }
    }
    // positions of aliases relative to a merge key inside one mapping: the key / value parity
    // that classifies `<<` must survive an alias in key position, in value position and in
    // both (the replayed node takes the alias' place), with the merge value written in place
    // or aliased; and a plain `<<` in *value* position after such an entry is no merge key
    for flow in [false, true] {
        let head = || vec![s("name").anchored("k"), Node::map(true, vec![(s("a"), s("1"))]).anchored("b")];
        for which in 0..3 {
            let entry = || match which {
                0 => (Node::alias("k"), s("x")),
                1 => (s("x"), Node::alias("k")),
                _ => (Node::alias("k"), Node::alias("k")),
            };
            for aliased_merge in [false, true] {
                let mv = if aliased_merge { Node::alias("b") } else { Node::map(true, vec![(s("i"), s("1"))]) };
                let mut items = head();
                items.push(Node::map(flow, vec![entry(), (s("<<"), mv.clone()), (s("z"), s("1"))]));
                out.push(Node::seq(false, items));
                let mut items = head();
                items.push(Node::map(flow, vec![entry(), (s("y"), s("2")), (s("<<"), mv)]));
                out.push(Node::seq(false, items));
            }
            let mut items = head();
            items.push(Node::map(flow, vec![entry(), (s("y"), s("<<")), (s("z"), s("<<"))]));
            out.push(Node::seq(false, items));
        }
    }
    out
}

impl Property for C07 {
    const ID: &'static str = "C07";
    type Case = Case;
    fn rule() -> String {
        "cases: (a) streams of 1-4 generated documents (anchors, aliases to scalars and containers, aliases inside anchored containers, merge keys, nesting, all scalar styles, block/flow, CRLF) and all small documents from a fixed enumeration (incl. every position of an alias - key, value, both - before a `<<` key or a plain `<<` value of the same mapping, block and flow); for each, an independent counter over the raw saphyr-parser events plus a replay model computes the usage U; checked: the BudgetReport delivered to the callback == U, check_yaml_budget == raw-only count, for every counter c with U_c > 0 the limit U_c is accepted and U_c-1 is rejected with the matching BudgetBreach located at the event where the counter reaches its final value (raw events only), budgets >= U component-wise are never rejected, the alias/anchor ratio heuristic is exact around its boundary; (b) per-document enforcement: for every prefix of length <= 3 (thorough 4) over 7 prefix kinds (valid, with anchors, type error early/late with deep nesting, empty, null, many anchors) and 4 final documents, under a budget equal to the final document's own usage (and with each limit lowered by one), the streaming iterator's verdict for the final document equals its verdict when read alone; the same with a single counter limited to the final document's own usage (earlier documents exceed just that counter), and for the alias/anchor ratio at its boundary, with and without a document that follows (the stream reports a ratio breach iff the document alone does). A breach met while an alias is replayed must still be Error::Budget. Non-trivial: a document with a replayed alias and depth >= 2 checked at exact boundaries / a non-empty prefix.".into()
    }
    fn assumptions() -> Vec<String> {
        vec![
            "targets consume every event (untyped tree under LastWins); the location clause is judged only when the exceeding event is a raw parser event".into(),
            "whether the report callback fires when a limit trips mid-stream is not fixed by the property and not judged".into(),
        ]
    }
    fn check(c: &Case) -> Outcome {
        match c {
            Case::Stream { docs, layout, slack } => check_stream(docs, layout, slack),
            Case::PerDoc { prefix, doc, tighten } => check_perdoc(prefix, *doc, *tighten),
            Case::PerDocSingle { prefix, doc, counter } => check_perdoc_single(prefix, *doc, *counter),
            Case::PerDocRatio { prefix, doc, suffix, reject } => check_perdoc_ratio(prefix, *doc, *suffix, *reject),
            Case::PerDocTwice { doc, counter, delta } => check_perdoc_twice(*doc, *counter, *delta),
        }
    }
    fn signatures(c: &Case) -> Vec<&'static str> {
        let mut v = vec![];
        if let Case::Stream { docs, layout, .. } = c {
            // the budget's key/value parity tracking drifts after an alias inside a mapping
            // (the alias and its replayed node are both counted), so a later `<<` key of the same
            // mapping is mis-classified; and a tagged `<<` key loses its tag when replayed
            let text = gdoc::render_stream(docs, layout);
            if let Ok(an) = usage::analyze(&text) {
                if an.alias_then_merge_in_same_map {
                    v.push("merge_key_parity_after_alias");
                }
            }
            let mut tagged_merge_replayed = false;
            for d in docs {
                d.visit(&mut |n| {
                    if n.anchor.is_some() {
                        n.visit(&mut |x| {
                            if let Kind::Map { entries, .. } = &x.kind {
                                for (k, _) in entries {
                                    if k.tag.is_some() && matches!(&k.kind, Kind::Scalar { value, .. } if value == "<<") {
                                        tagged_merge_replayed = true;
                                    }
                                }
                            }
                        });
                    }
                });
            }
            if tagged_merge_replayed {
                v.push("tagged_merge_key_replayed");
            }
        }
        v
    }
    fn shrink(c: &Case) -> Vec<Case> {
        let mut out = vec![];
        match c {
            Case::Stream { docs, layout, slack } => {
                if docs.len() > 1 {
                    for i in 0..docs.len() {
                        let mut d = docs.clone();
                        d.remove(i);
                        out.push(Case::Stream { docs: d, layout: layout.clone(), slack: slack.clone() });
                    }
                }
                if *layout != Layout::default() {
                    out.push(Case::Stream { docs: docs.clone(), layout: Layout::default(), slack: slack.clone() });
                }
            }
            Case::PerDoc { prefix, doc, tighten } => {
                for i in 0..prefix.len() {
                    let mut p = prefix.clone();
                    p.remove(i);
                    out.push(Case::PerDoc { prefix: p, doc: *doc, tighten: *tighten });
                }
            }
            Case::PerDocSingle { prefix, doc, counter } => {
                for i in 0..prefix.len() {
                    let mut p = prefix.clone();
                    p.remove(i);
                    out.push(Case::PerDocSingle { prefix: p, doc: *doc, counter: *counter });
                }
            }
            Case::PerDocTwice { .. } => {}
            Case::PerDocRatio { prefix, doc, suffix, reject } => {
                for i in 0..prefix.len() {
                    let mut p = prefix.clone();
                    p.remove(i);
                    out.push(Case::PerDocRatio { prefix: p, doc: *doc, suffix: *suffix, reject: *reject });
                }
            }
        }
        out
    }
    /// libFuzzer input: layout bits, slack per counter, then 1-4 decorated trees
    fn fuzz_decode(data: &[u8]) -> Option<(&'static str, Case, bool)> {
        let mut b = engine::Bytes::new(data);
        let lb = b.u16() as u32;
        let slack: Vec<u8> = (0..8).map(|_| b.u8()).collect();
        let n = 1 + b.below(4);
        let docs: Vec<Node> = (0..n)
            .map(|_| {
                let (a, al) = b.pick(&[(25u16, 25u16), (40, 30), (15, 40), (30, 0)]);
                let script = gdoc::script_from_bytes(&mut b, 16);
                let t = gdoc::tree_from_bytes(&mut b, 4);
                gdoc::decorate(&t, &script, a, al, 0)
            })
            .collect();
        let c = Case::Stream { docs, layout: Layout { doc_end: false, ..Layout::from_bits(lb) }, slack };
        let nt = nontrivial(&c);
        Some(("fuzz-streams", c, nt))
    }
    fn generate(ctx: &mut Ctx<Self>) {
        // (a1) small documents, exhaustively, block and flow
        let mut idx = 0u64;
        let docs = small_docs();
        for d in &docs {
            for lay in [Layout::default(), Layout { force_flow: true, ..Layout::default() }, Layout { doc_start: true, doc_end: true, breaks: 1, ..Layout::default() }] {
                idx += 1;
                if ctx.mine(idx) {
                    let c = Case::Stream { docs: vec![d.clone()], layout: lay, slack: vec![0; 8] };
                    let nt = nontrivial(&c);
                    ctx.case("small-docs", &c, nt);
                }
            }
        }
        ctx.subspace("fixed enumeration of small documents x 3 layouts", docs.len() as u64 * 3, true);
        // (a2) random streams
        let doc = (gdoc::arb_tree(4, 24), prop::collection::vec(any::<u16>(), 8..40), prop::sample::select(vec![(25u16, 25u16), (40, 30), (15, 40), (30, 0)]))
            .prop_map(|(t, s, (a, al))| gdoc::decorate(&t, &s, a, al, 0));
        let strat = (prop::collection::vec(doc, 1..5), 0u32..(1 << 12), prop::collection::vec(any::<u8>(), 8)).prop_map(|(docs, lb, slack)| Case::Stream { docs, layout: Layout { doc_end: false, ..Layout::from_bits(lb) }, slack });
        ctx.run_strategy("random-streams", 1, ctx.tier.pick(12_000, 200_000), &strat, nontrivial);
        // merges through aliases (merge-key counter under replay)
        let mstrat = (prop::collection::vec((gdoc::arb_key(), gdoc::arb_scalar()), 0..3), 1usize..4, 0u32..(1 << 12), prop::collection::vec(any::<u8>(), 8)).prop_map(|(own, n, lb, slack)| {
            let base = Node::map(false, vec![(Node::plain("<<"), Node::map(true, vec![(Node::plain("i"), Node::plain("1"))])), (Node::plain("j"), Node::plain("2"))]).anchored("b");
            let mut items = vec![base];
            for _ in 0..n {
                let mut e = vec![(Node::plain("<<"), Node::alias("b"))];
                for (k, v) in &own {
                    if !e.iter().any(|(k2, _)| gdoc::same_key(k2, k)) {
                        e.push((k.clone(), v.clone()));
                    }
                }
                items.push(Node::map(false, e));
            }
            Case::Stream { docs: vec![Node::seq(false, items)], layout: Layout::from_bits(lb), slack }
        });
        ctx.run_strategy("merge-replay", 2, ctx.tier.pick(3_000, 40_000), &mstrat, |_| true);

        // (b) per-document independence: all prefixes of length <= L
        let maxlen = ctx.tier.pick(3usize, 4usize);
        let mut idx = 0u64;
        let mut total = 0u64;
        let tightens: Vec<Option<Counter>> = std::iter::once(None).chain(COUNTERS.iter().filter(|c| **c != Counter::Documents).map(|c| Some(*c))).collect();
        for len in 0..=maxlen {
            for code in 0..PREFIX_KINDS.len().pow(len as u32) {
                let mut prefix = vec![];
                let mut cc = code;
                for _ in 0..len {
                    prefix.push((cc % PREFIX_KINDS.len()) as u8);
                    cc /= PREFIX_KINDS.len();
                }
                for doc in 0..DOCS.len() as u8 {
                    for c in COUNTERS.iter().filter(|c| **c != Counter::Documents) {
                        idx += 1;
                        total += 1;
                        if ctx.mine(idx) {
                            let c = Case::PerDocSingle { prefix: prefix.clone(), doc, counter: *c };
                            ctx.case("per-document-single-limit", &c, len > 0);
                        }
                    }
                    if doc < 2 {
                        for (suffix, reject) in [(false, false), (false, true), (true, false), (true, true)] {
                            idx += 1;
                            total += 1;
                            if ctx.mine(idx) {
                                let c = Case::PerDocRatio { prefix: prefix.clone(), doc, suffix, reject };
                                ctx.case("per-document-ratio", &c, len > 0 || suffix);
                            }
                        }
                    }
                    for t in &tightens {
                        idx += 1;
                        total += 1;
                        if ctx.mine(idx) {
                            let c = Case::PerDoc { prefix: prefix.clone(), doc, tighten: *t };
                            ctx.case("per-document", &c, len > 0);
                        }
                    }
                }
            }
        }
        for doc in 0..DOCS.len() as u8 {
            for c in COUNTERS.iter().filter(|c| **c != Counter::Documents) {
                for delta in -3i8..=2 {
                    idx += 1;
                    total += 1;
                    if ctx.mine(idx) {
                        let c = Case::PerDocTwice { doc, counter: *c, delta };
                        ctx.case("per-document-twice", &c, true);
                    }
                }
            }
        }
        ctx.subspace(&format!("prefix sequences of length <= {maxlen} over 7 kinds x 4 final documents x (exact budget + 7 lowered limits + 7 single limits) + 2 final documents with aliases x ratio boundary x with / without a following document + every final document twice x 7 single limits at usage-3..usage+2"), total, true);
    }
}

fn main() {
    engine::main::<C07>()
}

/// entry point of the libFuzzer target `fuzz/fuzz_targets/c07.rs`
#[allow(dead_code)]
pub fn fuzz(data: &[u8]) {
    engine::fuzz_one::<C07>(data)
}
