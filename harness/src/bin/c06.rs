//! C06 – scalars are interpreted exactly per requested type and options; never wrapped.
//!
//! One case = (scalar text, style, tag, target type).  `check` renders the scalar as a root
//! document and as the two items of a block sequence, verifies the rendering against the raw
//! saphyr parser, runs the library under all 16 combinations of strict_booleans / no_schema /
//! legacy_octal_numbers / ignore_binary_tag_for_string at both positions (32 cells) and compares
//! with the three-valued reference model in `vcheck::c06_model` (written from the docs).
use proptest::prelude::*;
use serde::de::DeserializeOwned;
use serde::{Deserialize, Serialize};
use vcheck::c06_model::*;
use vcheck::engine::{self, Ctx, Outcome, Property, Tier};
use vcheck::opts::DeOpts;
use vcheck::untyped::U;

#[derive(Clone, Debug, Serialize, Deserialize, PartialEq, Eq)]
struct Case {
    text: String,
    style: Style,
    tag: Tag,
    target: Target,
}

// ------------------------------------------------------------------------------------------
// rendering

fn bad_char(c: char) -> bool {
    (c as u32) < 0x20 || matches!(c, '\u{7f}' | '\u{85}' | '\u{2028}' | '\u{2029}' | '\u{feff}')
}

fn plain_ok(t: &str) -> bool {
    if t.is_empty() {
        return true;
    }
    let cs: Vec<char> = t.chars().collect();
    if cs.iter().any(|c| bad_char(*c)) {
        return false;
    }
    if matches!(cs[0], ' ' | '\t') || matches!(cs[cs.len() - 1], ' ' | '\t') {
        return false;
    }
    match cs[0] {
        '-' | '?' | ':' => {
            if cs.len() == 1 || cs[1] == ' ' {
                return false;
            }
        }
        ',' | '[' | ']' | '{' | '}' | '#' | '&' | '*' | '!' | '|' | '>' | '\'' | '"' | '%' | '@' | '`' => return false,
        _ => {}
    }
    if t.contains(": ") || t.contains(" #") || t.ends_with(':') || t.contains('\t') {
        return false;
    }
    if t.starts_with("---") || t.starts_with("...") {
        return false;
    }
    true
}
fn single_ok(t: &str) -> bool {
    !t.chars().any(bad_char)
}
fn literal_ok(t: &str) -> bool {
    if t.is_empty() {
        return true;
    }
    if t.chars().any(|c| c != '\n' && bad_char(c)) {
        return false;
    }
    if t.starts_with([' ', '\n']) || t.ends_with('\n') {
        return false;
    }
    // no blank-only lines (kept away from block scalar corner cases that belong to C12)
    !t.split('\n').any(|l| l.is_empty() || l.chars().all(|c| c == ' '))
}
fn folded_ok(t: &str) -> bool {
    literal_ok(t) && !t.contains('\n') && !t.ends_with(' ')
}
fn representable(t: &str, s: Style) -> bool {
    match s {
        Style::Plain => plain_ok(t),
        Style::Single => single_ok(t),
        Style::Double => true,
        Style::Literal => literal_ok(t),
        Style::Folded => folded_ok(t),
    }
}

fn double_quoted(t: &str) -> String {
    let mut o = String::from("\"");
    for c in t.chars() {
        match c {
            '\\' => o.push_str("\\\\"),
            '"' => o.push_str("\\\""),
            '\n' => o.push_str("\\n"),
            '\t' => o.push_str("\\t"),
            '\r' => o.push_str("\\r"),
            '\u{85}' => o.push_str("\\N"),
            '\u{2028}' => o.push_str("\\L"),
            '\u{2029}' => o.push_str("\\P"),
            '\u{feff}' => o.push_str("\\uFEFF"),
            c if (c as u32) < 0x20 || c == '\u{7f}' => o.push_str(&format!("\\x{:02X}", c as u32)),
            c => o.push(c),
        }
    }
    o.push('"');
    o
}

/// the node (tag + scalar) as it appears after `- ` or at the start of the document
fn node(c: &Case) -> String {
    let tag = c.tag.text();
    let sep = if tag.is_empty() { "" } else { " " };
    match c.style {
        Style::Plain => {
            if c.text.is_empty() {
                format!("{tag}\n")
            } else {
                format!("{tag}{sep}{}\n", c.text)
            }
        }
        Style::Single => format!("{tag}{sep}'{}'\n", c.text.replace('\'', "''")),
        Style::Double => format!("{tag}{sep}{}\n", double_quoted(&c.text)),
        Style::Literal | Style::Folded => {
            let ind = if c.style == Style::Literal { "|-" } else { ">-" };
            let mut o = format!("{tag}{sep}{ind}\n");
            if !c.text.is_empty() {
                for l in c.text.split('\n') {
                    o.push_str("  ");
                    o.push_str(l);
                    o.push('\n');
                }
            }
            o
        }
    }
}

/// [root document, sequence document]
fn render(c: &Case) -> Option<[String; 2]> {
    if !representable(&c.text, c.style) {
        return None;
    }
    let n = node(c);
    let root = if n == "\n" { "---\n".to_string() } else { n.clone() };
    let item = if n == "\n" { "-\n".to_string() } else { format!("- {n}") };
    Some([root, format!("{item}{item}")])
}

/// the rendering is checked against the raw parser: exactly the intended scalar events
fn raw_ok(doc: &str, c: &Case, seq: bool) -> bool {
    use saphyr_parser::{Event, Parser, ScalarStyle};
    let want_style = match c.style {
        Style::Plain => ScalarStyle::Plain,
        Style::Single => ScalarStyle::SingleQuoted,
        Style::Double => ScalarStyle::DoubleQuoted,
        Style::Literal => ScalarStyle::Literal,
        Style::Folded => ScalarStyle::Folded,
    };
    let mut scalars = 0;
    let mut shape = String::new();
    for ev in Parser::new_from_str(doc) {
        let Ok((ev, _)) = ev else { return false };
        match ev {
            Event::StreamStart => shape.push('S'),
            Event::StreamEnd => shape.push('E'),
            Event::DocumentStart(_) => shape.push('D'),
            Event::DocumentEnd => shape.push('d'),
            Event::SequenceStart(_, None) => shape.push('['),
            Event::SequenceEnd => shape.push(']'),
            Event::Scalar(v, st, 0, tag) => {
                shape.push('s');
                scalars += 1;
                let empty_plain = c.text.is_empty() && c.style == Style::Plain;
                let v_ok = v == c.text.as_str() || (empty_plain && v == "~" && c.tag == Tag::None);
                let tag_ok = match (&tag, c.tag) {
                    (None, Tag::None) => true,
                    (Some(t), Tag::NonSpecific) => t.handle.is_empty() && t.suffix == "!",
                    (Some(t), Tag::Custom) => t.handle == "!" && t.suffix == "x",
                    (Some(t), k) if k != Tag::None => {
                        t.handle == "tag:yaml.org,2002:" && format!("!!{}", t.suffix) == k.text()
                    }
                    _ => false,
                };
                if !v_ok || st != want_style || !tag_ok {
                    return false;
                }
            }
            _ => return false,
        }
    }
    if seq { shape == "SD[ss]dE" && scalars == 2 } else { shape == "SDsdE" && scalars == 1 }
}

// ------------------------------------------------------------------------------------------
// running the library

trait ToVal {
    fn to_val(&self) -> Val;
}
macro_rules! int_to_val { ($($t:ty),*) => { $(impl ToVal for $t { fn to_val(&self) -> Val { Val::Int(*self as i128) } })* } }
int_to_val!(i8, i16, i32, i64, i128, u8, u16, u32, u64);
impl ToVal for u128 {
    fn to_val(&self) -> Val {
        if *self <= i128::MAX as u128 { Val::Int(*self as i128) } else { Val::UInt(*self) }
    }
}
impl ToVal for f32 {
    fn to_val(&self) -> Val {
        f32v(*self)
    }
}
impl ToVal for f64 {
    fn to_val(&self) -> Val {
        f64v(*self)
    }
}
impl ToVal for bool {
    fn to_val(&self) -> Val {
        Val::Bool(*self)
    }
}
impl ToVal for char {
    fn to_val(&self) -> Val {
        Val::Char(*self)
    }
}
impl ToVal for String {
    fn to_val(&self) -> Val {
        Val::Str(self.clone())
    }
}
impl ToVal for () {
    fn to_val(&self) -> Val {
        Val::Unit
    }
}
impl ToVal for serde_bytes::ByteBuf {
    fn to_val(&self) -> Val {
        Val::Bytes(self.to_vec())
    }
}
#[derive(serde::Deserialize)]
#[serde(transparent)]
struct VecU8(Vec<u8>);
impl ToVal for VecU8 {
    fn to_val(&self) -> Val {
        Val::Bytes(self.0.clone())
    }
}
impl ToVal for U {
    fn to_val(&self) -> Val {
        Val::U(self.clone())
    }
}
impl<T: ToVal> ToVal for Option<T> {
    fn to_val(&self) -> Val {
        match self {
            None => Val::None,
            Some(v) => Val::Some(Box::new(v.to_val())),
        }
    }
}

#[derive(Clone, Debug, PartialEq)]
enum Got {
    Ok(Val),
    Err,
    /// the sequence did not come back as two equal items
    Broken(String),
}

fn lib_options(o: Opt) -> serde_saphyr::Options {
    DeOpts {
        strict_bool: o.strict,
        no_schema: o.no_schema,
        legacy_octal: o.legacy,
        ignore_binary: o.ignore_bin,
        snippet: false,
        ..DeOpts::default()
    }
    .build()
}

fn de<T: DeserializeOwned + ToVal>(doc: &str, o: Opt, seq: bool, want_err: &mut Option<String>) -> Got {
    if seq {
        match serde_saphyr::from_str_with_options::<Vec<T>>(doc, lib_options(o)) {
            Ok(v) => {
                if v.len() != 2 {
                    return Got::Broken(format!("sequence of two items delivered {} items", v.len()));
                }
                let (a, b) = (v[0].to_val(), v[1].to_val());
                if a != b {
                    return Got::Broken(format!("two identical items delivered {a:?} and {b:?}"));
                }
                Got::Ok(a)
            }
            Err(e) => {
                if let Some(w) = want_err {
                    *w = e.to_string();
                }
                Got::Err
            }
        }
    } else {
        match serde_saphyr::from_str_with_options::<T>(doc, lib_options(o)) {
            Ok(v) => Got::Ok(v.to_val()),
            Err(e) => {
                if let Some(w) = want_err {
                    *w = e.to_string();
                }
                Got::Err
            }
        }
    }
}

fn run(doc: &str, t: Target, o: Opt, seq: bool, w: &mut Option<String>) -> Got {
    match t {
        Target::I8 => de::<i8>(doc, o, seq, w),
        Target::I16 => de::<i16>(doc, o, seq, w),
        Target::I32 => de::<i32>(doc, o, seq, w),
        Target::I64 => de::<i64>(doc, o, seq, w),
        Target::I128 => de::<i128>(doc, o, seq, w),
        Target::U8 => de::<u8>(doc, o, seq, w),
        Target::U16 => de::<u16>(doc, o, seq, w),
        Target::U32 => de::<u32>(doc, o, seq, w),
        Target::U64 => de::<u64>(doc, o, seq, w),
        Target::U128 => de::<u128>(doc, o, seq, w),
        Target::F32 => de::<f32>(doc, o, seq, w),
        Target::F64 => de::<f64>(doc, o, seq, w),
        Target::Bool => de::<bool>(doc, o, seq, w),
        Target::Char => de::<char>(doc, o, seq, w),
        Target::Str => de::<String>(doc, o, seq, w),
        Target::OptI64 => de::<Option<i64>>(doc, o, seq, w),
        Target::OptStr => de::<Option<String>>(doc, o, seq, w),
        Target::Unit => de::<()>(doc, o, seq, w),
        Target::Bytes => de::<serde_bytes::ByteBuf>(doc, o, seq, w),
        Target::VecU8 => de::<VecU8>(doc, o, seq, w),
        Target::OptVecU8 => de::<Option<VecU8>>(doc, o, seq, w),
        Target::Untyped => de::<U>(doc, o, seq, w),
    }
}

#[derive(serde::Deserialize)]
enum Wr<T> {
    W(T),
}
fn de_payload<T: DeserializeOwned + ToVal>(doc: &str, o: Opt) -> Got {
    match serde_saphyr::from_str_with_options::<Wr<T>>(doc, lib_options(o)) {
        Ok(Wr::W(v)) => Got::Ok(v.to_val()),
        Err(_) => Got::Err,
    }
}
fn run_payload(doc: &str, t: Target, o: Opt) -> Got {
    match t {
        Target::I8 => de_payload::<i8>(doc, o),
        Target::I16 => de_payload::<i16>(doc, o),
        Target::I32 => de_payload::<i32>(doc, o),
        Target::I64 => de_payload::<i64>(doc, o),
        Target::I128 => de_payload::<i128>(doc, o),
        Target::U8 => de_payload::<u8>(doc, o),
        Target::U16 => de_payload::<u16>(doc, o),
        Target::U32 => de_payload::<u32>(doc, o),
        Target::U64 => de_payload::<u64>(doc, o),
        Target::U128 => de_payload::<u128>(doc, o),
        Target::F32 => de_payload::<f32>(doc, o),
        Target::F64 => de_payload::<f64>(doc, o),
        Target::Bool => de_payload::<bool>(doc, o),
        Target::Char => de_payload::<char>(doc, o),
        Target::Str => de_payload::<String>(doc, o),
        Target::OptI64 => de_payload::<Option<i64>>(doc, o),
        Target::OptStr => de_payload::<Option<String>>(doc, o),
        Target::Unit => de_payload::<()>(doc, o),
        Target::Bytes => de_payload::<serde_bytes::ByteBuf>(doc, o),
        Target::VecU8 => de_payload::<VecU8>(doc, o),
        Target::OptVecU8 => de_payload::<Option<VecU8>>(doc, o),
        Target::Untyped => de_payload::<U>(doc, o),
    }
}

fn show(g: &Got, doc: &str, t: Target, o: Opt, seq: bool) -> String {
    match g {
        Got::Err => {
            let mut w = Some(String::new());
            let _ = run(doc, t, o, seq, &mut w);
            format!("Err({})", w.unwrap_or_default())
        }
        o => format!("{o:?}"),
    }
}

// ------------------------------------------------------------------------------------------
// the oracle

fn lenient_bool_word(text: &str) -> bool {
    bool_read(text).cls != Cls::No
}
fn legacy_sensitive(text: &str) -> bool {
    leading_zero_intlike(text)
}

/// May the result of a cell change when option `bit` is switched on (everything else equal)?
/// `Same` = no; `OkToErr` = an accepted value may turn into an error, nothing else;
/// `Open` = the docs name this cell (the per-cell model decides).
#[derive(PartialEq, Debug)]
enum Rel {
    Same,
    OkToErr,
    Open,
}
fn relation(c: &Case, bit: u8) -> Rel {
    let stringy = matches!(c.target, Target::Str | Target::Char | Target::OptStr);
    match bit {
        // strict_booleans: only boolean words, only where booleans are read or inferred
        BIT_STRICT => {
            if !lenient_bool_word(&c.text) {
                Rel::Same
            } else {
                match c.target {
                    Target::Bool => Rel::OkToErr,
                    Target::Untyped => Rel::Open,
                    _ if stringy => Rel::Open, // interplay with no_schema is not spelled out
                    _ => Rel::Same,
                }
            }
        }
        // no_schema: only string targets, only unquoted scalars without !!str, only towards rejection
        BIT_NO_SCHEMA => {
            if stringy && !matches!(c.style, Style::Single | Style::Double) && c.tag != Tag::Str {
                Rel::OkToErr
            } else {
                Rel::Same
            }
        }
        // legacy octal: only integer readings of tokens with a redundant leading zero
        BIT_LEGACY => {
            let inty = c.target.int().is_some() || matches!(c.target, Target::OptI64 | Target::Untyped);
            if inty && legacy_sensitive(&c.text) { Rel::Open } else { Rel::Same }
        }
        // ignore_binary_tag_for_string: only !!binary scalars read as strings
        _ => {
            if c.tag == Tag::Binary && matches!(c.target, Target::Str | Target::OptStr | Target::Untyped) {
                Rel::Open
            } else {
                Rel::Same
            }
        }
    }
}

fn check_case(c: &Case) -> Outcome {
    let Some(docs) = render(c) else { return Outcome::Discard("style cannot carry the text") };
    if !raw_ok(&docs[0], c, false) || !raw_ok(&docs[1], c, true) {
        return Outcome::Discard("raw parser does not see the intended scalar");
    }
    let mut got: Vec<[Got; 2]> = Vec::with_capacity(16);
    for ob in 0..16u8 {
        let o = Opt::from_bits(ob);
        got.push([run(&docs[0], c.target, o, false, &mut None), run(&docs[1], c.target, o, true, &mut None)]);
    }
    let head = format!("{:?} {:?} {:?}", c.target, c.style, c.tag);
    // 1. per-cell model
    for ob in 0..16u8 {
        let o = Opt::from_bits(ob);
        let e = expect(&c.text, c.style, c.tag, c.target, o);
        for pos in 0..2 {
            let g = &got[ob as usize][pos];
            let bad = match (&e, g) {
                (_, Got::Broken(_)) => true,
                (Expect::Must(v), Got::Ok(x)) => v != x,
                (Expect::Must(_), Got::Err) => true,
                (Expect::MustErr, Got::Ok(_)) => true,
                (Expect::MustErr, Got::Err) => false,
                (Expect::Free(vs), Got::Ok(x)) => !vs.contains(x),
                (Expect::Free(_), Got::Err) => false,
                (Expect::Any, _) => false,
            };
            if bad {
                let kind = match (&e, g) {
                    (_, Got::Broken(_)) => "sequence broken",
                    (Expect::Must(_), Got::Err) => "documented form rejected",
                    (Expect::Must(_), _) => "documented form read as a different value",
                    (Expect::MustErr, _) => "accepted although it must be rejected",
                    _ => "accepted with a value no reading of the token allows",
                };
                return Outcome::Fail(format!(
                    "model: {kind}: {head}: text {:?} options [{}] {} doc {:?}: expected {:?}, got {}",
                    c.text,
                    o.name(),
                    if pos == 0 { "root" } else { "in sequence" },
                    docs[pos],
                    e,
                    show(g, &docs[pos], c.target, o, pos == 1)
                ));
            }
        }
    }
    // 2. position independence ("interpreted from its text, style, tag, the requested type and the options only")
    for ob in 0..16u8 {
        if got[ob as usize][0] != got[ob as usize][1] {
            let o = Opt::from_bits(ob);
            return Outcome::Fail(format!(
                "position: {head}: text {:?} options [{}]: root {:?} gives {}, sequence {:?} gives {}",
                c.text,
                o.name(),
                docs[0],
                show(&got[ob as usize][0], &docs[0], c.target, o, false),
                docs[1],
                show(&got[ob as usize][1], &docs[1], c.target, o, true)
            ));
        }
    }
    // 2b. tag spelling: the verbatim form `!<tag:yaml.org,2002:T>` is the tag `!!T` ("interpreted
    // from its text, style, tag ..." - the tag, not the way it is written)
    if matches!(c.tag, Tag::Str | Tag::Int | Tag::Float | Tag::Bool | Tag::Null | Tag::Binary) {
        let short = c.tag.text();
        let verbatim = format!("!<tag:yaml.org,2002:{}>", &short[2..]);
        let doc_v = docs[0].replacen(short, &verbatim, 1);
        if doc_v != docs[0] && doc_v.starts_with("!<") {
            for ob in 0..16u8 {
                let o = Opt::from_bits(ob);
                let g = run(&doc_v, c.target, o, false, &mut None);
                if g != got[ob as usize][0] {
                    return Outcome::Fail(format!(
                        "tag spelling: {head}: text {:?} options [{}]: {:?} gives {}, {:?} gives {}",
                        c.text,
                        o.name(),
                        docs[0],
                        show(&got[ob as usize][0], &docs[0], c.target, o, false),
                        doc_v,
                        show(&g, &doc_v, c.target, o, false)
                    ));
                }
            }
        }
    }
    // 2c. enum payload position: the payload of `!W scalar` is the scalar without the tag, read by
    // the payload type exactly like the `scalar` of `W: scalar` (only an untagged scalar can
    // stand behind the variant tag)
    if c.tag == Tag::None && !(c.style == Style::Plain && c.text.is_empty()) {
        let n = node(c);
        let tagged = format!("!W {n}");
        let mapped = format!("W: {n}");
        for ob in 0..16u8 {
            let o = Opt::from_bits(ob);
            let (a, b) = (run_payload(&tagged, c.target, o), run_payload(&mapped, c.target, o));
            if a != b {
                return Outcome::Fail(format!(
                    "enum payload: {head}: text {:?} options [{}]: {tagged:?} gives {a:?}, {mapped:?} gives {b:?}",
                    c.text,
                    o.name()
                ));
            }
        }
    }
    // 3. each option changes acceptance only where and how documented
    for bit in [BIT_STRICT, BIT_NO_SCHEMA, BIT_LEGACY, BIT_IGNORE_BIN] {
        let rel = relation(c, bit);
        if rel == Rel::Open {
            continue;
        }
        for ob in 0..16u8 {
            if ob & bit != 0 {
                continue;
            }
            let (a, b) = (&got[ob as usize][0], &got[(ob | bit) as usize][0]);
            let ok = a == b || (rel == Rel::OkToErr && matches!(a, Got::Ok(_)) && *b == Got::Err);
            if !ok {
                let (oa, obb) = (Opt::from_bits(ob), Opt::from_bits(ob | bit));
                return Outcome::Fail(format!(
                    "option: {head}: switching on {} changes a cell it must not change ({:?}): text {:?} doc {:?}: [{}] gives {}, [{}] gives {}",
                    Opt::from_bits(bit).name(),
                    rel,
                    c.text,
                    docs[0],
                    oa.name(),
                    show(a, &docs[0], c.target, oa, false),
                    obb.name(),
                    show(b, &docs[0], c.target, obb, false)
                ));
            }
        }
    }
    Outcome::Pass
}

// ------------------------------------------------------------------------------------------
// corpus

/// width-boundary magnitudes: 2^(w-1) and 2^w, each -2..=+1, for w in 8,16,32,64,128, plus small values
fn boundary_mags() -> Vec<Big> {
    let mut v: Vec<Big> = vec![];
    for w in [8usize, 16, 32, 64, 128] {
        for k in [w - 1, w] {
            let p = Big::pow2(k);
            v.push(p.sub_small(2));
            v.push(p.sub_small(1));
            v.push(p.clone());
            v.push(p.add_small(1));
        }
    }
    for s in [0u128, 1, 2, 7, 8, 9, 10, 63, 64, 100] {
        v.push(Big::from_u128(s));
    }
    v
}

fn group(digits: &str, n: usize) -> String {
    // underscores every n digits counted from the right
    let cs: Vec<char> = digits.chars().collect();
    let mut o = String::new();
    for (i, c) in cs.iter().enumerate() {
        if i > 0 && (cs.len() - i) % n == 0 {
            o.push('_');
        }
        o.push(*c);
    }
    o
}

/// unsigned spellings of a magnitude; `full` adds the rarer variants
fn spellings(m: &Big, full: bool) -> Vec<String> {
    let dec = m.to_radix(10, false);
    let hex = m.to_radix(16, false);
    let hexu = m.to_radix(16, true);
    let oct = m.to_radix(8, false);
    let bin = m.to_radix(2, false);
    let mut v = vec![
        dec.clone(),
        group(&dec, 3),
        format!("0x{hex}"),
        format!("0x{hexu}"),
        format!("0x{}", group(&hex, 4)),
        format!("0o{oct}"),
        format!("0b{bin}"),
        format!("0b{}", group(&bin, 8)),
        format!("00{oct}"),
        format!("0{dec}"),
    ];
    if full {
        v.extend([
            format!("0X{hexu}"),
            format!("0O{oct}"),
            format!("0B{bin}"),
            format!("0o{}", group(&oct, 3)),
            format!("0{oct}"),
            format!("000{oct}"),
            format!("00{}", group(&oct, 3)),
            format!("_{dec}"),
            format!("{dec}_"),
            format!("0x_{hex}"),
        ]);
    }
    v
}

fn boundary_tokens(full: bool) -> Vec<String> {
    let mut out = vec![];
    let mut seen = std::collections::BTreeSet::new();
    for m in boundary_mags() {
        for sp in spellings(&m, full) {
            for sign in ["", "-", "+"] {
                let t = format!("{sign}{sp}");
                if seen.insert(t.clone()) {
                    out.push(t);
                }
            }
        }
    }
    out
}

const CORE: &[&str] = &[
    // integers and near-integers
    "0", "1", "-1", "+1", "12", "-12", "+12", "-0", "+0", "127", "128", "-128", "-129", "255", "256", "65535", "65536",
    "0x7f", "0x80", "-0x80", "-0x81", "0xFF", "0xff", "0X1F", "0o17", "0O17", "0o8", "0b101", "0B101", "0b2", "0x", "0o",
    "0b", "-", "+", "_", "_1", "1_", "1__0", "1_000", "-1_000", "0x_1", "0xAB_CD", "0x7_fF", "007", "0052", "-0052",
    "+0052", "052", "00", "+00", "-00", "009", "-009", "001", "-001", "0o_7", "00_7", "0_07", "0_052", "+0x1F", "-0x1f",
    "+0o7", "-0o7", "+0b1", "-0b1", "0xG", "12abc", "1 2", "--1", "+-1", "0x-1", "１２", "0x2A", "-0x2A", "0o52", "-0b11",
    "1_234_567_890", "9_876_543_210", "0b1010_1010", "0b1021", "0xABCDG",
    // booleans
    "y", "Y", "yes", "Yes", "YES", "n", "N", "no", "No", "NO", "true", "True", "TRUE", "false", "False", "FALSE", "on",
    "On", "ON", "off", "Off", "OFF", "yEs", "tRUE", "oN", "oFF", "fALSE", "nO", "truee", "ye", "t", "f",
    // nulls
    "", "~", "null", "Null", "NULL", "nULL", "nil", "none", "None", "~~", "nulll",
    // floats
    "1.5", "-1.5", "+1.5", "1.", "5.", ".5", "-.5", "+.5", "1e3", "1E3", "1e+3", "1e-3", "1.5e10", "1.e5", ".5e1", "0.0",
    "-0.0", "1_000.5", "1e", "e5", ".", "..", "1.2.3", "1e3.5", "1.2", ".inf", ".Inf", ".INF", "+.inf", "+.Inf", "+.INF",
    "-.inf", "-.Inf", "-.INF", ".nan", ".NaN", ".NAN", ".iNf", ".nAn", "+.nan", "-.nan", "-.NaN", "inf", "-inf", "+inf",
    "Inf", "INF", "infinity", "Infinity", "-Infinity", "nan", "NaN", "NAN", "-nan", "1e400", "-1e400", "1e39", "-1e39",
    "3.4028235e38", "3.4028236e38", "3.4028234663852886e38", "3.4028235677973366e38", "3.4028235677973367e38",
    "1.7976931348623157e308", "1.7976931348623159e308", "1.8e308", "5e-324", "4.9e-324", "2.4703282292062327e-324",
    "2.4703282292062328e-324", "2.2250738585072014e-308", "2.2250738585072011e-308", "1e-46", "1.4e-45", "7e-46",
    "7.1e-46", "1.1754944e-38", "1.1754942e-38", "0.1", "0.30000000000000004", "16777217", "16777217.0",
    "9007199254740993", "9007199254740993.0", "1e-400", "123456789012345678901234567890", "007.5", "1e007", "12:30:45",
    "1.0e+3", "6.02E23",
    // chars
    "a", "Z", "é", "😀", "ab", "ß", " ", "\t", "'", "\"", "\\", "#", ":", "a b", "\u{a0}", "\u{a0}12", "x\ny", "\n", "  ",
    "1 ", " 1", " true ", " ~ ", " 0x10", "12\n",
    // strings
    "abc", "hello world", "2001-01-01", "<<", "=", "a: b", "true false", "0x2A is hex", "null and void",
    // base64-looking
    "aGVsbG8=", "H4sIAA==", "QQ==", "QUI=", "QUJD", "QR==", "QUJ=", "Q===", "QQ=", "QQ", "QQ==QQ==", "aGVs bG8=",
    "aGVs\nbG8=", "TRUE", "1e+1", "/w==", "////", "++++", "+/+/", "A A A A", "Zm9v\tYmFy", "-_-_", "QUJD\n", "QQ= =",
    "====", "=QQ=", "Q=Q=", "1234", "w6k=", "8J+YgA==",
];

fn nontrivial(c: &Case) -> bool {
    // on a width boundary ...
    for legacy in [false, true] {
        let r = int_read(&c.text, legacy);
        if r.cls != Cls::No {
            for m in &r.mags {
                let b = m.bits();
                let near = |k: usize| {
                    // |m - 2^k| <= 2
                    (b == k + 1 && {
                        let p = Big::pow2(k);
                        *m == p || *m == p.add_small(1) || *m == p.add_small(2)
                    }) || (b == k && {
                        let p = Big::pow2(k);
                        *m == p.sub_small(1) || *m == p.sub_small(2)
                    })
                };
                if [7usize, 8, 15, 16, 31, 32, 63, 64, 127, 128].iter().any(|k| near(*k)) {
                    return true;
                }
            }
        }
    }
    // ... or the verdict differs between two option vectors
    let e0 = expect(&c.text, c.style, c.tag, c.target, Opt::from_bits(0));
    (1..16u8).any(|ob| expect(&c.text, c.style, c.tag, c.target, Opt::from_bits(ob)) != e0)
}

fn submit(ctx: &mut Ctx<C06>, sub: &str, c: &Case) {
    let nt = nontrivial(c);
    if ctx.case(sub, c, nt) {
        ctx.class(&format!("target {:?}", c.target));
        ctx.class(&format!("style {:?}", c.style));
        ctx.class(&format!("tag {:?}", c.tag));
        ctx.class_n("cells (case x 16 option vectors x 2 positions)", 32);
        // distribution of the model's verdicts over the 16 option vectors
        for ob in [0u8, 15] {
            let e = expect(&c.text, c.style, c.tag, c.target, Opt::from_bits(ob));
            ctx.class(&format!("verdict {} {}", if ob == 0 { "default-options" } else { "all-options" }, e.kind()));
            if ob == 0 {
                ctx.class(&format!("verdict by target: {:?} {}", c.target, e.kind()));
            }
        }
    }
}

// ------------------------------------------------------------------------------------------
// random tokens

fn digits_of(radix: u32) -> Vec<char> {
    "0123456789abcdefABCDEF".chars().filter(|c| c.to_digit(16).unwrap() < radix).collect()
}

fn int_token() -> impl Strategy<Value = String> + Clone + use<> {
    let radix = prop::sample::select(vec![10u32, 10, 10, 16, 16, 8, 2]);
    (
        prop::sample::select(vec!["", "", "-", "-", "+"]),
        radix,
        any::<bool>(),
        0usize..4,
        prop::collection::vec((any::<u16>(), 0u8..40), 1..45),
        0u8..20,
    )
        .prop_map(|(sign, radix, upper, zeros, ds, wild)| {
            let alpha = digits_of(radix);
            let mut s = String::from(sign);
            match radix {
                16 => s.push_str(if upper { "0X" } else { "0x" }),
                8 => s.push_str(if upper { "0O" } else { "0o" }),
                2 => s.push_str(if upper { "0B" } else { "0b" }),
                _ => {}
            }
            for _ in 0..zeros.saturating_sub(1) {
                s.push('0');
            }
            for (i, (d, us)) in ds.iter().enumerate() {
                if *us == 0 && i > 0 {
                    s.push('_');
                }
                s.push(alpha[engine::pick_idx(*d, alpha.len())]);
            }
            match wild {
                0 => s.push('_'),
                1 => s.push('9'),
                2 => s.push('g'),
                3 => s.insert(0, '_'),
                _ => {}
            }
            s
        })
}

fn near_boundary_token() -> impl Strategy<Value = String> + Clone + use<> {
    (
        prop::sample::select(vec![7usize, 8, 15, 16, 31, 32, 63, 64, 127, 128]),
        -3i32..=3,
        prop::sample::select(vec![10u32, 16, 8, 2]),
        prop::sample::select(vec!["", "-", "+"]),
        0usize..3,
        any::<bool>(),
        0usize..6,
    )
        .prop_map(|(k, d, radix, sign, zeros, upper, grp)| {
            let p = Big::pow2(k);
            let m = if d >= 0 { p.add_small(d as u32) } else { p.sub_small((-d) as u32) };
            let mut digits = m.to_radix(radix, upper);
            if grp >= 2 {
                digits = group(&digits, grp);
            }
            let pfx = match radix {
                16 => "0x",
                8 => "0o",
                2 => "0b",
                _ => "",
            };
            format!("{sign}{pfx}{}{digits}", "0".repeat(zeros))
        })
}

fn float_token() -> impl Strategy<Value = String> + Clone + use<> {
    (
        prop::sample::select(vec!["", "", "-", "+"]),
        "[0-9]{0,22}",
        any::<bool>(),
        "[0-9]{0,22}",
        prop::option::of((prop::sample::select(vec!["e", "E"]), prop::sample::select(vec!["", "-", "+"]), "[0-9]{1,3}")),
    )
        .prop_map(|(sign, ip, dot, fp, exp)| {
            let mut s = format!("{sign}{ip}");
            if dot {
                s.push('.');
                s.push_str(&fp);
            }
            if let Some((e, es, ed)) = exp {
                s.push_str(e);
                s.push_str(es);
                s.push_str(&ed);
            }
            s
        })
}

fn mutated_core_token() -> impl Strategy<Value = String> + Clone + use<> {
    let alphabet: Vec<char> = "0123456789abefxXoObB_+-.eE~ nulyst".chars().collect();
    (0usize..CORE.len(), 0u8..3, any::<u16>(), prop::sample::select(alphabet)).prop_map(|(i, op, pos, ch)| {
        let mut cs: Vec<char> = CORE[i].chars().collect();
        let p = engine::pick_idx(pos, cs.len() + 1);
        match op {
            0 => cs.insert(p, ch),
            1 => {
                if p < cs.len() {
                    cs.remove(p);
                }
            }
            _ => {
                if p < cs.len() {
                    cs[p] = ch;
                }
            }
        }
        cs.into_iter().collect()
    })
}

fn random_case() -> impl Strategy<Value = Case> + Clone + use<> {
    let text = prop_oneof![
        3 => int_token(),
        3 => near_boundary_token(),
        3 => float_token(),
        2 => mutated_core_token(),
    ];
    let style = prop::sample::select(vec![
        Style::Plain,
        Style::Plain,
        Style::Plain,
        Style::Plain,
        Style::Single,
        Style::Double,
        Style::Literal,
        Style::Folded,
    ]);
    let tag = prop::sample::select(vec![
        Tag::None,
        Tag::None,
        Tag::None,
        Tag::None,
        Tag::None,
        Tag::None,
        Tag::Str,
        Tag::Int,
        Tag::Float,
        Tag::Bool,
        Tag::Null,
        Tag::Binary,
        Tag::NonSpecific,
        Tag::Custom,
    ]);
    (text, style, tag, prop::sample::select(TARGETS.to_vec())).prop_map(|(text, style, tag, target)| {
        let style = if representable(&text, style) { style } else { Style::Double };
        Case { text, style, tag, target }
    })
}

fn wrapped_b64(bytes: &[u8], breaks: &[(u16, bool)]) -> String {
    let enc = b64_encode(bytes);
    let mut cs: Vec<char> = enc.chars().collect();
    for (p, nl) in breaks {
        if cs.len() > 1 {
            let at = 1 + engine::pick_idx(*p, cs.len() - 1);
            cs.insert(at, if *nl { '\n' } else { ' ' });
        }
    }
    let s: String = cs.into_iter().collect();
    // keep literal style usable: no doubled / leading / trailing breaks
    let mut o = String::new();
    for c in s.chars() {
        if (c == '\n' || c == ' ') && (o.is_empty() || o.ends_with(['\n', ' '])) {
            continue;
        }
        o.push(c);
    }
    o.trim_end_matches(['\n', ' ']).to_string()
}

fn random_binary_case() -> impl Strategy<Value = Case> + Clone + use<> {
    (
        prop::collection::vec(any::<u8>(), 0..64),
        any::<bool>(),
        prop::collection::vec((any::<u16>(), any::<bool>()), 0..4),
        0u8..10,
        any::<u16>(),
        prop::sample::select(vec![Target::Bytes, Target::Bytes, Target::Str, Target::OptStr, Target::Untyped]),
        prop::sample::select(vec![Style::Plain, Style::Double, Style::Literal, Style::Single, Style::Folded]),
    )
        .prop_map(|(mut bytes, ascii, breaks, damage, pos, target, style)| {
            if ascii {
                for b in bytes.iter_mut() {
                    *b = 0x20 + (*b % 0x5f);
                }
            }
            let mut text = wrapped_b64(&bytes, &breaks);
            // damage: flip a trailing bit, drop / add padding, foreign character
            let mut cs: Vec<char> = text.chars().collect();
            if !cs.is_empty() {
                let p = engine::pick_idx(pos, cs.len());
                match damage {
                    0 => {
                        // non-canonical trailing bits: bump the last data character
                        if let Some(i) = cs.iter().rposition(|c| *c != '=' && *c != ' ' && *c != '\n') {
                            const A: &str = "ABCDEFGHIJKLMNOPQRSTUVWXYZabcdefghijklmnopqrstuvwxyz0123456789+/";
                            if let Some(k) = A.find(cs[i]) {
                                cs[i] = A.as_bytes()[(k + 1) % 64] as char;
                            }
                        }
                    }
                    1 => {
                        cs.pop();
                    }
                    2 => cs.push('='),
                    3 => cs[p] = '-',
                    4 => cs.insert(p, '='),
                    _ => {}
                }
                text = cs.into_iter().collect();
            }
            let style = if representable(&text, style) { style } else { Style::Double };
            Case { text, style, tag: Tag::Binary, target }
        })
}

// ------------------------------------------------------------------------------------------

struct C06;

fn i128_min_in_radix(c: &Case) -> bool {
    // the i128 target itself, and the no_schema test of string targets, which asks the same
    // parser whether a plain scalar "is a number"
    let string_side =
        matches!(c.target, Target::Str | Target::OptStr) && c.style == Style::Plain && c.tag == Tag::None;
    if c.target != Target::I128 && !string_side {
        return false;
    }
    [false, true].iter().any(|legacy| {
        let r = int_read(&c.text, *legacy);
        r.cls != Cls::No && r.neg && r.radix != 10 && r.mags[0] == Big::pow2(127)
    })
}

/// open finding: under no_schema a plain integer in (i128::MAX, u128::MAX] that Rust's float
/// parser does not read (non-decimal radix or `_` separators) is accepted by string targets
fn no_schema_u128(c: &Case) -> bool {
    if !matches!(c.target, Target::Str | Target::OptStr) || c.style != Style::Plain || c.tag != Tag::None {
        return false;
    }
    if core_float(c.text.trim()) {
        return false;
    }
    [false, true].iter().any(|legacy| {
        let r = int_read(&c.text, *legacy);
        r.cls == Cls::Strict && !r.neg && r.mags[0].bits() == 128
    })
}

impl Property for C06 {
    const ID: &'static str = "C06";
    type Case = Case;
    fn rule() -> String {
        "one case = (scalar text, style, tag, target type); the oracle evaluates it under all 16 combinations of strict_booleans / no_schema / legacy_octal_numbers / ignore_binary_tag_for_string, as a root scalar and as the two items of a block sequence (32 cells per case, counted in classes[\"cells ...\"]). Generation: (a) core corpus (integer notations, YAML 1.1 boolean table with case variants, null forms, float forms incl. .inf/.nan, overflow and subnormal boundaries, chars, strings, base64 look-alikes) x every representable style x 9 tags x 22 targets (Vec<u8> and Option<Vec<u8>> go through deserialize_seq), exhaustive; (b) every integer width boundary 2^(w-1), 2^w (w=8..128) -2..+1 in decimal/0x/0o/0b/legacy-octal/leading-zero spellings x sign x separator and prefix-case variants, plain with no tag and !!int x 20 targets exhaustive plus rotating style/tag combinations (thorough: all); (c) all strings of length <= 6 over {A,B,E,Q,/,+,=,space,newline} as !!binary payloads; all byte arrays of length <= 2 encoded by the harness; random longer arrays with wrapping and damage; (d) random numeric-looking tokens from a grammar. Oracle: three-valued reference model written from README/rustdoc (big-integer accumulation then range test; bool/null/float tables; Rust's str::parse as the IEEE oracle; independent strict base64 decoder) + position independence + per-option metamorphic relations. Non-trivial: the token's integer reading lies within 2 of a width boundary 2^7..2^128, or the model's verdict differs between two option vectors. distinct = distinct (text, style, tag, target).".into()
    }
    fn assumptions() -> Vec<String> {
        vec![
            "the harness is built with the robotics feature enabled but angle_conversions stays off".into(),
            "grey cells (model verdict Free/Any) only check that an accepted value is one of the readings of the token".into(),
            "bytes are requested through serde_bytes::ByteBuf; Option targets are Option<i64> and Option<String>".into(),
            "empty plain untagged scalar is rendered as `---` at the root and as `-` in the sequence".into(),
        ]
    }
    fn check(c: &Case) -> Outcome {
        check_case(c)
    }
    fn signatures(c: &Case) -> Vec<&'static str> {
        let mut v = vec![];
        if i128_min_in_radix(c) {
            v.push("i128_min_radix");
        }
        if no_schema_u128(c) {
            v.push("no_schema_u128");
        }
        v
    }
    fn shrink(c: &Case) -> Vec<Case> {
        let mut out = vec![];
        if c.tag != Tag::None {
            out.push(Case { tag: Tag::None, ..c.clone() });
        }
        if c.style != Style::Plain && representable(&c.text, Style::Plain) {
            out.push(Case { style: Style::Plain, ..c.clone() });
        }
        let cs: Vec<char> = c.text.chars().collect();
        if cs.len() <= 200 {
            for i in 0..cs.len() {
                let mut v = cs.clone();
                v.remove(i);
                let t: String = v.into_iter().collect();
                if representable(&t, c.style) {
                    out.push(Case { text: t, ..c.clone() });
                }
            }
        }
        out
    }
    fn selfcheck() -> Result<(), String> {
        // big integer against u128 formatting
        for x in [0u128, 1, 9, 10, 255, 256, u64::MAX as u128, u64::MAX as u128 + 1, u128::MAX, 1 << 127, (1 << 127) - 1] {
            let b = Big::from_u128(x);
            if b.to_radix(10, false) != format!("{x}")
                || b.to_radix(16, false) != format!("{x:x}")
                || b.to_radix(8, false) != format!("{x:o}")
                || b.to_radix(2, false) != format!("{x:b}")
                || b.to_u128() != Some(x)
                || b.bits() != (128 - x.leading_zeros()) as usize
            {
                return Err(format!("Big disagrees with u128 on {x}"));
            }
            let r = int_read(&format!("{x}"), false);
            if r.mags.first() != Some(&b) {
                return Err(format!("int_read disagrees on {x}"));
            }
        }
        if Big::pow2(128).to_radix(10, false) != "340282366920938463463374607431768211456" {
            return Err("Big::pow2(128)".into());
        }
        if Big::pow2(128).sub_small(1).to_u128() != Some(u128::MAX) || Big::pow2(128).add_small(1).to_u128().is_some() {
            return Err("Big add/sub".into());
        }
        // base64 model
        for (t, want) in [("aGVsbG8=", Some(b"hello".to_vec())), ("", Some(vec![])), ("QR==", None), ("QUJ=", None), ("QQ", None), ("SG Vs\nbG8h", Some(b"Hello!".to_vec()))] {
            let got = match b64_decode(t) {
                B64::Valid(b) => Some(b),
                _ => None,
            };
            if got != want {
                return Err(format!("b64_decode({t:?})"));
            }
        }
        for n in 0..40usize {
            let bytes: Vec<u8> = (0..n).map(|i| (i * 37 + n * 11) as u8).collect();
            if b64_decode(&b64_encode(&bytes)) != B64::Valid(bytes) {
                return Err("b64 round trip".into());
            }
        }
        // rendering against the raw parser on a sample
        for (t, s) in [("12", Style::Plain), ("", Style::Plain), ("a'b", Style::Single), ("x\ny", Style::Double), ("x\ny", Style::Literal), ("", Style::Literal), ("ab", Style::Folded)] {
            for tag in TAGS {
                let c = Case { text: t.into(), style: s, tag, target: Target::Str };
                let d = render(&c).ok_or("render")?;
                if !raw_ok(&d[0], &c, false) || !raw_ok(&d[1], &c, true) {
                    return Err(format!("rendering of {c:?} is not what the raw parser sees: {d:?}"));
                }
            }
        }
        Ok(())
    }
    /// libFuzzer input: style, tag, target, then a token over the scalar alphabet (<= 24 characters)
    fn fuzz_decode(data: &[u8]) -> Option<(&'static str, Case, bool)> {
        let mut b = engine::Bytes::new(data);
        let style = b.pick(&[Style::Plain, Style::Plain, Style::Plain, Style::Plain, Style::Single, Style::Double, Style::Literal, Style::Folded]);
        let tag = b.pick(&[Tag::None, Tag::None, Tag::None, Tag::None, Tag::None, Tag::None, Tag::Str, Tag::Int, Tag::Float, Tag::Bool, Tag::Null, Tag::Binary, Tag::NonSpecific, Tag::Custom]);
        let target = b.pick(&TARGETS);
        const ALPHABET: &[u8] = b"0123456789abefxXoObB_+-.eE~ nulystiIfFaANTRrU:";
        let text: String = b.take(24).iter().map(|x| ALPHABET[*x as usize % ALPHABET.len()] as char).collect();
        let style = if representable(&text, style) { style } else { Style::Double };
        let c = Case { text, style, tag, target };
        let nt = nontrivial(&c);
        Some(("fuzz-tokens", c, nt))
    }
    fn generate(ctx: &mut Ctx<Self>) {
        let thorough = ctx.tier == Tier::Thorough;
        let mut idx = 0u64;
        // (a) core corpus, full product
        let mut n_core = 0u64;
        for t in CORE {
            for style in STYLES {
                if !representable(t, style) {
                    continue;
                }
                for tag in TAGS {
                    for target in TARGETS {
                        idx += 1;
                        n_core += 1;
                        if ctx.mine(idx) {
                            submit(ctx, "core-product", &Case { text: t.to_string(), style, tag, target });
                        }
                    }
                }
            }
        }
        ctx.subspace("core corpus x representable styles x 9 tags x 20 targets (x16 option vectors x2 positions)", n_core, true);
        // (b) width boundaries
        let toks = boundary_tokens(thorough);
        let mut n_b = 0u64;
        for t in &toks {
            for tag in [Tag::None, Tag::Int] {
                for target in TARGETS {
                    idx += 1;
                    n_b += 1;
                    if ctx.mine(idx) {
                        submit(ctx, "boundary-plain", &Case { text: t.clone(), style: Style::Plain, tag, target });
                    }
                }
            }
        }
        ctx.subspace("width-boundary tokens, plain, no tag / !!int, x 20 targets", n_b, true);
        let combos: Vec<(Style, Tag)> = STYLES
            .iter()
            .flat_map(|s| TAGS.iter().map(move |t| (*s, *t)))
            .filter(|(s, t)| !(*s == Style::Plain && matches!(t, Tag::None | Tag::Int)))
            .collect();
        let per_token = if thorough { combos.len() } else { 6 };
        let mut n_r = 0u64;
        for (ti, t) in toks.iter().enumerate() {
            for j in 0..per_token {
                let (style, tag) = combos[(ti * 7 + j * 5) % combos.len()];
                let (style, tag) = if thorough { combos[j] } else { (style, tag) };
                for target in TARGETS {
                    idx += 1;
                    n_r += 1;
                    if ctx.mine(idx) {
                        submit(ctx, "boundary-style-tag", &Case { text: t.clone(), style, tag, target });
                    }
                }
            }
        }
        ctx.subspace("width-boundary tokens x other (style, tag) combinations x 20 targets", n_r, thorough);
        // (c) base64
        // (sextets 0, 1, 4, 16, 62, 63: a trailing `E` has only bit 2 set, which is non-canonical
        // after one data character and canonical after two)
        const B: [char; 9] = ['A', 'B', 'E', 'Q', '/', '+', '=', ' ', '\n'];
        let mut total = 0u64;
        for len in 0..=6u32 {
            for code in 0..9u64.pow(len) {
                total += 1;
                if !ctx.mine(total) {
                    continue;
                }
                let mut s = String::new();
                let mut x = code;
                for _ in 0..len {
                    s.push(B[(x % 9) as usize]);
                    x /= 9;
                }
                for target in [Target::Bytes, Target::Str] {
                    submit(ctx, "base64-exhaustive", &Case { text: s.clone(), style: Style::Double, tag: Tag::Binary, target });
                }
                // one more (style, target) combination, rotating
                let extra_t = [Target::Untyped, Target::OptStr, Target::Bytes, Target::Str][(code % 4) as usize];
                let extra_s = [Style::Plain, Style::Literal, Style::Single, Style::Folded][((code / 4) % 4) as usize];
                if representable(&s, extra_s) {
                    submit(ctx, "base64-exhaustive-style", &Case { text: s.clone(), style: extra_s, tag: Tag::Binary, target: extra_t });
                }
            }
        }
        ctx.subspace("strings of length <= 6 over {A,B,E,Q,/,+,=,space,newline} as !!binary (double-quoted; Bytes and String targets)", total, true);
        let mut n_arr = 0u64;
        for code in 0..(1u32 + 256 + 65536) {
            n_arr += 1;
            if !ctx.mine(n_arr) {
                continue;
            }
            let bytes: Vec<u8> = if code == 0 {
                vec![]
            } else if code <= 256 {
                vec![(code - 1) as u8]
            } else {
                vec![((code - 257) >> 8) as u8, ((code - 257) & 255) as u8]
            };
            let text = b64_encode(&bytes);
            let style = [Style::Plain, Style::Literal, Style::Double][(code % 3) as usize];
            let target = [Target::Bytes, Target::Str, Target::Untyped, Target::OptStr][((code / 3) % 4) as usize];
            submit(ctx, "bytes-len<=2", &Case { text: text.clone(), style, tag: Tag::Binary, target });
            if target != Target::Bytes {
                submit(ctx, "bytes-len<=2", &Case { text, style, tag: Tag::Binary, target: Target::Bytes });
            }
        }
        ctx.subspace("byte arrays of length <= 2, encoded by the harness, !!binary", n_arr, true);
        ctx.run_strategy("bytes-random", 1, ctx.tier.pick(12_000, 150_000), &random_binary_case(), nontrivial);
        // (d) random numeric-looking tokens
        ctx.run_strategy("tokens-random", 2, ctx.tier.pick(40_000, 600_000), &random_case(), nontrivial);
    }
}

fn main() {
    engine::main::<C06>()
}

/// entry point of the libFuzzer target `fuzz/fuzz_targets/c06.rs`
#[allow(dead_code)]
pub fn fuzz(data: &[u8]) {
    engine::fuzz_one::<C06>(data)
}
