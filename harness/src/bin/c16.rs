//! C16 – reported locations are consistent with the input and name the right node.
use proptest::prelude::*;
use serde::de::{DeserializeSeed, Deserializer, MapAccess, SeqAccess, Visitor};
use serde::{Deserialize, Serialize};
use serde_saphyr::{Location, Spanned};
use vcheck::engine::{self, Ctx, Outcome, Property};
use vcheck::gdoc::{self, Kind, Layout, Node, NodeInfo, Style};
use vcheck::opts::{DeOpts, Dup};
use vcheck::shape::{ScalarMode, ShapeSeed};

#[derive(Clone, Debug, Serialize, Deserialize)]
struct Case {
    doc: Node,
    layout: Layout,
    /// pre-order index of a scalar leaf (value position) to replace by a non-integer, if any
    bad_leaf: Option<usize>,
    /// 0 = ordinary case; n > 0 = the n-th fixed merge document (doc / layout / bad_leaf unused)
    #[serde(default)]
    special: u8,
    /// n > 0 = the (n-1)-th case of the alias-error-sites grid (everything else unused)
    #[serde(default)]
    alias_err: u16,
}

// ---------------- generic span tree -------------------------------------------------------------
#[derive(Debug)]
enum Sp {
    Scalar,
    Seq(Vec<Spanned<Sp>>),
    Map(Vec<(Spanned<Sp>, Spanned<Sp>)>),
}
struct SpV;
impl<'de> Visitor<'de> for SpV {
    type Value = Sp;
    fn expecting(&self, f: &mut std::fmt::Formatter) -> std::fmt::Result {
        f.write_str("any node")
    }
    fn visit_bool<E>(self, _: bool) -> Result<Sp, E> {
        Ok(Sp::Scalar)
    }
    fn visit_i64<E>(self, _: i64) -> Result<Sp, E> {
        Ok(Sp::Scalar)
    }
    fn visit_u64<E>(self, _: u64) -> Result<Sp, E> {
        Ok(Sp::Scalar)
    }
    fn visit_f64<E>(self, _: f64) -> Result<Sp, E> {
        Ok(Sp::Scalar)
    }
    fn visit_str<E>(self, _: &str) -> Result<Sp, E> {
        Ok(Sp::Scalar)
    }
    fn visit_unit<E>(self) -> Result<Sp, E> {
        Ok(Sp::Scalar)
    }
    fn visit_none<E>(self) -> Result<Sp, E> {
        Ok(Sp::Scalar)
    }
    fn visit_seq<A: SeqAccess<'de>>(self, mut a: A) -> Result<Sp, A::Error> {
        let mut v = vec![];
        while let Some(x) = a.next_element::<Spanned<Sp>>()? {
            v.push(x);
        }
        Ok(Sp::Seq(v))
    }
    fn visit_map<A: MapAccess<'de>>(self, mut a: A) -> Result<Sp, A::Error> {
        let mut v = vec![];
        while let Some(k) = a.next_key::<Spanned<Sp>>()? {
            let x = a.next_value::<Spanned<Sp>>()?;
            v.push((k, x));
        }
        Ok(Sp::Map(v))
    }
}
impl<'de> Deserialize<'de> for Sp {
    fn deserialize<D: Deserializer<'de>>(d: D) -> Result<Sp, D::Error> {
        d.deserialize_any(SpV)
    }
}

// ---------------- consistency of one Location with the text --------------------------------------
struct TextIndex {
    /// per char: (line, col) 1-based and byte offset
    chars: Vec<(usize, usize, usize)>,
    total_bytes: usize,
    end: (usize, usize),
}
fn index(text: &str) -> TextIndex {
    let mut v = vec![];
    let (mut line, mut col) = (1usize, 1usize);
    let cs: Vec<(usize, char)> = text.char_indices().collect();
    let mut i = 0;
    while i < cs.len() {
        let (b, ch) = cs[i];
        v.push((line, col, b));
        if ch == '\r' && i + 1 < cs.len() && cs[i + 1].1 == '\n' {
            // CRLF: one break; the LF belongs to the same line end
            v.push((line, col + 1, cs[i + 1].0));
            i += 2;
            line += 1;
            col = 1;
            continue;
        }
        if ch == '\n' || ch == '\r' {
            line += 1;
            col = 1;
        } else {
            col += 1;
        }
        i += 1;
    }
    TextIndex { chars: v, total_bytes: text.len(), end: (line, col) }
}
fn consistent(ix: &TextIndex, loc: &Location, what: &str) -> Result<(), String> {
    if *loc == Location::UNKNOWN {
        return Ok(());
    }
    let (l, c) = (loc.line() as usize, loc.column() as usize);
    if l < 1 || c < 1 {
        return Err(format!("{what}: line/column {l}:{c} is not 1-based"));
    }
    let sp = loc.span();
    let off = sp.offset() as usize;
    let len = sp.len() as usize;
    if off > ix.chars.len() || off + len > ix.chars.len() + 1 {
        return Err(format!("{what}: char range {off}+{len} lies outside the input ({} chars)", ix.chars.len()));
    }
    let (wl, wc, wb) = if off < ix.chars.len() { ix.chars[off] } else { (ix.end.0, ix.end.1, ix.total_bytes) };
    // (a position at the very end of an input that does not end in a line break is reported by
    // the parser as the start of the following line; both readings are accepted)
    let at_eof_next_line = off == ix.chars.len() && (l, c) == (ix.end.0 + 1, 1);
    if (l, c) != (wl, wc) && !at_eof_next_line {
        return Err(format!("{what}: reports {l}:{c} but its char offset {off} is at {wl}:{wc}"));
    }
    match sp.byte_offset() {
        Some(b) => {
            if b as usize != wb {
                return Err(format!("{what}: byte offset {b} but char offset {off} is byte {wb}"));
            }
            if let Some(bl) = sp.byte_len() {
                let end_b = if off + len < ix.chars.len() { ix.chars[off + len].2 } else { ix.total_bytes };
                if off + len <= ix.chars.len() && bl as usize != end_b - wb {
                    return Err(format!("{what}: byte length {bl} but {len} chars from byte {wb} are {} bytes", end_b - wb));
                }
            }
        }
        None => {
            if (off, len) != (0, 0) {
                return Err(format!("{what}: byte offset missing for in-memory input (char range {off}+{len})"));
            }
        }
    }
    Ok(())
}

/// like `consistent`, but a location without byte information is accepted (scanner errors)
fn consistent_opt_bytes(ix: &TextIndex, loc: &Location, what: &str) -> Result<(), String> {
    match consistent(ix, loc, what) {
        Err(m) if m.contains("byte offset missing") => Ok(()),
        other => other,
    }
}

// ---------------- pairing the span tree with the document AST ------------------------------------
struct Walk<'a> {
    infos: &'a [NodeInfo],
    ix: &'a TextIndex,
    text: &'a str,
    /// anchored definitions bound so far: name -> (node, pre-order index)
    env: Vec<(String, &'a Node, usize)>,
    checked: usize,
}
fn at(info_pos: &gdoc::Pos, loc: &Location) -> bool {
    loc.line() as usize == info_pos.line && loc.column() as usize == info_pos.col
}
impl<'a> Walk<'a> {
    /// `idx`: pre-order index of `n`; `via`: Some(alias site index) when we are inside replayed content
    fn node(&mut self, n: &'a Node, idx: usize, sp: &Spanned<Sp>, via: Option<usize>, is_key: bool) -> Result<(), String> {
        consistent(self.ix, &sp.referenced, "referenced")?;
        consistent(self.ix, &sp.defined, "defined")?;
        self.checked += 1;
        let info = &self.infos[idx];
        if let Kind::Alias(name) = &n.kind {
            // the binding in force where the alias token stands (inside replayed content that is
            // the binding at recording time, i.e. earlier than the alias' own position)
            let Some((_, def, def_idx)) = self.env.iter().rev().find(|(b, _, i)| b == name && *i < idx).cloned() else {
                return Err("alias without definition in the model".into());
            };
            let def_info = &self.infos[def_idx];
            // use site = the alias token, definition site = the anchored node
            if !is_key && via.is_none() && !at(&info.content, &sp.referenced) {
                return Err(format!("value reached through alias *{name}: referenced = {}:{}, the alias token is at {}:{}", sp.referenced.line(), sp.referenced.column(), info.content.line, info.content.col));
            }
            let def_block_scalar = matches!(&def.kind, Kind::Scalar { value, style } if matches!(gdoc::effective_style(value, *style, false, false), Style::Literal | Style::Folded)) && def_info.token_end.is_none();
            // (an alias nested inside replayed content: which anchored node counts as "the"
            // definition site is not fixed by the property; only consistency is judged)
            if via.is_none() && !def_block_scalar && !(at(&def_info.content, &sp.defined) || at(&def_info.start, &sp.defined)) {
                return Err(format!("value reached through alias *{name}: defined = {}:{}, the anchored node is at {}:{}", sp.defined.line(), sp.defined.column(), def_info.content.line, def_info.content.col));
            }
            return self.children(def, def_idx, sp, Some(idx), is_key);
        }
        if let (Some(a), None) = (&n.anchor, via) {
            // (definitions are registered where they stand in the document, not again when their
            // subtree is walked as replayed content)
            self.env.push((a.clone(), n, idx));
        }
        // plain node: both locations are the node start. Below a mapping key, and inside
        // replayed content, `referenced` may be either site (not fixed by the property).
        // (block scalars: the parser reports the content, not the header; the property does not
        // say which, so only consistency is judged for them)
        let block_scalar = matches!(&n.kind, Kind::Scalar { value, style } if matches!(gdoc::effective_style(value, *style, false, false), Style::Literal | Style::Folded))
            && info.token_end.is_none();
        let here = |l: &Location| block_scalar || at(&info.content, l) || at(&info.start, l);
        if !here(&sp.defined) {
            return Err(format!("node at {}:{}: defined = {}:{}", info.content.line, info.content.col, sp.defined.line(), sp.defined.column()));
        }
        if via.is_none() && !is_key && !here(&sp.referenced) {
            return Err(format!("node at {}:{}: referenced = {}:{}", info.content.line, info.content.col, sp.referenced.line(), sp.referenced.column()));
        }
        // the byte range of a single-line scalar is exactly its source text
        if let (Kind::Scalar { value, style }, Some(end)) = (&n.kind, &info.token_end) {
            let eff = gdoc::effective_style(value, *style, true, false);
            let s = sp.defined.span();
            if let (Some(bo), Some(bl)) = (s.byte_offset(), s.byte_len()) {
                let (bo, bl) = (bo as usize, bl as usize);
                let want = &self.text[info.content.byte_off..end.byte_off];
                if bo + bl <= self.text.len() && self.text.is_char_boundary(bo) && self.text.is_char_boundary(bo + bl) {
                    let got = &self.text[bo..bo + bl];
                    if got != want && !(value.is_empty() && eff == Style::Plain) {
                        return Err(format!("scalar token {want:?}: reported byte range covers {got:?}"));
                    }
                } else {
                    return Err(format!("scalar token {want:?}: reported byte range {bo}+{bl} is not a valid range of the input"));
                }
            }
        }
        self.children(n, idx, sp, via, is_key)
    }
    fn children(&mut self, n: &'a Node, idx: usize, sp: &Spanned<Sp>, via: Option<usize>, in_key: bool) -> Result<(), String> {
        match (&n.kind, &sp.value) {
            (Kind::Scalar { .. }, Sp::Scalar) => Ok(()),
            (Kind::Seq { items, .. }, Sp::Seq(xs)) => {
                if items.len() != xs.len() {
                    return Err("harness: sequence length mismatch".into());
                }
                let mut i = idx + 1;
                for (it, x) in items.iter().zip(xs) {
                    self.node(it, i, x, via, in_key)?;
                    i += it.count();
                }
                Ok(())
            }
            (Kind::Map { entries, .. }, Sp::Map(xs)) => {
                let plain: Vec<&(Node, Node)> = entries.iter().filter(|(k, _)| !k.is_merge_key()).collect();
                if entries.len() != plain.len() {
                    // mappings with merge keys are checked by the dedicated merge sub-check
                    return Ok(());
                }
                if plain.len() != xs.len() {
                    return Err("harness: mapping size mismatch".into());
                }
                let mut i = idx + 1;
                for ((k, v), (xk, xv)) in entries.iter().zip(xs) {
                    self.node(k, i, xk, via, true)?;
                    i += k.count();
                    self.node(v, i, xv, via, in_key)?;
                    i += v.count();
                }
                Ok(())
            }
            (Kind::Alias(_), _) => Ok(()),
            (k, s) => Err(format!("harness: kind mismatch {k:?} vs {s:?}")),
        }
    }
}

const MERGE_DOCS: [(&str, &[(&str, (usize, usize))], (usize, usize), &[(&str, (usize, usize))]); 5] = [
    // merge chains: values that come from `b` through `m` are used at the `*m` token
    ("base: &b\n  x: 1\nmid: &m\n  <<: *b\n  y: 2\nt:\n  <<: *m\n  z: 3\n", &[("x", (2, 6)), ("y", (5, 6))], (7, 7), &[("z", (8, 6))]),
    ("# \u{4e2d}\nbase: &b {x: 1}\nmid: &m {<<: *b, y: 2}\nlow: &l {<<: *m, w: 4}\nt: {z: 3, <<: *l}\n", &[("x", (2, 14)), ("y", (3, 21)), ("w", (4, 21))], (5, 15), &[("z", (5, 8))]),
    ("base: &b\n  x: 1\n  y: 2\nt:\n  <<: *b\n  z: 3\n", &[("x", (2, 6)), ("y", (3, 6))], (5, 7), &[("z", (6, 6))]),
    ("# \u{e9}\u{4e2d}\r\nbase: &b {x: 1, y: 2}\r\nt:\r\n  z: 3\r\n  <<: *b\r\n", &[("x", (2, 14)), ("y", (2, 20))], (5, 7), &[("z", (4, 6))]),
    ("t:\n  <<: {x: 1, y: 2}\n  z: 3\n", &[], (2, 7), &[("z", (3, 6))]),
];

/// directive lines put in front of a rendered document (`special` 50..): every location of the
/// span tree must still be consistent with the text (positions are not compared with the
/// renderer's, which does not know about the prefix)
const DIRECTIVES: [&str; 6] = ["%YAML 1.2\n---\n", "%FOO bar\n---\n", "%FOO \u{4e16}\u{754c} x\n---\n", "%TAG !e! tag:\u{e9}x,2000:\n---\n", "%F \u{1f600}\n%G \u{e9}\n---\n", "# \u{4e16}\n%FOO b\n---\n"];

fn all_consistent(ix: &TextIndex, n: &Spanned<Sp>) -> Result<(), String> {
    consistent(ix, &n.referenced, "referenced")?;
    consistent(ix, &n.defined, "defined")?;
    match &n.value {
        Sp::Scalar => Ok(()),
        Sp::Seq(v) => v.iter().try_for_each(|x| all_consistent(ix, x)),
        Sp::Map(v) => v.iter().try_for_each(|(k, x)| all_consistent(ix, k).and_then(|()| all_consistent(ix, x))),
    }
}

/// merged keys and serde's static errors (`special` 30..): a struct with deny_unknown_fields
/// receives its keys through `<<`; the unknown key `zz` sits at different places of the base. The
/// error must be the unknown-field error and be located at the `zz` key (its definition) or at
/// the merge entry's value (its use site) - not at another key or at the enclosing mapping.
const MERGE_STATIC: [&str; 10] = [
    "base: &b {zz: 9, a: 1, b: 2}\nt:\n  <<: *b\n",
    "base: &b {a: 1, zz: 9, b: 2}\nt:\n  <<: *b\n",
    "base: &b {a: 1, b: 2, zz: 9}\nt:\n  <<: *b\n",
    "# \u{4e2d}\nbase: &b\n  a: 1\n  b: 2\n  zz: 9\nt:\n  <<: *b\n",
    "base: 0\nt:\n  <<: {a: 1, zz: 2}\n",
    "base: 0\nt:\n  <<: {a: 1, b: 2, zz: 2}\n",
    "base: &b {a: 1}\nmid: &m {<<: *b, b: 2, zz: 3}\nt:\n  <<: *m\n",
    "base: &b {b: 2, zz: 3}\nmid: &m {a: 1, <<: *b}\nt:\n  <<: *m\n",
    "base: &b {a: 1, b: 2}\nc: &c {zz: 3}\nt:\n  <<: [*b, *c]\n",
    "base: &b {a: 1}\nc: &c {b: 2, zz: 3}\nt: {<<: [*b, *c]}\n",
];
#[derive(Debug, Deserialize)]
#[serde(deny_unknown_fields)]
#[allow(dead_code)]
struct Deny {
    #[serde(default)]
    a: i32,
    #[serde(default)]
    b: i32,
}
#[derive(Debug, Deserialize)]
#[allow(dead_code)]
struct DenyDoc {
    #[serde(default)]
    base: serde::de::IgnoredAny,
    #[serde(default)]
    mid: serde::de::IgnoredAny,
    #[serde(default)]
    c: serde::de::IgnoredAny,
    t: Deny,
}
fn check_merge_static(text: &str) -> Result<(), String> {
    let ix = index(text);
    let pos_of = |needle: &str, last: bool| -> Option<(usize, usize)> {
        let b = if last { text.rfind(needle)? } else { text.find(needle)? };
        ix.chars.iter().find(|(_, _, bo)| *bo == b).map(|(l, c, _)| (*l, *c))
    };
    let key = pos_of("zz", false).ok_or("no zz")?;
    // the value of the `<<` entry of `t`: the text after the last "<<: "
    let use_site = text.rfind("<<: ").map(|b| b + 4).and_then(|b| ix.chars.iter().find(|(_, _, bo)| *bo == b).map(|(l, c, _)| (*l, *c)));
    match serde_saphyr::from_str::<DenyDoc>(text) {
        Ok(v) => Err(format!("unknown field accepted: {v:?}")),
        Err(e) => {
            let msg = e.without_snippet().to_string();
            if !msg.contains("unknown field `zz`") {
                return Err(format!("another error than unknown field `zz`: {msg}"));
            }
            let Some(l) = e.location() else { return Err(format!("no location: {msg}")) };
            consistent(&ix, &l, "error location")?;
            let at = (l.line() as usize, l.column() as usize);
            if at == key || Some(at) == use_site {
                Ok(())
            } else {
                Err(format!("unknown field `zz` located at {}:{}, the key is at {}:{} and the merge entry's value at {:?}", at.0, at.1, key.0, key.1, use_site))
            }
        }
    }
}

fn check_case(c: &Case) -> Outcome {
    if c.alias_err > 0 {
        return match check_alias_error_sites(c.alias_err as usize - 1) {
            Ok(()) => Outcome::Pass,
            Err(m) => Outcome::Fail(m),
        };
    }
    if c.special >= 30 && c.special < 50 {
        let text = MERGE_STATIC[(c.special as usize - 30) % MERGE_STATIC.len()];
        return match check_merge_static(text) {
            Ok(()) => Outcome::Pass,
            Err(m) => Outcome::Fail(format!("{m} (text {text:?})")),
        };
    }
    if c.special >= 50 && c.special < 100 {
        let r = gdoc::render(&c.doc, &Layout { doc_start: false, ..c.layout.clone() });
        let text = format!("{}{}", DIRECTIVES[(c.special as usize - 50) % DIRECTIVES.len()], r.text);
        let ix = index(&text);
        return match serde_saphyr::from_str::<Spanned<Sp>>(&text) {
            Ok(v) => match all_consistent(&ix, &v) {
                Ok(()) => Outcome::Pass,
                Err(m) => Outcome::Fail(format!("{m} (text {text:?})")),
            },
            Err(e) => match e.without_snippet().location() {
                Some(l) => match consistent_opt_bytes(&ix, &l, "error location") {
                    Ok(()) => Outcome::Pass,
                    Err(m) => Outcome::Fail(format!("{m} (text {text:?})")),
                },
                None => Outcome::Pass,
            },
        };
    }
    if c.special > 0 && c.special < 30 {
        let (text, base, alias, own) = MERGE_DOCS[(c.special as usize - 1) % MERGE_DOCS.len()];
        let base: Vec<(String, (usize, usize))> = base.iter().map(|(k, p)| (k.to_string(), *p)).collect();
        let own: Vec<(String, (usize, usize))> = own.iter().map(|(k, p)| (k.to_string(), *p)).collect();
        return match check_merge(text, &base, alias, &own) {
            Ok(()) => Outcome::Pass,
            Err(m) => Outcome::Fail(format!("{m} (text {text:?})")),
        };
    }
    let r = gdoc::render(&c.doc, &c.layout);
    if c.special >= 200 {
        return match check_enum_payload(c.special as usize - 200) {
            Ok(()) => Outcome::Pass,
            Err(m) => Outcome::Fail(m),
        };
    }
    if c.special >= 100 {
        // a stray token is inserted into the rendered text; whatever error comes back must carry
        // a consistent location (byte information may be absent for scanner errors)
        const STRAY: [&str; 10] = ["}", "]", ": :", "'", "\"", "\t- ", "*zz", "&", "{", "[ \u{e9}"];
        let chars: Vec<char> = r.text.chars().collect();
        let pos = c.bad_leaf.unwrap_or(0) % (chars.len() + 1);
        let mut t: String = chars[..pos].iter().collect();
        t.push_str(STRAY[(c.special as usize - 100) % STRAY.len()]);
        t.extend(chars[pos..].iter());
        let ix = index(&t);
        return match serde_saphyr::from_str::<Spanned<Sp>>(&t) {
            Ok(_) => Outcome::Pass,
            Err(e) => match e.without_snippet().location() {
                Some(l) => match consistent_opt_bytes(&ix, &l, "error location") {
                    Ok(()) => Outcome::Pass,
                    Err(m) => Outcome::Fail(format!("{m} (text {t:?})")),
                },
                None => Outcome::Pass,
            },
        };
    }
    if gdoc::selfcheck_render(&c.doc, &c.layout, &r.text).is_err() {
        return Outcome::Discard("selfcheck-render");
    }
    let Ok(expanded) = gdoc::expand_aliases(&c.doc) else {
        return Outcome::Discard("unbound-or-recursive-alias");
    };
    let text = &r.text;
    let ix = index(text);
    let opts = DeOpts::with_dup(Dup::Last).build();
    match c.bad_leaf {
        None => {
            let sp: Spanned<Sp> = match serde_saphyr::from_str_with_options(text, opts) {
                Ok(v) => v,
                Err(e) => {
                    // every located error must at least be consistent
                    if let Some(l) = e.without_snippet().location() {
                        if let Err(m) = consistent_opt_bytes(&ix, &l, "error location") {
                            return Outcome::Fail(format!("{m} (text {text:?})"));
                        }
                    }
                    return Outcome::Discard("document-rejected");
                }
            };
            let mut w = Walk { infos: &r.nodes, ix: &ix, text, env: vec![], checked: 0 };
            match w.node(&c.doc, 0, &sp, None, false) {
                Ok(()) => Outcome::Pass,
                Err(m) if m.starts_with("harness:") => Outcome::Discard("selfcheck-pairing"),
                Err(m) => Outcome::Fail(format!("{m} (text {text:?})")),
            }
        }
        Some(leaf) => {
            // all-integer typed tree; the leaf at `leaf` is not an integer => type error located at that leaf
            let res = serde_saphyr::with_deserializer_from_str_with_options(text, opts, |d| ShapeSeed { shape: Some(&expanded), mode: ScalarMode::Int }.deserialize(d));
            let info = &r.nodes[leaf];
            match res {
                Ok(_) => Outcome::Discard("bad-leaf-not-reached"),
                Err(e) => {
                    let inner = e.without_snippet();
                    let Some(l) = inner.location() else {
                        return Outcome::Fail(format!("type error at {}:{} carries no location: {inner} (text {text:?})", info.content.line, info.content.col));
                    };
                    if let Err(m) = consistent(&ix, &l, "error location") {
                        return Outcome::Fail(format!("{m} (text {text:?})"));
                    }
                    // the leaf may be reached directly or through aliases of an enclosing anchored node:
                    // the error names the use site (an alias token or the leaf itself) and, under an
                    // alias, `locations()` carries the definition site too
                    let locs = inner.locations();
                    let at_leaf = |x: &Location| at(&info.content, x) || at(&info.start, x);
                    let direct = at_leaf(&l);
                    let via_alias = locs.map(|ls| at_leaf(&ls.defined_location)).unwrap_or(false);
                    if direct || via_alias {
                        Outcome::Pass
                    } else {
                        Outcome::Fail(format!(
                            "type error for the leaf at {}:{} is located at {}:{} (locations {:?}) (text {text:?})",
                            info.content.line,
                            info.content.col,
                            l.line(),
                            l.column(),
                            locs.map(|ls| ((ls.reference_location.line(), ls.reference_location.column()), (ls.defined_location.line(), ls.defined_location.column())))
                        ))
                    }
                }
            }
        }
    }
}

// ---------------- merges: use site = the merge entry's value token, definition = originating scalar
#[derive(Debug, Deserialize)]
struct MergeTarget {
    t: std::collections::BTreeMap<String, Spanned<i64>>,
}
fn check_merge(text: &str, base_vals: &[(String, (usize, usize))], alias_pos: (usize, usize), own: &[(String, (usize, usize))]) -> Result<(), String> {
    let ix = index(text);
    let v: MergeTarget = serde_saphyr::from_str(text).map_err(|e| format!("merge document rejected: {}", e.without_snippet()))?;
    for (k, sp) in &v.t {
        consistent(&ix, &sp.referenced, "referenced")?;
        consistent(&ix, &sp.defined, "defined")?;
        if let Some((_, p)) = own.iter().find(|(n, _)| n == k) {
            if (sp.defined.line() as usize, sp.defined.column() as usize) != *p || (sp.referenced.line() as usize, sp.referenced.column() as usize) != *p {
                return Err(format!("own key {k}: referenced {}:{} defined {}:{}, value is at {}:{}", sp.referenced.line(), sp.referenced.column(), sp.defined.line(), sp.defined.column(), p.0, p.1));
            }
        } else if let Some((_, p)) = base_vals.iter().find(|(n, _)| n == k) {
            if (sp.defined.line() as usize, sp.defined.column() as usize) != *p {
                return Err(format!("merged key {k}: defined {}:{}, the originating scalar is at {}:{}", sp.defined.line(), sp.defined.column(), p.0, p.1));
            }
            if (sp.referenced.line() as usize, sp.referenced.column() as usize) != alias_pos {
                return Err(format!("merged key {k}: referenced {}:{}, the merge entry's value is at {}:{}", sp.referenced.line(), sp.referenced.column(), alias_pos.0, alias_pos.1));
            }
        }
    }
    Ok(())
}

// ---------------- errors caused by a value reached through an alias ------------------------------
// "For a value reached through an alias or a merge the use-site location is that of the alias /
// merge entry and the definition-site location that of the anchored node, and an error caused by
// such a value reports both." An anchored scalar of the wrong type is used through `*a` in every
// position a value can take; the error must carry both sites (Error::locations()).
#[derive(Debug, Deserialize)]
#[allow(dead_code)]
enum AeE {
    New(i32),
    Tup(i32, i32),
    St { x: i32 },
}
#[derive(Debug, Deserialize)]
#[allow(dead_code)]
struct AeInner {
    a: Option<i32>,
}
#[derive(Debug, Deserialize)]
#[allow(dead_code)]
struct AeNest {
    v: Vec<i32>,
}
#[derive(Debug)]
struct AeBytes(#[allow(dead_code)] Vec<u8>);
impl<'de> Deserialize<'de> for AeBytes {
    fn deserialize<D: Deserializer<'de>>(d: D) -> Result<Self, D::Error> {
        serde_bytes::ByteBuf::deserialize(d).map(|b| AeBytes(b.into_vec()))
    }
}
#[derive(Debug, Deserialize)]
#[allow(dead_code)]
struct AeDoc<T> {
    s: serde::de::IgnoredAny,
    n: T,
}
const AE_POSITIONS: usize = 13;
const AE_VALUES: [&str; 4] = ["text", "\u{4e16}\u{754c}", "\"q r\"", "3.5"];
/// positions 13..16 (an alias inside an element of a merge *sequence* that is written in place)
/// were added later: their codes follow the first grid, so that saved cases keep their meaning
const AE_MORE_POSITIONS: usize = 3;
const AE_FIRST_GRID: usize = AE_POSITIONS * 4 * 3 * 3;
const AE_GRID: usize = AE_FIRST_GRID + AE_MORE_POSITIONS * 4 * 3 * 3;
fn check_alias_error_sites(code: usize) -> Result<(), String> {
    let (pos, code, np) = if code < AE_FIRST_GRID { (code % AE_POSITIONS, code, AE_POSITIONS) } else { (AE_POSITIONS + (code - AE_FIRST_GRID) % AE_MORE_POSITIONS, code - AE_FIRST_GRID, AE_MORE_POSITIONS) };
    let val = AE_VALUES[(code / np) % 4];
    let lead = (code / (np * 4)) % 3;
    let pad = ["", " ", "   "][(code / (np * 12)) % 3];
    // the byte sequence wants an out-of-range integer rather than text to be "of the wrong type"
    let val = if pos == 5 && val == "3.5" { "300" } else { val };
    let mut text = String::new();
    for i in 0..lead {
        text.push_str(&format!("# \u{e9} lead {i}\n"));
    }
    let l1 = format!("s:{pad} &a {val}\n");
    text.push_str(&l1);
    let use_lines: String = match pos {
        0 | 9 => format!("n:{pad} *a\n"),
        1 | 5 => format!("n: [1,{pad} *a]\n"),
        2 => format!("n: {{New:{pad} *a}}\n"),
        3 => format!("n: {{Tup:{pad} *a}}\n"),
        4 => format!("n: {{St:{pad} *a}}\n"),
        6 => format!("n:\n  <<:{pad} *a\n"),
        7 => format!("n:\n  <<: [{pad}*a]\n"),
        8 => format!("n:\n  k:{pad} *a\n"),
        // an alias inside a merged mapping that is written in place
        11 => format!("n:\n  <<: {{a:{pad} *a}}\n"),
        // no alias at all: a node of the wrong type nested in a merged mapping written in place
        12 => format!("n:\n  <<: {{v: [1,{pad} {val}]}}\n"),
        // an alias inside an element of a merge sequence, the element written in place (alone,
        // after another element, in a block sequence)
        13 => format!("n:\n  <<: [{{a:{pad} *a}}]\n"),
        14 => format!("n:\n  <<: [{{z: 1}}, {{a:{pad} *a}}]\n"),
        15 => format!("n:\n  <<:\n    - {{a:{pad} *a}}\n"),
        _ => format!("n:\n  -{pad} *a\n"),
    };
    text.push_str(&use_lines);
    // ground truth by construction
    let def = (lead + 1, l1.chars().position(|ch| ch == 'a').unwrap() + 3); // "&a " then the value
    let def = (def.0, l1.chars().count() - val.chars().count()); // 1-based column of the value's first character
    let first = if pos == 12 { val.chars().next().unwrap() } else { '*' };
    let star_line_off = use_lines.lines().position(|l| l.contains(first)).unwrap();
    let star_line = use_lines.lines().nth(star_line_off).unwrap();
    let at = if pos == 12 { star_line.find(val).map(|b| star_line[..b].chars().count()).unwrap() } else { star_line.chars().position(|ch| ch == '*').unwrap() };
    let alias = (lead + 2 + star_line_off, at + 1);
    fn run<T: for<'de> Deserialize<'de> + std::fmt::Debug>(text: &str) -> Result<serde_saphyr::Error, String> {
        match serde_saphyr::from_str::<AeDoc<T>>(text) {
            Ok(v) => Err(format!("accepted as {v:?}")),
            Err(e) => Ok(e),
        }
    }
    let err = match pos {
        0 => run::<i32>(&text),
        1 => run::<Vec<i32>>(&text),
        2 | 3 | 4 => run::<AeE>(&text),
        5 => run::<AeBytes>(&text),
        6 | 7 | 11 | 13 | 14 | 15 => run::<AeInner>(&text),
        12 => run::<AeNest>(&text),
        8 => run::<std::collections::BTreeMap<String, i32>>(&text),
        9 => run::<Option<i32>>(&text),
        _ => run::<Vec<Option<i32>>>(&text),
    }
    .map_err(|m| format!("alias-error-sites: a document with a value of the wrong type is {m} (text {text:?})"))?;
    let ix = index(&text);
    let msg = err.without_snippet().to_string();
    if pos == 12 {
        // written where it is used: one position, that of the node, and no second site
        let Some(l) = err.location() else {
            return Err(format!("alias-error-sites: the error carries no location: {msg} (text {text:?})"));
        };
        consistent(&ix, &l, "error location").map_err(|m| format!("{m} (text {text:?})"))?;
        let at = (l.line() as usize, l.column() as usize);
        let two = err.locations().filter(|ls| ls.reference_location != ls.defined_location);
        if at != alias || two.is_some() {
            return Err(format!(
                "alias-error-sites: a node nested in a merged mapping that is written in place (no alias in the document's use of it) is reported at {}:{}{}; the node is at {}:{} ({msg}; text {text:?})",
                at.0,
                at.1,
                two.map(|ls| format!(" with a second site {}:{}", ls.defined_location.line(), ls.defined_location.column())).unwrap_or_default(),
                alias.0,
                alias.1
            ));
        }
        return Ok(());
    }
    let Some(locs) = err.locations() else {
        return Err(format!("alias-error-sites: the error carries no locations: {msg} (text {text:?})"));
    };
    consistent(&ix, &locs.reference_location, "use-site location").map_err(|m| format!("{m} (text {text:?})"))?;
    consistent(&ix, &locs.defined_location, "definition-site location").map_err(|m| format!("{m} (text {text:?})"))?;
    let r = (locs.reference_location.line() as usize, locs.reference_location.column() as usize);
    let d = (locs.defined_location.line() as usize, locs.defined_location.column() as usize);
    if r != alias || d != def {
        return Err(format!(
            "alias-error-sites: an error caused by a value reached through an alias reports use site {}:{} / definition site {}:{}; the alias is at {}:{}, the anchored node at {}:{} ({msg}; text {text:?})",
            r.0, r.1, d.0, d.1, alias.0, alias.1, def.0, def.1
        ));
    }
    Ok(())
}

/// Payloads of enum variants (`special` 200..): `!V 5`, `!T [5, 6]`, `{V: 5}`, `{T: [5, 6]}` in a
/// sequence item or a mapping value, read directly and through an alias; every payload is a
/// `Spanned<i64>`: directly it reports its own position twice, through the alias the alias token
/// as use site and its own position as definition site.
#[derive(Debug, Deserialize)]
enum PayloadE {
    V(Spanned<i64>),
    T(Spanned<i64>, Spanned<i64>),
}
#[derive(Debug, Deserialize)]
struct PayloadM {
    a: PayloadE,
    b: PayloadE,
}
fn check_enum_payload(code: usize) -> Result<(), String> {
    let form = code % 4;
    let in_map = (code / 4) % 2 == 1;
    let lead = (code / 8) % 3;
    let pad = ["", " ", "   "][(code / 24) % 3];
    let body = ["!V 5", "!T [5, 6]", "{V: 5}", "{T: [5, 6]}"][form];
    let mut text = String::new();
    for i in 0..lead {
        text.push_str(&format!("# \u{e9} lead {i}\n"));
    }
    let (l1, l2) = if in_map { (format!("a:{pad} &x {body}\n"), format!("b:{pad} *x\n")) } else { (format!("-{pad} &x {body}\n"), format!("-{pad} *x\n")) };
    text.push_str(&l1);
    text.push_str(&l2);
    // ground truth by construction: the payload scalars are the `5` and the `6` of line `lead + 1`
    let line1 = lead + 1;
    let col = |needle: char| l1.chars().position(|ch| ch == needle).map(|i| i + 1);
    let (c5, c6) = (col('5').unwrap(), col('6'));
    let alias = (lead + 2, l2.chars().position(|ch| ch == '*').unwrap() + 1);
    let (first, second): (PayloadE, PayloadE) = if in_map {
        let m: PayloadM = serde_saphyr::from_str(&text).map_err(|e| format!("enum payload document rejected: {} (text {text:?})", e.without_snippet()))?;
        (m.a, m.b)
    } else {
        let mut v: Vec<PayloadE> = serde_saphyr::from_str(&text).map_err(|e| format!("enum payload document rejected: {} (text {text:?})", e.without_snippet()))?;
        if v.len() != 2 {
            return Err(format!("{} items (text {text:?})", v.len()));
        }
        let b = v.pop().unwrap();
        (v.pop().unwrap(), b)
    };
    let spans = |e: &PayloadE| -> Vec<(i64, (u64, u64), (u64, u64))> {
        let f = |s: &Spanned<i64>| (s.value, (s.referenced.line(), s.referenced.column()), (s.defined.line(), s.defined.column()));
        match e {
            PayloadE::V(a) => vec![f(a)],
            PayloadE::T(a, b) => vec![f(a), f(b)],
        }
    };
    let mut want_cols = vec![c5];
    if let Some(c) = c6 {
        want_cols.push(c);
    }
    for (which, e, through_alias) in [("direct", &first, false), ("through the alias", &second, true)] {
        let got = spans(e);
        if got.len() != want_cols.len() {
            return Err(format!("{which}: {} payload items (text {text:?})", got.len()));
        }
        for ((_, referenced, defined), c) in got.iter().zip(&want_cols) {
            let own = (line1 as u64, *c as u64);
            let want_ref = if through_alias { (alias.0 as u64, alias.1 as u64) } else { own };
            if *defined != own || *referenced != want_ref {
                return Err(format!(
                    "enum payload {which}: referenced {referenced:?} / defined {defined:?}, expected referenced {want_ref:?} / defined {own:?} (text {text:?})"
                ));
            }
        }
    }
    Ok(())
}

struct C16;

fn scalar_leaves(doc: &Node) -> Vec<usize> {
    // pre-order indices of scalar nodes in value position (not keys, not anchored-then-aliased subtleties)
    fn go(n: &Node, idx: &mut usize, is_key: bool, out: &mut Vec<usize>) {
        let me = *idx;
        *idx += 1;
        match &n.kind {
            Kind::Scalar { .. } if !is_key => out.push(me),
            Kind::Seq { items, .. } => items.iter().for_each(|x| go(x, idx, false, out)),
            Kind::Map { entries, .. } => entries.iter().for_each(|(k, v)| {
                go(k, idx, true, out);
                go(v, idx, false, out)
            }),
            _ => {}
        }
    }
    let mut out = vec![];
    go(doc, &mut 0, false, &mut out);
    out
}

/// integer-only tree with string keys; multi-byte text in keys / quoted siblings shifts offsets
fn arb_int_tree() -> impl Strategy<Value = Node> + Clone + use<> {
    let leaf = (1i64..1000).prop_map(|i| Node::plain(&i.to_string()));
    leaf.prop_recursive(4, 24, 4, |inner| {
        let key = prop_oneof![
            4 => prop::sample::select(vec!["1", "2", "3", "44", "55", "606"]).prop_map(Node::plain),
            1 => prop::sample::select(vec!["7", "8"]).prop_map(|k| Node::scalar(k, Style::Double)),
        ];
        prop_oneof![
            (any::<bool>(), prop::collection::vec(inner.clone(), 0..4)).prop_map(|(f, v)| Node::seq(f, v)),
            (any::<bool>(), prop::collection::vec((key, inner), 0..4)).prop_map(|(f, v)| {
                let mut out: Vec<(Node, Node)> = vec![];
                for (k, x) in v {
                    if !out.iter().any(|(k2, _)| gdoc::same_key(k2, &k)) {
                        out.push((k, x));
                    }
                }
                Node::map(f, out)
            }),
        ]
    })
}

fn nontrivial(c: &Case) -> bool {
    c.layout.mb_prefix || c.layout.breaks != 0 || c.layout.comments || c.doc.has_alias()
}

impl Property for C16 {
    const ID: &'static str = "C16";
    type Case = Case;
    fn rule() -> String {
        "cases = (document, layout, optional bad leaf). Documents from the node grammar (all scalar styles, multi-byte text, anchors and aliases to scalars and containers, block and flow) and integer-only trees; layouts with a multi-byte first line, LF / CRLF / lone-CR breaks, comments, document markers, indentation 2-4. (A) every reported Location (both sites of every node of a generic Spanned tree, and every error location) is consistent: 1-based, inside the input, line/column recomputed from the char offset agree, byte offset is the UTF-8 index of the char offset, byte length matches the char length. (B) right node: plain node => referenced = defined = the renderer's ground-truth position; value reached through an alias => referenced = the alias token, defined = the anchored node. (C) single-line scalars: the reported byte range is exactly the token the renderer wrote. (D) every scalar leaf in turn replaced by a non-integer and read into an all-integer typed tree: the type error is located at that leaf (directly, or as the definition site when the leaf is reached through an alias). Enum payloads (`!V 5`, `!T [5, 6]`, `{V: 5}`, `{T: [5, 6]}`) read directly and through an alias report the alias as use site. Alias-error grid: a value of the wrong type reached through an alias at 16 positions (plain value, sequence item, enum payloads, bytes, `<<: *a`, `<<: [*a]`, inside a merged mapping written in place, inside an in-place element of a merge sequence - alone, after another element, in a block sequence) x 4 values x leading lines x paddings reports the alias token as use site and the anchored node as definition site. Merge sub-check: merged values report the merge entry's value as use site and the originating scalar as definition site. Non-trivial: multi-byte prefix, CR/CRLF breaks, comments or aliases.".into()
    }
    fn assumptions() -> Vec<String> {
        vec![
            "below a mapping key and inside replayed (aliased) content `referenced` may be either the use site or the definition site (the property speaks of 'a value reached through an alias'); only `defined` is judged there".into(),
            "block scalars: only consistency (A) is judged (the parser reports the content, not the header)".into(),
        ]
    }
    fn check(c: &Case) -> Outcome {
        check_case(c)
    }
    fn signatures(c: &Case) -> Vec<&'static str> {
        // open finding (parser dependency): the span of a quoted scalar includes the blanks (and a
        // trailing comment) that follow it on the line
        let mut quoted = false;
        c.doc.visit(&mut |n| {
            if let Kind::Scalar { value, style } = &n.kind {
                if gdoc::effective_style(value, *style, true, false) != Style::Plain {
                    quoted = true;
                }
            }
        });
        // (this renderer puts a blank after a quoted scalar only in front of a trailing comment)
        let mut v = vec![];
        if quoted && c.layout.comments && c.bad_leaf.is_none() && (c.special == 0 || (50..100).contains(&c.special)) {
            v.push("quoted_scalar_span_trailing_blanks");
        }
        // open finding (parser dependency): a directive line with multi-byte text advances the
        // character index by bytes, so every later offset is too large
        if (50..100).contains(&c.special) && !DIRECTIVES[(c.special as usize - 50) % DIRECTIVES.len()].lines().filter(|l| l.starts_with('%')).all(|l| l.is_ascii()) {
            v.push("multibyte_directive_line");
        }
        v
    }
    fn shrink(c: &Case) -> Vec<Case> {
        let mut out = vec![];
        if c.layout != Layout::default() {
            out.push(Case { layout: Layout::default(), ..c.clone() });
            for f in 0..5 {
                let mut l = c.layout.clone();
                match f {
                    0 => l.mb_prefix = false,
                    1 => l.breaks = 0,
                    2 => l.comments = false,
                    3 => l.doc_start = false,
                    _ => l.force_flow = false,
                }
                if l != c.layout {
                    out.push(Case { layout: l, ..c.clone() });
                }
            }
        }
        if c.bad_leaf.is_none() {
            if let Kind::Seq { flow, items } = &c.doc.kind {
                for i in 0..items.len() {
                    let mut v = items.clone();
                    v.remove(i);
                    out.push(Case { doc: Node { anchor: None, tag: None, kind: Kind::Seq { flow: *flow, items: v } }, ..c.clone() });
                }
            }
            if let Kind::Map { flow, entries } = &c.doc.kind {
                for i in 0..entries.len() {
                    let mut v = entries.clone();
                    v.remove(i);
                    out.push(Case { doc: Node { anchor: None, tag: None, kind: Kind::Map { flow: *flow, entries: v } }, ..c.clone() });
                }
            }
        }
        out
    }
    /// libFuzzer input: layout bits, kind (spanned tree / stray token), anchor percentages,
    /// decoration script, tree
    fn fuzz_decode(data: &[u8]) -> Option<(&'static str, Case, bool)> {
        let mut b = engine::Bytes::new(data);
        let lb = b.u16() as u32;
        let stray = b.below(3) == 0;
        let (a, al) = b.pick(&[(0u16, 0u16), (25, 25), (35, 30)]);
        let pos = b.u16();
        let tok = b.below(10) as u8;
        let script = gdoc::script_from_bytes(&mut b, 24);
        let t = gdoc::tree_from_bytes(&mut b, if stray { 3 } else { 4 });
        let c = if stray {
            Case { doc: gdoc::decorate(&t, &script, 20, 20, 0), layout: Layout::from_bits(lb), bad_leaf: Some(pos as usize), special: 100 + tok, alias_err: 0 }
        } else {
            Case { doc: gdoc::decorate(&t, &script, a, al, 0), layout: Layout::from_bits(lb), bad_leaf: None, special: 0, alias_err: 0 }
        };
        let nt = nontrivial(&c);
        Some((if stray { "fuzz-syntax-error-locations" } else { "fuzz-spanned-tree" }, c, nt))
    }
    fn generate(ctx: &mut Ctx<Self>) {
        // (1) generic span tree over decorated documents
        let strat = (gdoc::arb_tree(4, 24), prop::collection::vec(any::<u16>(), 8..40), prop::sample::select(vec![(0u16, 0u16), (25, 25), (35, 30)]), 0u32..(1 << 12))
            .prop_map(|(t, s, (a, al), lb)| Case { doc: gdoc::decorate(&t, &s, a, al, 0), layout: Layout::from_bits(lb), bad_leaf: None, special: 0, alias_err: 0 });
        ctx.run_strategy("spanned-tree", 1, ctx.tier.pick(60_000, 800_000), &strat, nontrivial);
        // (1b) syntax errors: a stray token at a random position
        let strat = (gdoc::arb_tree(3, 16), prop::collection::vec(any::<u16>(), 8..24), 0u32..(1 << 12), any::<u16>(), 0u8..10).prop_map(|(t, s, lb, pos, tok)| Case {
            doc: gdoc::decorate(&t, &s, 20, 20, 0),
            layout: Layout::from_bits(lb),
            bad_leaf: Some(pos as usize),
            special: 100 + tok,
            alias_err: 0,
        });
        ctx.run_strategy("syntax-error-locations", 3, ctx.tier.pick(40_000, 500_000), &strat, |c| c.layout.mb_prefix || c.layout.comments);
        // (1c) directive lines in front of the document
        let strat = (gdoc::arb_tree(3, 16), prop::collection::vec(any::<u16>(), 8..24), 0u32..(1 << 12), 0u8..6).prop_map(|(t, s, lb, d)| Case {
            doc: gdoc::decorate(&t, &s, 20, 20, 0),
            layout: Layout::from_bits(lb),
            bad_leaf: None,
            special: 50 + d,
            alias_err: 0,
        });
        ctx.run_strategy("directive-prefix", 4, ctx.tier.pick(20_000, 200_000), &strat, |_| true);
        // (2) integer trees: spanned + every leaf in turn as a type error
        let strat = (arb_int_tree(), prop::collection::vec(any::<u16>(), 8..40), prop::sample::select(vec![(0u16, 0u16), (25, 25)]), 0u32..(1 << 12), any::<u16>()).prop_map(|(t, s, (a, al), lb, pick)| {
            let doc = gdoc::decorate(&t, &s, a, al, 0);
            let leaves = scalar_leaves(&doc);
            if leaves.is_empty() || pick % 4 == 0 {
                return Case { doc, layout: Layout::from_bits(lb), bad_leaf: None, special: 0, alias_err: 0 };
            }
            let leaf = leaves[(pick as usize * leaves.len()) >> 16];
            // replace that leaf by a non-integer
            let mut d2 = doc.clone();
            let mut i = 0;
            d2.visit_mut(&mut |n| {
                if i == leaf {
                    if let Kind::Scalar { value, .. } = &mut n.kind {
                        *value = "zz".into();
                    }
                }
                i += 1;
            });
            Case { doc: d2, layout: Layout::from_bits(lb), bad_leaf: Some(leaf), special: 0, alias_err: 0 }
        });
        ctx.run_strategy("typed-int-tree", 2, ctx.tier.pick(60_000, 800_000), &strat, |c| c.bad_leaf.is_some());
        // every leaf of a fixed set of documents, exhaustively
        let fixed = vec![
            Node::seq(false, vec![Node::plain("1"), Node::map(false, vec![(Node::plain("2"), Node::seq(true, vec![Node::plain("3"), Node::plain("4")])), (Node::plain("5"), Node::plain("6"))]), Node::plain("7")]),
            Node::map(false, vec![(Node::plain("1"), Node::seq(false, vec![Node::plain("2"), Node::plain("3")]).anchored("a")), (Node::plain("4"), Node::alias("a")), (Node::plain("5"), Node::seq(true, vec![Node::alias("a"), Node::plain("6")]))]),
            Node::map(true, vec![(Node::plain("1"), Node::plain("2").anchored("s")), (Node::plain("3"), Node::alias("s")), (Node::plain("4"), Node::map(true, vec![(Node::plain("5"), Node::alias("s"))]))]),
        ];
        let mut idx = 0u64;
        let mut total = 0u64;
        for d in &fixed {
            for lb in 0..(1u32 << 12) {
                if lb % 7 != 0 {
                    continue;
                }
                for leaf in scalar_leaves(d).into_iter().map(Some).chain([None]) {
                    idx += 1;
                    total += 1;
                    if !ctx.mine(idx) {
                        continue;
                    }
                    let mut d2 = d.clone();
                    if let Some(l) = leaf {
                        let mut i = 0;
                        d2.visit_mut(&mut |n| {
                            if i == l {
                                if let Kind::Scalar { value, .. } = &mut n.kind {
                                    *value = "zz".into();
                                }
                            }
                            i += 1;
                        });
                    }
                    let c = Case { doc: d2, layout: Layout::from_bits(lb), bad_leaf: leaf, special: 0, alias_err: 0 };
                    let nt = nontrivial(&c);
                    ctx.case("fixed-docs-every-leaf", &c, nt);
                }
            }
        }
        ctx.subspace("3 fixed documents x every scalar leaf (or none) x 586 layouts", total, true);
        if ctx.worker == 0 {
            for n in 30..30 + MERGE_STATIC.len() as u8 {
                let c = Case { doc: Node::plain("merge-static"), layout: Layout::default(), bad_leaf: None, special: n, alias_err: 0 };
                ctx.case("merged-key-static-errors", &c, true);
            }
            for n in 1..=MERGE_DOCS.len() as u8 {
                let c = Case { doc: Node::plain("merge"), layout: Layout::default(), bad_leaf: None, special: n, alias_err: 0 };
                ctx.case("merge-locations", &c, true);
            }
            // 4 payload forms x sequence item / mapping value x 0-2 leading lines x 3 paddings
            for n in 0..AE_GRID as u16 {
                let c = Case { doc: Node::plain("alias-error"), layout: Layout::default(), bad_leaf: None, special: 0, alias_err: n + 1 };
                ctx.case("alias-error-sites", &c, true);
            }
            for n in 0..56u8 {
                let c = Case { doc: Node::plain("enum-payload"), layout: Layout::default(), bad_leaf: None, special: 200 + n, alias_err: 0 };
                ctx.case("enum-payload-locations", &c, true);
            }
        }
    }
}

fn main() {
    engine::main::<C16>()
}

/// entry point of the libFuzzer target `fuzz/fuzz_targets/c16.rs`
#[allow(dead_code)]
pub fn fuzz(data: &[u8]) {
    engine::fuzz_one::<C16>(data)
}
