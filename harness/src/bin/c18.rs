//! C18 – validating entry points agree with the plain ones and locate every failed field.
//!
//! A case is a *description* of one or several documents for the fixed type family below; the
//! harness renders the YAML text itself (pure function of the case) and records the 1-based
//! line/column of every value token, so that the positions reported by the library can be compared
//! with ground truth. See `/verif/notes/report-C18.md`.
use proptest::prelude::*;
use serde::{Deserialize, Serialize};
use serde_saphyr::localizer::Localizer;
use serde_saphyr::{Error, Location, Options, SnippetMode};
use std::borrow::Cow;
use std::cell::RefCell;
use std::collections::{BTreeMap, BTreeSet};
use validator::Validate;
use vcheck::engine::{self, Ctx, Outcome, Property};

// ------------------------------------------------------------------------------------------
// the validated type family (both validation crates on the same types)

/// anything at all (the pool of anchored definitions lives under this field)
#[derive(Debug, Clone, PartialEq, Default)]
struct Ignored;
impl<'de> Deserialize<'de> for Ignored {
    fn deserialize<D: serde::Deserializer<'de>>(d: D) -> Result<Self, D::Error> {
        serde::de::IgnoredAny::deserialize(d).map(|_| Ignored)
    }
}

#[derive(Debug, Clone, PartialEq, Deserialize, garde::Validate, Validate)]
#[serde(rename_all = "camelCase")]
struct Root {
    #[serde(default)]
    #[garde(skip)]
    defs: Ignored,
    #[garde(length(chars, min = 2, max = 6))]
    #[validate(length(min = 2, max = 6))]
    short_name: String,
    #[garde(dive)]
    #[validate(nested)]
    net_cfg: Net,
    #[garde(range(min = 1, max = 100))]
    #[validate(range(min = 1, max = 100))]
    max_count: i64,
    #[garde(dive)]
    #[validate(nested)]
    items: Vec<Item>,
    #[garde(length(chars, max = 3))]
    #[validate(length(max = 3))]
    r#type: String,
    #[garde(dive)]
    #[validate(nested)]
    by_name: BTreeMap<String, Item>,
    #[garde(range(max = 9))]
    #[validate(range(max = 9))]
    ab_c: i64,
    #[garde(range(min = -3))]
    #[validate(range(min = -3))]
    a_bc: i64,
}

#[derive(Debug, Clone, PartialEq, Deserialize, garde::Validate, Validate)]
#[serde(rename_all = "kebab-case")]
struct Net {
    #[garde(length(chars, min = 1, max = 8))]
    #[validate(length(min = 1, max = 8))]
    host_name: String,
    #[garde(range(min = 1, max = 65535))]
    #[validate(range(min = 1, max = 65535))]
    port_no: i64,
    #[serde(default)]
    #[garde(dive)]
    #[validate(nested)]
    back_ups: Vec<Item>,
}

#[derive(Debug, Clone, PartialEq, Deserialize, garde::Validate, Validate)]
struct Item {
    #[garde(length(chars, min = 1, max = 4))]
    #[validate(length(min = 1, max = 4))]
    label: String,
    #[garde(range(min = 0, max = 10))]
    #[validate(range(min = 0, max = 10))]
    weight: i64,
    /// per-element constraint: garde only (validator has no per-element rule for Vec<String>)
    #[serde(default)]
    #[garde(inner(length(chars, max = 3)))]
    tags: Vec<String>,
}

// constraint table used by the harness' own evaluator (kept in step with the attributes above;
// `selfcheck` and every `check` compare the evaluator with the crates' own `validate()`)
const SHORT_NAME: (usize, usize) = (2, 6);
const TYPE_: (usize, usize) = (0, 3);
const HOST_NAME: (usize, usize) = (1, 8);
const LABEL: (usize, usize) = (1, 4);
const TAG: (usize, usize) = (0, 3);
const MAX_COUNT: (i64, i64) = (1, 100);
const AB_C: (i64, i64) = (i64::MIN, 9);
const A_BC: (i64, i64) = (-3, i64::MAX);
const PORT_NO: (i64, i64) = (1, 65535);
const WEIGHT: (i64, i64) = (0, 10);

fn sbad(s: &str, c: (usize, usize)) -> bool {
    let n = s.chars().count();
    n < c.0 || n > c.1
}
fn nbad(v: i64, c: (i64, i64)) -> bool {
    v < c.0 || v > c.1
}

#[derive(Clone, Copy, Debug, Serialize, Deserialize, PartialEq, Eq, PartialOrd, Ord)]
enum Krate {
    Garde,
    Validator,
}

/// Violated paths in the validation crate's own path syntax with Rust field names
/// (`net_cfg.back_ups[1].weight`; map entries: garde `by_name.<key>.label`, validator
/// `by_name[<iteration index>].label`).
fn violations(r: &Root, k: Krate) -> BTreeSet<String> {
    let mut out = BTreeSet::new();
    let mut add = |bad: bool, p: String| {
        if bad {
            out.insert(p);
        }
    };
    add(sbad(&r.short_name, SHORT_NAME), "short_name".into());
    add(nbad(r.max_count, MAX_COUNT), "max_count".into());
    add(sbad(&r.r#type, TYPE_), "r#type".into());
    add(nbad(r.ab_c, AB_C), "ab_c".into());
    add(nbad(r.a_bc, A_BC), "a_bc".into());
    add(sbad(&r.net_cfg.host_name, HOST_NAME), "net_cfg.host_name".into());
    add(nbad(r.net_cfg.port_no, PORT_NO), "net_cfg.port_no".into());
    let mut item = |it: &Item, pre: String| {
        add(sbad(&it.label, LABEL), format!("{pre}.label"));
        add(nbad(it.weight, WEIGHT), format!("{pre}.weight"));
        if k == Krate::Garde {
            for (j, t) in it.tags.iter().enumerate() {
                add(sbad(t, TAG), format!("{pre}.tags[{j}]"));
            }
        }
    };
    for (i, it) in r.net_cfg.back_ups.iter().enumerate() {
        item(it, format!("net_cfg.back_ups[{i}]"));
    }
    for (i, it) in r.items.iter().enumerate() {
        item(it, format!("items[{i}]"));
    }
    for (i, (key, it)) in r.by_name.iter().enumerate() {
        match k {
            Krate::Garde => item(it, format!("by_name.{key}")),
            Krate::Validator => item(it, format!("by_name[{i}]")),
        }
    }
    out
}

/// the crate's own verdict on a value, as a set of path strings in the same syntax
fn crate_violations(r: &Root, k: Krate) -> BTreeSet<String> {
    let mut out = BTreeSet::new();
    match k {
        Krate::Garde => {
            if let Err(rep) = garde::Validate::validate(r) {
                for (p, _) in rep.iter() {
                    out.insert(p.to_string());
                }
            }
        }
        Krate::Validator => {
            fn walk(e: &validator::ValidationErrors, pre: &str, out: &mut BTreeSet<String>) {
                for (f, kind) in e.errors() {
                    let p = if pre.is_empty() { f.to_string() } else { format!("{pre}.{f}") };
                    match kind {
                        validator::ValidationErrorsKind::Field(_) => {
                            out.insert(p);
                        }
                        validator::ValidationErrorsKind::Struct(inner) => walk(inner, &p, out),
                        validator::ValidationErrorsKind::List(l) => {
                            for (i, inner) in l {
                                walk(inner, &format!("{p}[{i}]"), out);
                            }
                        }
                    }
                }
            }
            if let Err(e) = Validate::validate(r) {
                walk(&e, "", &mut out);
            }
        }
    }
    out
}

/// validator names a raw-identifier field without the `r#` prefix, garde with it
fn strip_raw(p: &str) -> String {
    p.replace("r#", "")
}

// ------------------------------------------------------------------------------------------
// case description

/// how a leaf value is supplied
#[derive(Clone, Debug, Serialize, Deserialize, PartialEq, Eq)]
enum How {
    /// the scalar is written at the use site
    Direct,
    /// written at the use site and carrying an (unused) anchor
    Anchored,
    /// `*sN`: alias to a scalar anchored earlier in the `defs` pool
    Alias,
    /// comes out of `<<: *bN` (base mapping anchored in the pool)
    Merge,
    /// present in the merged base with another value *and* written explicitly (explicit wins)
    MergeOver,
    /// comes out of `<<: *bN` where the base entry itself is an alias `*sN`
    MergeAlias,
    /// comes out of a merged mapping written in place (`<<: {key: value}`, or as the last
    /// element of `<<: [*bN, {key: value}]`): no anchor is involved, the value is used where it
    /// is written
    MergeInline,
    /// an alias `*sN` written inside a merged mapping that stands in place (`<<: {key: *sN}`):
    /// used at the alias, defined at the anchored scalar
    MergeInlineAlias,
}

#[derive(Clone, Debug, Serialize, Deserialize, PartialEq)]
struct SLeaf {
    v: String,
    /// 0 plain (when safe), 1 single-quoted, 2 double-quoted
    sty: u8,
    how: How,
    /// trailing comment after the token (block context only)
    cmt: bool,
}
#[derive(Clone, Debug, Serialize, Deserialize, PartialEq)]
struct NLeaf {
    v: i64,
    how: How,
    cmt: bool,
}

#[derive(Clone, Debug, Serialize, Deserialize, PartialEq)]
struct ItemD {
    label: SLeaf,
    weight: NLeaf,
    tags: Vec<SLeaf>,
    flow: bool,
    tags_flow: bool,
    /// the whole mapping is anchored in the pool and used here as `*iN`
    whole: bool,
    /// position of the `<<` entry among the explicit entries
    merge_at: u8,
}
#[derive(Clone, Debug, Serialize, Deserialize, PartialEq)]
struct NetD {
    host_name: SLeaf,
    port_no: NLeaf,
    back_ups: Vec<ItemD>,
    flow: bool,
    seq_flow: bool,
    merge_at: u8,
}
#[derive(Clone, Debug, Serialize, Deserialize, PartialEq)]
struct DocD {
    short_name: SLeaf,
    max_count: NLeaf,
    ty: SLeaf,
    ab_c: NLeaf,
    a_bc: NLeaf,
    net: NetD,
    items: Vec<ItemD>,
    items_flow: bool,
    by_name: Vec<(String, ItemD)>,
    map_flow: bool,
    defs_flow: bool,
    merge_at: u8,
    /// rotation of the root's field order (after `defs`)
    rot: u8,
    /// `---` before the document (always written for documents after the first)
    start_marker: bool,
    /// `...` after the document
    end_marker: bool,
    /// number of comment lines before the first key
    lead: u8,
}
#[derive(Clone, Debug, Serialize, Deserialize, PartialEq)]
struct Layout {
    crlf: bool,
    /// indentation step 2 or 4
    step: u8,
    /// block sequences under a key are indented (true) or start at the key's column
    seq_indent: bool,
    /// a full-line comment before every n-th block entry (0 = none)
    cmt_every: u8,
    /// blank line before the root's entries
    blank: bool,
}
#[derive(Clone, Copy, Debug, Serialize, Deserialize, PartialEq, Eq, PartialOrd, Ord)]
enum Ep {
    Str,
    StrOpt,
    Slice,
    Reader,
    Multiple,
    SliceMultipleOpt,
    Read,
}
const EPS: [Ep; 7] = [Ep::Str, Ep::StrOpt, Ep::Slice, Ep::Reader, Ep::Multiple, Ep::SliceMultipleOpt, Ep::Read];
impl Ep {
    fn stream(self) -> bool {
        matches!(self, Ep::Multiple | Ep::SliceMultipleOpt | Ep::Read)
    }
    fn reader(self) -> bool {
        matches!(self, Ep::Reader | Ep::Read)
    }
    fn with_options(self) -> bool {
        matches!(self, Ep::StrOpt | Ep::SliceMultipleOpt)
    }
}
/// options for the `*_with_options_*` entry points
#[derive(Clone, Copy, Debug, Serialize, Deserialize, PartialEq, Eq)]
enum OptV {
    Default,
    NoSnippet,
    Crop8,
    Crop0,
}
impl OptV {
    fn build(self) -> Options {
        let mut o = Options::default();
        match self {
            OptV::Default => {}
            OptV::NoSnippet => o.with_snippet = false,
            OptV::Crop8 => o.crop_radius = 8,
            OptV::Crop0 => o.crop_radius = 0,
        }
        o
    }
    fn snippets(self) -> bool {
        matches!(self, OptV::Default | OptV::Crop8)
    }
}
#[derive(Clone, Debug, Serialize, Deserialize, PartialEq)]
struct Case {
    krate: Krate,
    ep: Ep,
    opt: OptV,
    layout: Layout,
    docs: Vec<DocD>,
    /// also demand that every located issue of a string entry point is rendered with its snippet
    /// (false: only the locations are checked; lets the search continue behind the open finding
    /// about snippet regions without excluding every multi-violation case)
    #[serde(default = "yes")]
    strict: bool,
    /// > 0: not a document case but the long-stream comparison - a stream of that many MiB of
    /// small valid documents read through `read` and through the validating iterator of `krate`
    /// (they must yield the same items: `read` has no cap on the total input size)
    #[serde(default)]
    long_mib: u32,
    /// > 0: not a document case but a document whose root is a sequence of small structs
    /// (code = violated item, leading comment lines, entry point)
    #[serde(default)]
    root_seq: u16,
}
fn yes() -> bool {
    true
}

// ------------------------------------------------------------------------------------------
// normalisation of a case (replay files may hold anything; the generator output is already normal)

fn norm_tag_how(h: &How) -> How {
    match h {
        How::Direct | How::Anchored | How::Alias => h.clone(),
        _ => How::Direct,
    }
}
fn norm_s(l: &mut SLeaf) {
    // an anchored / aliased / merged empty string is outside this property (C02 finding: an
    // anchored empty quoted scalar replays as null) – the empty string is only written directly
    if l.v.is_empty() {
        l.how = How::Direct;
    }
    if l.v.chars().count() > 40 {
        l.v = l.v.chars().take(40).collect();
    }
    l.sty %= 3;
}
fn norm_item(it: &mut ItemD) {
    norm_s(&mut it.label);
    it.tags.truncate(4);
    for t in it.tags.iter_mut() {
        t.how = norm_tag_how(&t.how);
        norm_s(t);
    }
    if it.whole && (it.label.v.is_empty() || it.tags.iter().any(|t| t.v.is_empty())) {
        it.whole = false;
    }
}
fn norm(c: &Case) -> Case {
    let mut c = c.clone();
    if c.docs.is_empty() {
        c.docs.push(base_doc());
    }
    c.docs.truncate(if c.ep.stream() { 4 } else { 1 });
    if !c.ep.with_options() {
        c.opt = OptV::Default;
    }
    c.layout.step = if c.layout.step == 4 { 4 } else { 2 };
    c.layout.cmt_every %= 6;
    for d in c.docs.iter_mut() {
        norm_s(&mut d.short_name);
        norm_s(&mut d.ty);
        norm_s(&mut d.net.host_name);
        d.net.back_ups.truncate(3);
        d.items.truncate(5);
        d.by_name.truncate(5);
        d.lead %= 4;
        for it in d.net.back_ups.iter_mut().chain(d.items.iter_mut()) {
            norm_item(it);
        }
        let mut seen = BTreeSet::new();
        let mut keep = vec![];
        for (k, mut it) in std::mem::take(&mut d.by_name) {
            let k = if k.is_empty() || k == "<<" || k.chars().count() > 20 { "k".to_string() } else { k };
            if seen.insert(k.clone()) {
                norm_item(&mut it);
                keep.push((k, it));
            }
        }
        d.by_name = keep;
    }
    c
}

// ------------------------------------------------------------------------------------------
// YAML rendering with ground-truth positions

#[derive(Clone, Copy, Debug, PartialEq, Eq, PartialOrd, Ord)]
struct Pos {
    line: u64,
    col: u64,
}
impl std::fmt::Display for Pos {
    fn fmt(&self, f: &mut std::fmt::Formatter<'_>) -> std::fmt::Result {
        write!(f, "{}:{}", self.line, self.col)
    }
}

enum N {
    Sc { tok: String, anchor: Option<String>, mark: Option<usize>, cmt: bool },
    Al { name: String, mark: Option<usize>, cmt: bool },
    Map { ents: Vec<(String, N)>, anchor: Option<String>, flow: bool },
    Seq { items: Vec<N>, anchor: Option<String>, flow: bool },
}

fn has_alias(n: &N) -> bool {
    match n {
        N::Sc { .. } => false,
        N::Al { .. } => true,
        N::Map { ents, .. } => ents.iter().any(|(_, v)| has_alias(v)),
        N::Seq { items, .. } => items.iter().any(has_alias),
    }
}

const RESERVED: [&str; 14] = ["null", "true", "false", "yes", "no", "on", "off", "y", "n", "nan", "inf", "~", "-", "<<"];
fn plain_safe(v: &str) -> bool {
    if v.is_empty() || v.starts_with(' ') || v.ends_with(' ') {
        return false;
    }
    if RESERVED.contains(&v.to_ascii_lowercase().as_str()) {
        return false;
    }
    let first = v.chars().next().unwrap();
    if !(first.is_alphanumeric() || first as u32 >= 0x1F300) {
        return false;
    }
    v.chars().all(|ch| ch.is_alphanumeric() || ch == ' ' || ch == '_' || ch == '-' || ch as u32 >= 0x1F300)
        && !v.contains("  ")
        && !v.contains(" -")
}
fn dq(v: &str) -> String {
    let mut s = String::from("\"");
    for ch in v.chars() {
        match ch {
            '"' => s.push_str("\\\""),
            '\\' => s.push_str("\\\\"),
            '\n' => s.push_str("\\n"),
            '\r' => s.push_str("\\r"),
            '\t' => s.push_str("\\t"),
            c if (c as u32) < 0x20 || c as u32 == 0x7f => s.push_str(&format!("\\x{:02x}", c as u32)),
            c if (0x80..0xa0).contains(&(c as u32)) || c == '\u{2028}' || c == '\u{2029}' || c == '\u{feff}' => {
                s.push_str(&format!("\\u{:04x}", c as u32))
            }
            c => s.push(c),
        }
    }
    s.push('"');
    s
}
fn sq_ok(v: &str) -> bool {
    !v.contains('\'') && v.chars().all(|c| (c as u32) >= 0x20 && c as u32 != 0x7f && !(0x80..0xa0).contains(&(c as u32)) && c != '\u{2028}' && c != '\u{2029}' && c != '\u{feff}')
}
fn str_tok(v: &str, sty: u8) -> String {
    match sty % 3 {
        0 if plain_safe(v) => v.to_string(),
        1 if sq_ok(v) => format!("'{v}'"),
        _ => dq(v),
    }
}
fn key_tok(k: &str) -> String {
    if k == "<<" || plain_safe(k) { k.to_string() } else { dq(k) }
}

struct W<'a> {
    out: String,
    line: u64,
    col: u64,
    lay: &'a Layout,
    marks: Vec<Option<Pos>>,
    ent: u32,
}
impl<'a> W<'a> {
    fn put(&mut self, s: &str) {
        self.out.push_str(s);
        self.col += s.chars().count() as u64;
    }
    fn nl(&mut self) {
        self.out.push_str(if self.lay.crlf { "\r\n" } else { "\n" });
        self.line += 1;
        self.col = 1;
    }
    fn sp(&mut self, n: usize) {
        for _ in 0..n {
            self.put(" ");
        }
    }
    fn mark(&mut self, m: &Option<usize>) {
        if let Some(m) = m {
            if self.marks.len() <= *m {
                self.marks.resize(*m + 1, None);
            }
            self.marks[*m] = Some(Pos { line: self.line, col: self.col });
        }
    }
    fn comment_line(&mut self, indent: usize) {
        self.sp(indent);
        self.put("# заметка 日本 😀 note");
        self.nl();
    }
    fn maybe_comment(&mut self, indent: usize) {
        self.ent += 1;
        if self.lay.cmt_every > 0 && self.ent % self.lay.cmt_every as u32 == 0 {
            self.comment_line(indent);
        }
    }
    fn is_flow(n: &N) -> bool {
        match n {
            N::Map { ents, flow, .. } => *flow || ents.is_empty(),
            N::Seq { items, flow, .. } => *flow || items.is_empty(),
            _ => true,
        }
    }
    fn flow(&mut self, n: &N) {
        match n {
            N::Sc { tok, anchor, mark, .. } => {
                if let Some(a) = anchor {
                    self.put(&format!("&{a} "));
                }
                self.mark(mark);
                self.put(tok);
            }
            N::Al { name, mark, .. } => {
                self.mark(mark);
                self.put(&format!("*{name}"));
            }
            N::Map { ents, anchor, .. } => {
                if let Some(a) = anchor {
                    self.put(&format!("&{a} "));
                }
                self.put("{");
                for (i, (k, v)) in ents.iter().enumerate() {
                    if i > 0 {
                        self.put(", ");
                    }
                    self.put(&key_tok(k));
                    self.put(": ");
                    self.flow(v);
                    if matches!(v, N::Al { .. }) {
                        self.put(" ");
                    }
                }
                self.put("}");
            }
            N::Seq { items, anchor, .. } => {
                if let Some(a) = anchor {
                    self.put(&format!("&{a} "));
                }
                self.put("[");
                for (i, v) in items.iter().enumerate() {
                    if i > 0 {
                        self.put(", ");
                    }
                    self.flow(v);
                    if matches!(v, N::Al { .. }) {
                        self.put(" ");
                    }
                }
                self.put("]");
            }
        }
    }
    /// the value after `key:` or `-` (cursor right behind the indicator)
    fn value(&mut self, v: &N, indent: usize) {
        let step = self.lay.step as usize;
        match v {
            N::Sc { cmt, .. } | N::Al { cmt, .. } => {
                self.put(" ");
                self.flow(v);
                if *cmt {
                    self.put("  # é note");
                }
                self.nl();
            }
            _ if Self::is_flow(v) => {
                self.put(" ");
                self.flow(v);
                self.nl();
            }
            N::Map { ents, anchor, .. } => {
                if let Some(a) = anchor {
                    self.put(&format!(" &{a}"));
                }
                self.nl();
                self.block_map(ents, indent + step, false, false);
            }
            N::Seq { items, anchor, .. } => {
                if let Some(a) = anchor {
                    self.put(&format!(" &{a}"));
                }
                self.nl();
                let ind = if self.lay.seq_indent { indent + step } else { indent };
                self.block_seq(items, ind);
            }
        }
    }
    fn block_map(&mut self, ents: &[(String, N)], indent: usize, first_inline: bool, blank: bool) {
        for (i, (k, v)) in ents.iter().enumerate() {
            if !(first_inline && i == 0) {
                if blank {
                    self.nl();
                }
                self.maybe_comment(indent);
                self.sp(indent);
            }
            self.put(&key_tok(k));
            self.put(":");
            self.value(v, indent);
        }
    }
    fn block_seq(&mut self, items: &[N], indent: usize) {
        for it in items {
            self.maybe_comment(indent);
            self.sp(indent);
            self.put("-");
            match it {
                N::Map { ents, anchor: None, .. } if !Self::is_flow(it) => {
                    self.put(" ");
                    self.block_map(ents, indent + 2, true, false);
                }
                _ => self.value(it, indent + 2),
            }
        }
    }
}

#[derive(Clone, Copy, Debug, PartialEq, Eq)]
enum Via {
    Direct,
    Alias,
    Merge,
    Whole,
}

struct TruthB {
    gpath: String,
    vpath: String,
    /// YAML spelling of the leaf key (None: the leaf is a sequence index)
    yleaf: Option<String>,
    rust_leaf: String,
    refm: Vec<usize>,
    defm: Vec<usize>,
    via: Via,
    over: bool,
    renamed: bool,
    seq_idx: bool,
    map_key: bool,
    /// the documentation of path_map.rs itself calls the lookup ambiguous here
    amb: bool,
    /// sibling map keys differ only in non-ASCII characters
    amb_na: bool,
    garde_only: bool,
}
#[derive(Clone, Debug)]
struct Truth {
    gpath: String,
    vpath: String,
    yleaf: Option<String>,
    rust_leaf: String,
    ref_ok: Vec<Pos>,
    def_ok: Vec<Pos>,
    via: Via,
    over: bool,
    renamed: bool,
    seq_idx: bool,
    map_key: bool,
    amb: bool,
    amb_na: bool,
    garde_only: bool,
}

#[derive(Clone, Copy, Default)]
struct Flags {
    renamed: bool,
    seq_idx: bool,
    map_key: bool,
    amb: bool,
    amb_na: bool,
}

enum F<'a> {
    S(&'a SLeaf, &'static str, &'static str),
    I(&'a NLeaf, &'static str, &'static str),
    Node(&'static str, N),
}

#[derive(Default)]
struct Bld {
    nmarks: usize,
    pool_s: Vec<(String, N)>,
    pool_b: Vec<(String, N)>,
    pool_i: Vec<(String, N)>,
    nu: usize,
    truths: Vec<TruthB>,
    defs_flow: bool,
}
impl Bld {
    fn m(&mut self) -> usize {
        self.nmarks += 1;
        self.nmarks - 1
    }
    fn pool_scalar(&mut self, tok: String) -> (String, usize) {
        let name = format!("s{}", self.pool_s.len());
        let d = self.m();
        self.pool_s.push((name.clone(), N::Sc { tok, anchor: Some(name.clone()), mark: Some(d), cmt: false }));
        (name, d)
    }
    #[allow(clippy::too_many_arguments)]
    fn build_struct(&mut self, fields: Vec<F>, gpre: &str, vpre: &str, flow: bool, merge_at: u8, fl: Flags, whole: Option<usize>) -> N {
        let mut explicit: Vec<(String, N)> = vec![];
        let mut base: Vec<(String, N)> = vec![];
        let mut inl: Vec<(String, N)> = vec![];
        let mut mm: Option<usize> = None;
        let join = |pre: &str, leaf: &str| if pre.is_empty() { leaf.to_string() } else { format!("{pre}.{leaf}") };
        for f in fields {
            let (tok, alt, how, cmt, rust, yaml) = match f {
                F::Node(y, n) => {
                    explicit.push((y.to_string(), n));
                    continue;
                }
                F::S(l, r, y) => (str_tok(&l.v, l.sty), str_tok("zzzzzzzzzz", l.sty), l.how.clone(), l.cmt, r, y),
                F::I(l, r, y) => (l.v.to_string(), "100000".to_string(), l.how.clone(), l.cmt, r, y),
            };
            let mut t = TruthB {
                gpath: join(gpre, rust),
                vpath: join(vpre, rust),
                yleaf: Some(yaml.to_string()),
                rust_leaf: rust.to_string(),
                refm: vec![],
                defm: vec![],
                via: Via::Direct,
                over: false,
                renamed: fl.renamed || strip_raw(rust) != yaml,
                seq_idx: fl.seq_idx,
                map_key: fl.map_key,
                amb: fl.amb,
                amb_na: fl.amb_na,
                garde_only: false,
            };
            match how {
                How::Direct | How::Anchored | How::MergeOver => {
                    let m = self.m();
                    let anchor = if how == How::Anchored {
                        self.nu += 1;
                        Some(format!("u{}", self.nu))
                    } else {
                        None
                    };
                    if how == How::MergeOver {
                        base.push((yaml.to_string(), N::Sc { tok: alt, anchor: None, mark: None, cmt: false }));
                        t.over = true;
                    }
                    explicit.push((yaml.to_string(), N::Sc { tok, anchor, mark: Some(m), cmt }));
                    t.refm = vec![m];
                    t.defm = vec![m];
                }
                How::Alias => {
                    let (name, d) = self.pool_scalar(tok);
                    let m = self.m();
                    explicit.push((yaml.to_string(), N::Al { name, mark: Some(m), cmt }));
                    t.refm = vec![m];
                    t.defm = vec![d];
                    t.via = Via::Alias;
                }
                How::Merge => {
                    let d = self.m();
                    let mmv = *mm.get_or_insert_with(|| self.m());
                    base.push((yaml.to_string(), N::Sc { tok, anchor: None, mark: Some(d), cmt: false }));
                    t.refm = vec![mmv, d];
                    t.defm = vec![d];
                    t.via = Via::Merge;
                }
                How::MergeInline => {
                    let m = self.m();
                    inl.push((yaml.to_string(), N::Sc { tok, anchor: None, mark: Some(m), cmt: false }));
                    t.refm = vec![m];
                    t.defm = vec![m];
                    t.via = Via::Merge;
                }
                How::MergeInlineAlias => {
                    let (name, d) = self.pool_scalar(tok);
                    let a = self.m();
                    inl.push((yaml.to_string(), N::Al { name, mark: Some(a), cmt: false }));
                    t.refm = vec![a];
                    t.defm = vec![d];
                    t.via = Via::Alias;
                }
                How::MergeAlias => {
                    let (name, d) = self.pool_scalar(tok);
                    let a = self.m();
                    let mmv = *mm.get_or_insert_with(|| self.m());
                    base.push((yaml.to_string(), N::Al { name, mark: Some(a), cmt: false }));
                    t.refm = vec![mmv, a, d];
                    t.defm = vec![d];
                    t.via = Via::Merge;
                }
            }
            if let Some(w) = whole {
                t.refm.insert(0, w);
                if t.via == Via::Direct {
                    t.via = Via::Whole;
                }
            }
            self.truths.push(t);
        }
        if !inl.is_empty() && merge_at % 2 == 1 && (base.is_empty() || flow) {
            // containers, too, can be supplied by the mapping written in place: the nodes inside
            // them are used where they are written
            let mut keep = vec![];
            for (k, n) in std::mem::take(&mut explicit) {
                // (not containers with an alias inside: a container supplied this way is buffered
                // with its aliases expanded, the alias tokens inside it are not recorded - their
                // use site is lost, an observed limitation listed in DESIGN.md 9.3)
                if matches!(n, N::Map { .. } | N::Seq { .. }) && k != "<<" && !has_alias(&n) {
                    inl.push((k, n));
                } else {
                    keep.push((k, n));
                }
            }
            explicit = keep;
        }
        if !base.is_empty() {
            let name = format!("b{}", self.pool_b.len());
            self.pool_b.push((name.clone(), N::Map { ents: base, anchor: Some(name.clone()), flow: flow || self.defs_flow }));
            let at = merge_at as usize % (explicit.len() + 1);
            let al = N::Al { name, mark: mm, cmt: false };
            if inl.is_empty() {
                explicit.insert(at, ("<<".to_string(), al));
            } else {
                let m = N::Map { ents: std::mem::take(&mut inl), anchor: None, flow: true };
                explicit.insert(at, ("<<".to_string(), N::Seq { items: vec![al, m], anchor: None, flow: true }));
            }
        } else if !inl.is_empty() {
            let at = merge_at as usize % (explicit.len() + 1);
            explicit.insert(at, ("<<".to_string(), N::Map { ents: inl, anchor: None, flow: flow || merge_at % 2 == 0 }));
        }
        N::Map { ents: explicit, anchor: None, flow }
    }
    fn item(&mut self, it: &ItemD, gpre: &str, vpre: &str, fl: Flags, parent_flow: bool) -> N {
        let whole = if it.whole { Some(self.m()) } else { None };
        let flow = if it.whole { it.flow || self.defs_flow } else { parent_flow || it.flow };
        let mut tags = vec![];
        for (j, t) in it.tags.iter().enumerate() {
            let tok = str_tok(&t.v, t.sty);
            let mut tb = TruthB {
                gpath: format!("{gpre}.tags[{j}]"),
                vpath: format!("{vpre}.tags[{j}]"),
                yleaf: None,
                rust_leaf: String::new(),
                refm: vec![],
                defm: vec![],
                via: Via::Direct,
                over: false,
                renamed: fl.renamed,
                seq_idx: true,
                map_key: fl.map_key,
                amb: fl.amb,
                amb_na: fl.amb_na,
                garde_only: true,
            };
            let node = match norm_tag_how(&t.how) {
                How::Alias => {
                    let (name, d) = self.pool_scalar(tok);
                    let m = self.m();
                    tb.refm = vec![m];
                    tb.defm = vec![d];
                    tb.via = Via::Alias;
                    N::Al { name, mark: Some(m), cmt: t.cmt }
                }
                h => {
                    let m = self.m();
                    tb.refm = vec![m];
                    tb.defm = vec![m];
                    let anchor = if h == How::Anchored {
                        self.nu += 1;
                        Some(format!("u{}", self.nu))
                    } else {
                        None
                    };
                    N::Sc { tok, anchor, mark: Some(m), cmt: t.cmt }
                }
            };
            if let Some(w) = whole {
                tb.refm.insert(0, w);
                if tb.via == Via::Direct {
                    tb.via = Via::Whole;
                }
            }
            self.truths.push(tb);
            tags.push(node);
        }
        let mut fields = vec![F::S(&it.label, "label", "label"), F::I(&it.weight, "weight", "weight")];
        if !tags.is_empty() {
            fields.push(F::Node("tags", N::Seq { items: tags, anchor: None, flow: flow || it.tags_flow }));
        }
        let mut node = self.build_struct(fields, gpre, vpre, flow, it.merge_at, fl, whole);
        if let Some(w) = whole {
            let name = format!("i{}", self.pool_i.len());
            if let N::Map { anchor, .. } = &mut node {
                *anchor = Some(name.clone());
            }
            self.pool_i.push((name.clone(), node));
            return N::Al { name, mark: Some(w), cmt: false };
        }
        node
    }
}

fn collapse_ascii(s: &str) -> String {
    s.chars().filter(|c| c.is_ascii_alphanumeric()).map(|c| c.to_ascii_lowercase()).collect()
}
fn collapse_unicode(s: &str) -> String {
    s.chars().filter(|c| c.is_alphanumeric()).map(|c| c.to_ascii_lowercase()).collect()
}

struct DocR {
    model: Root,
    truths: Vec<Truth>,
}
struct Rendered {
    text: String,
    docs: Vec<DocR>,
}

fn item_model(it: &ItemD) -> Item {
    Item { label: it.label.v.clone(), weight: it.weight.v, tags: it.tags.iter().map(|t| t.v.clone()).collect() }
}

fn render(c: &Case) -> Rendered {
    let mut w = W { out: String::new(), line: 1, col: 1, lay: &c.layout, marks: vec![], ent: 0 };
    let mut docs = vec![];
    for (di, d) in c.docs.iter().enumerate() {
        let mut b = Bld { defs_flow: d.defs_flow, ..Default::default() };
        // nested containers first (they fill the pools)
        let net_fl = Flags { renamed: true, ..Default::default() };
        let mut bk = vec![];
        for (i, it) in d.net.back_ups.iter().enumerate() {
            let fl = Flags { renamed: true, seq_idx: true, ..Default::default() };
            let p = format!("net_cfg.back_ups[{i}]");
            bk.push(b.item(it, &p, &p, fl, d.net.flow || d.net.seq_flow));
        }
        let mut nf = vec![F::S(&d.net.host_name, "host_name", "host-name"), F::I(&d.net.port_no, "port_no", "port-no")];
        if !bk.is_empty() {
            nf.push(F::Node("back-ups", N::Seq { items: bk, anchor: None, flow: d.net.flow || d.net.seq_flow }));
        }
        let net = b.build_struct(nf, "net_cfg", "net_cfg", d.net.flow, d.net.merge_at, net_fl, None);
        let mut items = vec![];
        for (i, it) in d.items.iter().enumerate() {
            let fl = Flags { seq_idx: true, ..Default::default() };
            let p = format!("items[{i}]");
            items.push(b.item(it, &p, &p, fl, d.items_flow));
        }
        let mut sorted: Vec<&String> = d.by_name.iter().map(|(k, _)| k).collect();
        sorted.sort();
        let mut ments = vec![];
        for (k, it) in d.by_name.iter() {
            let idx = sorted.iter().position(|x| *x == k).unwrap();
            let others = || d.by_name.iter().map(|(k2, _)| k2).filter(|k2| *k2 != k);
            let amb = others().any(|k2| collapse_unicode(k2) == collapse_unicode(k));
            let amb_na = !amb && others().any(|k2| collapse_ascii(k2) == collapse_ascii(k));
            let fl = Flags { renamed: true, map_key: true, amb, amb_na, ..Default::default() };
            let n = b.item(it, &format!("by_name.{k}"), &format!("by_name[{idx}]"), fl, d.map_flow);
            ments.push((k.clone(), n));
        }
        let mut fields = vec![
            F::S(&d.short_name, "short_name", "shortName"),
            F::Node("netCfg", net),
            F::I(&d.max_count, "max_count", "maxCount"),
            F::Node("items", N::Seq { items, anchor: None, flow: d.items_flow }),
            F::S(&d.ty, "r#type", "type"),
            F::Node("byName", N::Map { ents: ments.into_iter().collect(), anchor: None, flow: d.map_flow }),
            F::I(&d.ab_c, "ab_c", "abC"),
            F::I(&d.a_bc, "a_bc", "aBc"),
        ];
        let r = d.rot as usize % fields.len();
        fields.rotate_left(r);
        let root = b.build_struct(fields, "", "", false, d.merge_at, Flags::default(), None);
        let N::Map { ents: mut rents, .. } = root else { unreachable!() };
        let mut pool: Vec<(String, N)> = vec![];
        pool.append(&mut b.pool_s);
        pool.append(&mut b.pool_b);
        pool.append(&mut b.pool_i);
        if !pool.is_empty() {
            rents.insert(0, ("defs".to_string(), N::Map { ents: pool, anchor: None, flow: d.defs_flow }));
        }
        // text
        let base = w.marks.len();
        if di > 0 || d.start_marker {
            w.put("---");
            w.nl();
        }
        for _ in 0..d.lead {
            w.comment_line(0);
        }
        // marks of this document are offset by `base`
        fn shift(n: &mut N, base: usize) {
            match n {
                N::Sc { mark, .. } | N::Al { mark, .. } => {
                    if let Some(m) = mark {
                        *m += base;
                    }
                }
                N::Map { ents, .. } => ents.iter_mut().for_each(|(_, v)| shift(v, base)),
                N::Seq { items, .. } => items.iter_mut().for_each(|v| shift(v, base)),
            }
        }
        for (_, v) in rents.iter_mut() {
            shift(v, base);
        }
        w.block_map(&rents, 0, false, c.layout.blank);
        if d.end_marker {
            w.put("...");
            w.nl();
        }
        if w.marks.len() < base + b.nmarks {
            w.marks.resize(base + b.nmarks, None);
        }
        let pos = |ms: &Vec<usize>| -> Vec<Pos> { ms.iter().map(|m| w.marks[base + *m].expect("mark not rendered")).collect() };
        let truths = b
            .truths
            .iter()
            .map(|t| Truth {
                gpath: t.gpath.clone(),
                vpath: t.vpath.clone(),
                yleaf: t.yleaf.clone(),
                rust_leaf: t.rust_leaf.clone(),
                ref_ok: pos(&t.refm),
                def_ok: pos(&t.defm),
                via: t.via,
                over: t.over,
                renamed: t.renamed,
                seq_idx: t.seq_idx,
                map_key: t.map_key,
                amb: t.amb,
                amb_na: t.amb_na,
                garde_only: t.garde_only,
            })
            .collect();
        let model = Root {
            defs: Ignored,
            short_name: d.short_name.v.clone(),
            net_cfg: Net { host_name: d.net.host_name.v.clone(), port_no: d.net.port_no.v, back_ups: d.net.back_ups.iter().map(item_model).collect() },
            max_count: d.max_count.v,
            items: d.items.iter().map(item_model).collect(),
            r#type: d.ty.v.clone(),
            by_name: d.by_name.iter().map(|(k, it)| (k.clone(), item_model(it))).collect(),
            ab_c: d.ab_c.v,
            a_bc: d.a_bc.v,
        };
        docs.push(DocR { model, truths });
    }
    Rendered { text: w.out, docs }
}

// ------------------------------------------------------------------------------------------
// observation channel: a recording Localizer (no source hooks)

#[derive(Debug, Clone)]
enum Evt {
    Line(String, Option<Pos>),
    Base(String),
    Prefix(Option<Pos>),
    Attach(Option<Pos>),
    Anchor(Option<Pos>),
}
#[derive(Default)]
struct Rec {
    ev: RefCell<Vec<Evt>>,
}
fn lp(l: Location) -> Option<Pos> {
    if l == Location::UNKNOWN { None } else { Some(Pos { line: l.line(), col: l.column() }) }
}
impl Localizer for Rec {
    fn attach_location<'a>(&self, base: Cow<'a, str>, loc: Location) -> Cow<'a, str> {
        self.ev.borrow_mut().push(Evt::Attach(lp(loc)));
        if loc == Location::UNKNOWN { base } else { Cow::Owned(format!("{base} at line {}, column {}", loc.line(), loc.column())) }
    }
    fn validation_issue_line(&self, resolved_path: &str, entry: &str, loc: Option<Location>) -> String {
        self.ev.borrow_mut().push(Evt::Line(resolved_path.to_string(), loc.and_then(lp)));
        match loc {
            Some(l) if l != Location::UNKNOWN => format!("validation error at {resolved_path}: {entry} at line {}, column {}", l.line(), l.column()),
            _ => format!("validation error at {resolved_path}: {entry}"),
        }
    }
    fn validation_base_message(&self, entry: &str, resolved_path: &str) -> String {
        self.ev.borrow_mut().push(Evt::Base(resolved_path.to_string()));
        format!("validation error: {entry} for `{resolved_path}`")
    }
    fn snippet_location_prefix(&self, loc: Location) -> String {
        self.ev.borrow_mut().push(Evt::Prefix(lp(loc)));
        if loc == Location::UNKNOWN { String::new() } else { format!("line {} column {}", loc.line(), loc.column()) }
    }
    fn value_comes_from_the_anchor(&self, def: Location) -> String {
        self.ev.borrow_mut().push(Evt::Anchor(lp(def)));
        format!("  | This value comes indirectly from the anchor at line {} column {}:", def.line(), def.column())
    }
}

#[derive(Debug, Clone)]
struct Iss {
    path: String,
    r: Option<Pos>,
    d: Option<Pos>,
    snip: bool,
}

fn observe(e: &Error, mode: SnippetMode) -> (Vec<Iss>, String) {
    let rec = Rec::default();
    let text = {
        let fmt = serde_saphyr::DefaultMessageFormatter.with_localizer(&rec);
        let mut ro = serde_saphyr::RenderOptions::new(&fmt);
        ro.snippets = mode;
        e.render_with_options(ro)
    };
    let mut out: Vec<Iss> = vec![];
    let mut after_anchor = false;
    for ev in rec.ev.into_inner() {
        match ev {
            Evt::Line(p, l) => out.push(Iss { path: p, r: l, d: None, snip: false }),
            Evt::Base(p) => {
                out.push(Iss { path: p, r: None, d: None, snip: false });
                after_anchor = false;
            }
            Evt::Prefix(l) => {
                if let Some(cur) = out.last_mut() {
                    if cur.r.is_none() && !after_anchor {
                        cur.r = l;
                        cur.snip = true;
                    }
                }
            }
            Evt::Attach(l) => {
                if let Some(cur) = out.last_mut() {
                    if cur.r.is_none() && !after_anchor {
                        cur.r = l;
                    }
                }
            }
            Evt::Anchor(l) => {
                if let Some(cur) = out.last_mut() {
                    cur.d = l;
                    after_anchor = true;
                }
            }
        }
    }
    (out, text)
}

// ------------------------------------------------------------------------------------------
// the oracle

fn short(e: &Error) -> String {
    let s = format!("{:?}", e.without_snippet());
    s.chars().take(160).collect()
}

struct DocCx<'a> {
    c: &'a Case,
    dr: &'a DocR,
    expected: &'a BTreeSet<String>,
    lines: &'a [&'a str],
    snip_expected: bool,
    doc: usize,
}

/// key (expected path, raw prefix stripped) -> truth; plus reported spelling -> key
fn truth_index<'a>(dr: &'a DocR, k: Krate) -> (BTreeMap<String, &'a Truth>, BTreeMap<String, (String, bool)>) {
    let mut by_key = BTreeMap::new();
    let mut by_rep = BTreeMap::new();
    for t in &dr.truths {
        if t.garde_only && k == Krate::Validator {
            continue;
        }
        let raw = match k {
            Krate::Garde => &t.gpath,
            Krate::Validator => &t.vpath,
        };
        let key = strip_raw(raw);
        // unresolved spellings (Rust field name, with or without r#)
        by_rep.insert(raw.clone(), (key.clone(), false));
        by_rep.insert(key.clone(), (key.clone(), false));
        // resolved spelling: the leaf as written in the YAML
        if let Some(y) = &t.yleaf {
            let cut = raw.len() - t.rust_leaf.len();
            by_rep.insert(format!("{}{}", &raw[..cut], y), (key.clone(), true));
        } else {
            by_rep.insert(key.clone(), (key.clone(), true));
        }
        by_key.insert(key, t);
    }
    (by_key, by_rep)
}

fn check_doc_error(e: &Error, cx: &DocCx) -> Result<(), String> {
    let k = cx.c.krate;
    let di = cx.doc;
    let inner = e.without_snippet();
    let ok_variant = match k {
        Krate::Garde => matches!(inner, Error::ValidationError { .. }),
        Krate::Validator => matches!(inner, Error::ValidatorError { .. }),
    };
    if !ok_variant {
        return Err(format!("the error is not the validation error variant of the crate in use: doc {di}: expected {:?}, got {}", k, short(e)));
    }
    let wrapped = matches!(e, Error::WithSnippet { .. });
    let (by_key, by_rep) = truth_index(cx.dr, k);
    let (plain, plain_text) = observe(e, SnippetMode::Off);
    if plain.is_empty() {
        return Err(format!("the validation error renders no issue at all (plain mode): doc {di}: {plain_text:?}"));
    }
    // (2) the set of reported paths
    let mut seen = BTreeSet::new();
    let mut matched: Vec<(&Iss, &Truth, bool)> = vec![];
    for is in &plain {
        let Some((key, resolved)) = by_rep.get(&is.path) else {
            return Err(format!("a reported path is not a field path of the document at all: doc {di}: `{}` (expected violations {:?})", is.path, cx.expected));
        };
        if !cx.expected.contains(key) {
            return Err(format!("a field is reported although its constraint holds on the plain value: doc {di}: `{}` (expected violations {:?})", is.path, cx.expected));
        }
        seen.insert(key.clone());
        matched.push((is, by_key[key], *resolved));
    }
    if &seen != cx.expected {
        let missing: Vec<_> = cx.expected.difference(&seen).collect();
        return Err(format!("violated fields are missing from the validation error report: doc {di}: {missing:?}"));
    }
    // per issue: location of the use site, YAML spelling
    for (is, t, resolved) in &matched {
        let must = !(t.amb || (k == Krate::Validator && t.map_key));
        match is.r {
            None => {
                if must {
                    return Err(format!("no location is reported for a violated field that must be located: doc {di}: `{}` ({:?}; ground truth {})", is.path, t.via, t.ref_ok[0]));
                }
            }
            Some(p) => {
                if !t.ref_ok.contains(&p) {
                    return Err(format!("the use-site location differs from the ground-truth position of the value: doc {di}: `{}` reported at {p}, ground truth {:?} ({:?})", is.path, t.ref_ok, t.via));
                }
                if !resolved {
                    return Err(format!("a located issue is not named by the YAML spelling of its field: doc {di}: `{}` instead of `{}`", is.path, t.yleaf.clone().unwrap_or_default()));
                }
            }
        }
        if !plain_text.contains(&format!("validation error at {}:", is.path)) {
            return Err(format!("the plain rendering does not contain the issue line of a reported path: doc {di}: `{}`: {plain_text:?}", is.path));
        }
    }
    // Error::location / Error::locations describe the first issue
    let (first, ft, _) = &matched[0];
    // "The error message will contain a snippet with exact location information" (rustdoc of the
    // string entry points); the library attaches it when the error has a location
    if cx.snip_expected && !wrapped && first.r.is_some() {
        return Err(format!("string entry point with snippets enabled returned a located error without snippet (doc {di})"));
    }
    let fmust = !(ft.amb || (k == Krate::Validator && ft.map_key));
    if let Some(p) = first.r {
        if e.location().and_then(lp) != Some(p) {
            return Err(format!("Error::location() differs from the location of the first rendered issue: doc {di}: {:?} vs {p}", e.location().and_then(lp)));
        }
        match e.locations() {
            None => return Err(format!("Error::locations() is None although the first issue has a location: doc {di}: {p}")),
            Some(l) => {
                if lp(l.reference_location) != Some(p) {
                    return Err(format!("Error::locations().reference_location differs from the first issue: doc {di}: {:?} vs {p}", lp(l.reference_location)));
                }
                match lp(l.defined_location) {
                    Some(d) if ft.def_ok.contains(&d) => {}
                    other => {
                        return Err(format!("Error::locations().defined_location differs from the ground-truth definition site: doc {di}: {other:?} for `{}`, ground truth {:?} ({:?})", first.path, ft.def_ok, ft.via));
                    }
                }
            }
        }
    } else if fmust {
        return Err(format!("the first issue has no location although it must be located: doc {di}: `{}`", first.path));
    }
    // snippet rendering: use site and definition site per issue
    let (snip, snip_text) = observe(e, SnippetMode::Auto);
    if wrapped && cx.c.opt != OptV::Crop0 {
        if snip.len() != plain.len() {
            return Err(format!("snippet rendering and plain rendering show different numbers of issues: doc {di}: {} vs {}", snip.len(), plain.len()));
        }
        for (s, (is, t, _)) in snip.iter().zip(matched.iter()) {
            if s.path != is.path || s.r != is.r {
                return Err(format!("snippet rendering and plain rendering disagree about path or use site: doc {di}: `{}` at {:?} vs `{}` at {:?}", s.path, s.r, is.path, is.r));
            }
            let Some(r) = s.r else { continue };
            match s.d {
                Some(d) => {
                    if !t.def_ok.contains(&d) || d == r {
                        return Err(format!("the definition site differs from the position of the anchored node: doc {di}: `{}` reported at {d}, ground truth {:?} (use site {r}, {:?})", s.path, t.def_ok, t.via));
                    }
                }
                None => {
                    if !t.def_ok.contains(&r) {
                        return Err(format!("no definition site is reported for a value that came through an anchor: doc {di}: `{}` defined at {:?} (use site {r}, {:?})", s.path, t.def_ok, t.via));
                    }
                }
            }
            if !s.snip && cx.c.strict {
                return Err(format!("no snippet is rendered for a located issue: doc {di} `{}` at {r}: {snip_text:?}", s.path));
            }
            if !snip_text.contains(&format!("`{}`", s.path)) {
                return Err(format!("the snippet rendering does not name the path of an issue in backquotes: doc {di}: `{}`", s.path));
            }
            if cx.c.opt == OptV::Default && s.snip {
                if let Some(src) = cx.lines.get(r.line as usize - 1) {
                    let src = src.trim_end();
                    if src.chars().count() <= 60 && !snip_text.contains(&format!("{} | {}", r.line, src)) {
                        return Err(format!("the snippet of an issue does not show the source line of its use site: doc {di}: `{}` line {} ({src:?}): {snip_text:?}", s.path, r.line));
                    }
                }
                // ... and, for a value that came through an anchor, the line of its definition
                if let Some(d) = s.d {
                    if let Some(src) = cx.lines.get(d.line as usize - 1) {
                        let src = src.trim_end();
                        if src.chars().count() <= 60 && !snip_text.contains(&format!("{} | {}", d.line, src)) {
                            return Err(format!("the snippet of an issue does not show the source line of its definition site: doc {di}: `{}` defined at line {} ({src:?}): {snip_text:?}", s.path, d.line));
                        }
                    }
                }
            }
        }
    } else if snip.len() != plain.len() {
        return Err(format!("rendering with and without snippets shows different numbers of issues: doc {di}: {} vs {}", snip.len(), plain.len()));
    }
    // default formatter: Display and render() agree and name every issue
    let disp = e.to_string();
    if disp != e.render() {
        return Err(format!("Display and render() of the validation error produce different text: doc {di}"));
    }
    for (is, _, _) in &matched {
        if !disp.contains(&is.path) {
            return Err(format!("the default rendering does not name the path of a reported issue: doc {di}: `{}`: {disp:?}", is.path));
        }
    }
    Ok(())
}

enum VRes {
    Single(Result<Root, Error>),
    Multi(Result<Vec<Root>, Error>),
    Iter(Vec<Result<Root, Error>>),
}

fn call_plain(c: &Case, text: &str) -> Result<Vec<Root>, Error> {
    let b = text.as_bytes();
    match c.ep {
        Ep::Str => serde_saphyr::from_str::<Root>(text).map(|v| vec![v]),
        Ep::StrOpt => serde_saphyr::from_str_with_options::<Root>(text, c.opt.build()).map(|v| vec![v]),
        Ep::Slice => serde_saphyr::from_slice::<Root>(b).map(|v| vec![v]),
        Ep::Reader => serde_saphyr::from_reader::<_, Root>(std::io::Cursor::new(b)).map(|v| vec![v]),
        Ep::Multiple => serde_saphyr::from_multiple::<Root>(text),
        Ep::SliceMultipleOpt => serde_saphyr::from_slice_multiple_with_options::<Root>(b, c.opt.build()),
        Ep::Read => {
            let mut cur = std::io::Cursor::new(b);
            serde_saphyr::read::<_, Root>(&mut cur).take(8).collect()
        }
    }
}

fn call_valid(c: &Case, text: &str) -> VRes {
    let b = text.as_bytes();
    match (c.krate, c.ep) {
        (Krate::Garde, Ep::Str) => VRes::Single(serde_saphyr::from_str_valid(text)),
        (Krate::Garde, Ep::StrOpt) => VRes::Single(serde_saphyr::from_str_with_options_valid(text, c.opt.build())),
        (Krate::Garde, Ep::Slice) => VRes::Single(serde_saphyr::from_slice_valid(b)),
        (Krate::Garde, Ep::Reader) => VRes::Single(serde_saphyr::from_reader_valid(std::io::Cursor::new(b))),
        (Krate::Garde, Ep::Multiple) => VRes::Multi(serde_saphyr::from_multiple_valid(text)),
        (Krate::Garde, Ep::SliceMultipleOpt) => VRes::Multi(serde_saphyr::from_slice_multiple_with_options_valid(b, c.opt.build())),
        (Krate::Garde, Ep::Read) => {
            let mut cur = std::io::Cursor::new(b);
            VRes::Iter(serde_saphyr::read_valid::<_, Root>(&mut cur).take(8).collect())
        }
        (Krate::Validator, Ep::Str) => VRes::Single(serde_saphyr::from_str_validate(text)),
        (Krate::Validator, Ep::StrOpt) => VRes::Single(serde_saphyr::from_str_with_options_validate(text, c.opt.build())),
        (Krate::Validator, Ep::Slice) => VRes::Single(serde_saphyr::from_slice_validate(b)),
        (Krate::Validator, Ep::Reader) => VRes::Single(serde_saphyr::from_reader_validate(std::io::Cursor::new(b))),
        (Krate::Validator, Ep::Multiple) => VRes::Multi(serde_saphyr::from_multiple_validate(text)),
        (Krate::Validator, Ep::SliceMultipleOpt) => VRes::Multi(serde_saphyr::from_slice_multiple_with_options_validate(b, c.opt.build())),
        (Krate::Validator, Ep::Read) => {
            let mut cur = std::io::Cursor::new(b);
            VRes::Iter(serde_saphyr::read_validate::<_, Root>(&mut cur).take(8).collect())
        }
    }
}

enum Verdict {
    Pass,
    Fail(String),
    Discard(&'static str),
}

fn check_case(c0: &Case) -> Verdict {
    let c = norm(c0);
    let r = render(&c);
    let text = r.text.as_str();
    let strict = std::env::var("C18_STRICT").is_ok();
    // the plain entry point is the reference for (1) and for the constraint evaluation
    let plain = match call_plain(&c, text) {
        Ok(v) => v,
        Err(e) => {
            if strict {
                return Verdict::Fail(format!("MODEL: plain entry point rejects the rendered text: {}", e.without_snippet()));
            }
            return Verdict::Discard("plain entry point rejects the rendered document");
        }
    };
    if plain.len() != r.docs.len() || plain.iter().zip(&r.docs).any(|(p, d)| *p != d.model) {
        if strict {
            return Verdict::Fail(format!("MODEL: plain value differs from the model: {plain:?}"));
        }
        return Verdict::Discard("plain value differs from the model value");
    }
    let mut expected: Vec<BTreeSet<String>> = vec![];
    for p in &plain {
        let mine: BTreeSet<String> = violations(p, c.krate).iter().map(|s| strip_raw(s)).collect();
        let theirs: BTreeSet<String> = crate_violations(p, c.krate).iter().map(|s| strip_raw(s)).collect();
        if mine != theirs {
            return Verdict::Fail(format!("HARNESS: constraint evaluator {mine:?} disagrees with the validation crate {theirs:?}"));
        }
        expected.push(mine);
    }
    let lines: Vec<&str> = text.split('\n').collect();
    let snip_expected = !c.ep.reader() && c.opt.snippets();
    let failing: Vec<usize> = (0..plain.len()).filter(|i| !expected[*i].is_empty()).collect();
    let cx = |i: usize| DocCx { c: &c, dr: &r.docs[i], expected: &expected[i], lines: &lines, snip_expected, doc: i };
    let res: Result<(), String> = (|| match call_valid(&c, text) {
        VRes::Single(res) => match (res, failing.is_empty()) {
            (Ok(v), true) => {
                if v != plain[0] {
                    return Err(format!("validation passes but the value differs from the plain entry point: {v:?} vs {:?}", plain[0]));
                }
                Ok(())
            }
            (Ok(_), false) => Err(format!("constraints {:?} are violated but the validating entry point returned Ok", expected[0])),
            (Err(e), true) => Err(format!("no constraint is violated but the validating entry point failed: {}", short(&e))),
            (Err(e), false) => check_doc_error(&e, &cx(0)),
        },
        VRes::Multi(res) => match (res, failing.is_empty()) {
            (Ok(v), true) => {
                if v != plain {
                    return Err("validation passes but the values differ from the plain entry point".to_string());
                }
                Ok(())
            }
            (Ok(_), false) => Err(format!("documents {failing:?} violate constraints but the validating stream entry point returned Ok")),
            (Err(e), true) => Err(format!("no constraint is violated but the validating stream entry point failed: {}", short(&e))),
            (Err(e), false) => {
                let errors = match (c.krate, e.without_snippet()) {
                    (Krate::Garde, Error::ValidationErrors { errors }) => errors,
                    (Krate::Validator, Error::ValidatorErrors { errors }) => errors,
                    _ => return Err(format!("stream entry point: expected the aggregate validation error, got {}", short(&e))),
                };
                if errors.len() != failing.len() {
                    return Err(format!("stream entry point reports {} failing documents, {} documents violate constraints ({failing:?})", errors.len(), failing.len()));
                }
                for (ne, i) in errors.iter().zip(&failing) {
                    check_doc_error(ne, &cx(*i))?;
                }
                // the aggregate renders every nested issue, in both modes
                let total: usize = failing.iter().map(|i| expected[*i].len()).sum();
                for mode in [SnippetMode::Off, SnippetMode::Auto] {
                    let (iss, txt) = observe(&e, mode);
                    if iss.len() != total {
                        return Err(format!("aggregate error renders {} issues, expected {total}: {txt:?}", iss.len()));
                    }
                    if !txt.contains(&format!("validation failed for {} document(s)", failing.len())) {
                        return Err(format!("aggregate error does not state the number of failing documents: {txt:?}"));
                    }
                }
                let _ = e.to_string();
                Ok(())
            }
        },
        VRes::Iter(items) => {
            if items.len() != plain.len() {
                return Err(format!("validating iterator yields {} items for {} documents", items.len(), plain.len()));
            }
            for (i, it) in items.into_iter().enumerate() {
                match (it, expected[i].is_empty()) {
                    (Ok(v), true) => {
                        if v != plain[i] {
                            return Err(format!("doc {i}: validation passes but the value differs from the plain iterator"));
                        }
                    }
                    (Ok(_), false) => return Err(format!("doc {i}: constraints {:?} are violated but the iterator yielded Ok", expected[i])),
                    (Err(e), true) => return Err(format!("doc {i}: no constraint is violated but the iterator yielded {}", short(&e))),
                    (Err(e), false) => check_doc_error(&e, &cx(i))?,
                }
            }
            Ok(())
        }
    })();
    match res {
        Ok(()) => Verdict::Pass,
        Err(m) => Verdict::Fail(m),
    }
}

// ------------------------------------------------------------------------------------------
// leaves of a document description (fixed visiting order)

enum LeafMut<'a> {
    S(&'a mut SLeaf, (usize, usize), bool),
    N(&'a mut NLeaf, (i64, i64)),
}
fn item_leaves<'a>(it: &'a mut ItemD, f: &mut dyn FnMut(LeafMut<'a>)) {
    f(LeafMut::S(&mut it.label, LABEL, false));
    f(LeafMut::N(&mut it.weight, WEIGHT));
    for t in it.tags.iter_mut() {
        f(LeafMut::S(t, TAG, true));
    }
}
fn doc_leaves<'a>(d: &'a mut DocD, f: &mut dyn FnMut(LeafMut<'a>)) {
    f(LeafMut::S(&mut d.short_name, SHORT_NAME, false));
    f(LeafMut::N(&mut d.max_count, MAX_COUNT));
    f(LeafMut::S(&mut d.ty, TYPE_, false));
    f(LeafMut::N(&mut d.ab_c, AB_C));
    f(LeafMut::N(&mut d.a_bc, A_BC));
    f(LeafMut::S(&mut d.net.host_name, HOST_NAME, false));
    f(LeafMut::N(&mut d.net.port_no, PORT_NO));
    for it in d.net.back_ups.iter_mut() {
        item_leaves(it, f);
    }
    for it in d.items.iter_mut() {
        item_leaves(it, f);
    }
    for (_, it) in d.by_name.iter_mut() {
        item_leaves(it, f);
    }
}
fn n_leaves(d: &DocD) -> usize {
    let mut d = d.clone();
    let mut n = 0;
    doc_leaves(&mut d, &mut |_| n += 1);
    n
}
fn bad_s(c: (usize, usize)) -> String {
    "abcdefghijklmnop".chars().take(c.1 + 1).collect()
}
fn bad_n(c: (i64, i64)) -> i64 {
    if c.1 < i64::MAX { c.1 + 1 } else { c.0 - 1 }
}
/// make leaf `idx` violate its constraint, supplied as `how`
fn violate(d: &mut DocD, idx: usize, how: &How) {
    let mut i = 0;
    doc_leaves(d, &mut |l| {
        if i == idx {
            match l {
                LeafMut::S(s, c, tag) => {
                    s.v = bad_s(c);
                    s.how = if tag { norm_tag_how(how) } else { how.clone() };
                }
                LeafMut::N(n, c) => {
                    n.v = bad_n(c);
                    n.how = how.clone();
                }
            }
        }
        i += 1;
    });
}

fn sl(v: &str) -> SLeaf {
    SLeaf { v: v.to_string(), sty: 0, how: How::Direct, cmt: false }
}
fn nlf(v: i64) -> NLeaf {
    NLeaf { v, how: How::Direct, cmt: false }
}
fn base_item(label: &str, weight: i64, tags: &[&str]) -> ItemD {
    ItemD { label: sl(label), weight: nlf(weight), tags: tags.iter().map(|t| sl(t)).collect(), flow: false, tags_flow: false, whole: false, merge_at: 0 }
}
fn base_doc() -> DocD {
    DocD {
        short_name: sl("name"),
        max_count: nlf(5),
        ty: sl("t1"),
        ab_c: nlf(3),
        a_bc: nlf(4),
        net: NetD { host_name: sl("host"), port_no: nlf(8080), back_ups: vec![base_item("bk", 1, &["x"])], flow: false, seq_flow: false, merge_at: 0 },
        items: vec![base_item("one", 1, &["a", "b"]), base_item("two", 2, &[])],
        items_flow: false,
        by_name: vec![("k1".to_string(), base_item("m1", 3, &[])), ("alpha".to_string(), base_item("m2", 4, &["t"]))],
        map_flow: false,
        defs_flow: false,
        merge_at: 0,
        rot: 0,
        start_marker: false,
        end_marker: false,
        lead: 0,
    }
}
fn base_layout() -> Layout {
    Layout { crlf: false, step: 2, seq_indent: true, cmt_every: 0, blank: false }
}

// ------------------------------------------------------------------------------------------
// evidence: what a case exercises

#[derive(Default, Debug)]
struct Feat {
    viol: usize,
    alias: usize,
    merge: usize,
    whole: usize,
    over: usize,
    renamed: usize,
    seq_idx: usize,
    map_key: usize,
    amb: usize,
    amb_na: usize,
    failing_docs: usize,
    docs: usize,
    leaves: usize,
}
fn features(c0: &Case) -> Feat {
    let c = norm(c0);
    let r = render(&c);
    let mut f = Feat { docs: r.docs.len(), ..Default::default() };
    for d in &r.docs {
        let v: BTreeSet<String> = violations(&d.model, c.krate).iter().map(|s| strip_raw(s)).collect();
        if !v.is_empty() {
            f.failing_docs += 1;
        }
        f.leaves += d.truths.len();
        for t in &d.truths {
            if t.garde_only && c.krate == Krate::Validator {
                continue;
            }
            let key = strip_raw(if c.krate == Krate::Garde { &t.gpath } else { &t.vpath });
            if !v.contains(&key) {
                continue;
            }
            f.viol += 1;
            match t.via {
                Via::Alias => f.alias += 1,
                Via::Merge => f.merge += 1,
                Via::Whole => f.whole += 1,
                Via::Direct => {}
            }
            f.over += t.over as usize;
            f.renamed += t.renamed as usize;
            f.seq_idx += t.seq_idx as usize;
            f.map_key += t.map_key as usize;
            f.amb += t.amb as usize;
            f.amb_na += t.amb_na as usize;
        }
    }
    f
}
// ------------------------------------------------------------------------------------------
// generators

const STRS: [&str; 22] = [
    "", "a", "é", "日", "ok", "日本", "x1", "abc", "x y", "123", "abcd", "déjà", "abcde", "😀😀😀😀😀", "abcdef", "abcdefg", "日本語日本語日", "abcdefghi",
    "abcdefghij", "ключ-значение", "No", "a-b_c",
];
const INTS: [i64; 18] = [-100000, -4, -3, -1, 0, 1, 5, 9, 10, 11, 80, 100, 101, 8080, 65535, 65536, 100000, 4000000000];
const KEYS: [&str; 20] = [
    "k1", "k2", "alpha", "Alpha", "a_b", "a-b", "aB", "ab", "label", "0", "ключ", "日本", "x y", "items", "weight", "shortName", "é1", "É1", "ALPHA", "k-1",
];

// ---------------- byte-driven construction (libFuzzer target) -------------------------------------
fn how_b(b: &mut engine::Bytes) -> How {
    match b.below(16) {
        0..=5 => How::Direct,
        6 => How::Anchored,
        7..=9 => How::Alias,
        10 | 11 => How::Merge,
        12 => How::MergeOver,
        13 => How::MergeAlias,
        14 => How::MergeInlineAlias,
        _ => How::MergeInline,
    }
}
fn sleaf_b(b: &mut engine::Bytes, c: (usize, usize)) -> SLeaf {
    // one leaf in four violates its constraint
    let want_bad = b.below(4) == 0;
    let list: Vec<&str> = STRS.iter().copied().filter(|s| sbad(s, c) == want_bad).collect();
    let v = if list.is_empty() { "ok".to_string() } else { list[b.below(list.len())].to_string() };
    SLeaf { v, sty: b.below(3) as u8, how: how_b(b), cmt: b.below(7) == 0 }
}
fn nleaf_b(b: &mut engine::Bytes, c: (i64, i64)) -> NLeaf {
    let want_bad = b.below(4) == 0;
    let list: Vec<i64> = INTS.iter().copied().filter(|v| nbad(*v, c) == want_bad).collect();
    let v = if list.is_empty() { 5 } else { list[b.below(list.len())] };
    NLeaf { v, how: how_b(b), cmt: b.below(7) == 0 }
}
fn item_b(b: &mut engine::Bytes) -> ItemD {
    let label = sleaf_b(b, LABEL);
    let weight = nleaf_b(b, WEIGHT);
    let nt = b.below(3);
    let tags = (0..nt).map(|_| sleaf_b(b, TAG)).collect();
    let f = b.u8();
    ItemD { label, weight, tags, flow: f & 3 == 0, tags_flow: f & 4 != 0, whole: f & 0x38 == 0, merge_at: (f >> 6) & 3 }
}
fn doc_b(b: &mut engine::Bytes, keys: &[&str]) -> DocD {
    let short_name = sleaf_b(b, SHORT_NAME);
    let max_count = nleaf_b(b, MAX_COUNT);
    let ty = sleaf_b(b, TYPE_);
    let ab_c = nleaf_b(b, AB_C);
    let a_bc = nleaf_b(b, A_BC);
    let host_name = sleaf_b(b, HOST_NAME);
    let port_no = nleaf_b(b, PORT_NO);
    let nb = b.below(3);
    let back_ups = (0..nb).map(|_| item_b(b)).collect();
    let f = b.u8();
    let net = NetD { host_name, port_no, back_ups, flow: f & 3 == 0, seq_flow: f & 4 != 0, merge_at: (f >> 3) & 3 };
    let ni = b.below(4);
    let items = (0..ni).map(|_| item_b(b)).collect();
    let nn = b.below(4);
    let by_name = (0..nn).map(|_| (b.pick(keys).to_string(), item_b(b))).collect();
    let g = b.u16();
    DocD {
        short_name,
        max_count,
        ty,
        ab_c,
        a_bc,
        net,
        items,
        items_flow: g & 3 == 0,
        by_name,
        map_flow: g & 0xc == 0,
        defs_flow: g & 0x30 == 0,
        merge_at: ((g >> 6) % 6) as u8,
        rot: ((g >> 9) & 7) as u8,
        start_marker: g & 0x1000 != 0,
        end_marker: g & 0x6000 == 0,
        lead: ((g >> 13) % 3) as u8,
    }
}

fn how_s() -> impl Strategy<Value = How> + Clone + use<> {
    prop_oneof![
        6 => Just(How::Direct),
        1 => Just(How::Anchored),
        3 => Just(How::Alias),
        2 => Just(How::Merge),
        1 => Just(How::MergeOver),
        1 => Just(How::MergeAlias),
        2 => Just(How::MergeInline),
        1 => Just(How::MergeInlineAlias),
    ]
}
fn sleaf_s(c: (usize, usize), pbad: u32) -> impl Strategy<Value = SLeaf> + Clone + use<> {
    (0u32..100, any::<u16>(), 0u8..3, how_s(), prop::bool::weighted(0.15)).prop_map(move |(roll, idx, sty, how, cmt)| {
        let want_bad = roll >= 100 - pbad;
        let list: Vec<&str> = STRS.iter().copied().filter(|s| sbad(s, c) == want_bad).collect();
        let v = if list.is_empty() { "ok".to_string() } else { list[idx as usize % list.len()].to_string() };
        SLeaf { v, sty, how, cmt }
    })
}
fn nleaf_s(c: (i64, i64), pbad: u32) -> impl Strategy<Value = NLeaf> + Clone + use<> {
    (0u32..100, any::<u16>(), how_s(), prop::bool::weighted(0.15)).prop_map(move |(roll, idx, how, cmt)| {
        let want_bad = roll >= 100 - pbad;
        let list: Vec<i64> = INTS.iter().copied().filter(|v| nbad(*v, c) == want_bad).collect();
        let v = if list.is_empty() { 5 } else { list[idx as usize % list.len()] };
        NLeaf { v, how, cmt }
    })
}
fn item_s(pbad: u32) -> impl Strategy<Value = ItemD> + Clone + use<> {
    (
        sleaf_s(LABEL, pbad),
        nleaf_s(WEIGHT, pbad),
        prop::collection::vec(sleaf_s(TAG, pbad), 0..3),
        prop::bool::weighted(0.3),
        any::<bool>(),
        prop::bool::weighted(0.15),
        0u8..4,
    )
        .prop_map(|(label, weight, tags, flow, tags_flow, whole, merge_at)| ItemD { label, weight, tags, flow, tags_flow, whole, merge_at })
}
fn doc_s(pbad: u32, keys: &'static [&'static str]) -> impl Strategy<Value = DocD> + Clone + use<> {
    let net = (sleaf_s(HOST_NAME, pbad), nleaf_s(PORT_NO, pbad), prop::collection::vec(item_s(pbad), 0..3), prop::bool::weighted(0.25), any::<bool>(), 0u8..4)
        .prop_map(|(host_name, port_no, back_ups, flow, seq_flow, merge_at)| NetD { host_name, port_no, back_ups, flow, seq_flow, merge_at });
    let leaves = (sleaf_s(SHORT_NAME, pbad), nleaf_s(MAX_COUNT, pbad), sleaf_s(TYPE_, pbad), nleaf_s(AB_C, pbad), nleaf_s(A_BC, pbad));
    let conts = (
        net,
        prop::collection::vec(item_s(pbad), 0..4),
        prop::collection::vec((prop::sample::select(keys), item_s(pbad)), 0..4),
    );
    let flags = (prop::bool::weighted(0.25), prop::bool::weighted(0.25), prop::bool::weighted(0.3), 0u8..6, 0u8..8, any::<bool>(), prop::bool::weighted(0.3), 0u8..3);
    (leaves, conts, flags).prop_map(|((short_name, max_count, ty, ab_c, a_bc), (net, items, by_name), (items_flow, map_flow, defs_flow, merge_at, rot, start_marker, end_marker, lead))| DocD {
        short_name,
        max_count,
        ty,
        ab_c,
        a_bc,
        net,
        items,
        items_flow,
        by_name: by_name.into_iter().map(|(k, v)| (k.to_string(), v)).collect(),
        map_flow,
        defs_flow,
        merge_at,
        rot,
        start_marker,
        end_marker,
        lead,
    })
}
fn layout_s() -> impl Strategy<Value = Layout> + Clone + use<> {
    (prop::bool::weighted(0.3), prop::sample::select(vec![2u8, 4]), any::<bool>(), prop::sample::select(vec![0u8, 0, 2, 3, 5]), prop::bool::weighted(0.2))
        .prop_map(|(crlf, step, seq_indent, cmt_every, blank)| Layout { crlf, step, seq_indent, cmt_every, blank })
}
fn case_s(eps: Vec<Ep>, keys: &'static [&'static str], rates: Vec<u32>) -> impl Strategy<Value = Case> + Clone + use<> {
    (
        prop::sample::select(vec![Krate::Garde, Krate::Validator]),
        prop::sample::select(eps),
        prop::sample::select(vec![OptV::Default, OptV::Default, OptV::NoSnippet, OptV::Crop8, OptV::Crop0]),
        layout_s(),
        prop::sample::select(rates),
        any::<bool>(),
    )
        .prop_flat_map(move |(krate, ep, opt, layout, pbad, strict)| {
            let n = if ep.stream() { 4 } else { 1 };
            // in a stream some documents pass and some fail
            let doc = prop_oneof![3 => doc_s(pbad, keys), 1 => doc_s(0, keys)];
            prop::collection::vec(doc, 1..=n).prop_map(move |docs| Case { krate, ep, opt, layout: layout.clone(), docs, strict, long_mib: 0, root_seq: 0 })
        })
}

#[derive(Deserialize, garde::Validate, validator::Validate, Debug, PartialEq)]
struct LongDoc {
    #[garde(range(min = 0))]
    #[validate(range(min = 0))]
    a: i64,
}
#[derive(Deserialize, garde::Validate, validator::Validate, Debug, PartialEq)]
#[serde(rename_all = "camelCase")]
struct RsItem {
    #[garde(length(min = 2))]
    #[validate(length(min = 2))]
    first_name: String,
    #[garde(range(min = 0))]
    #[validate(range(min = 0))]
    age: i64,
}
/// a document whose root is a sequence of structs, one of them with a violated field: the issue
/// is located at that field's value (both crates, str and reader entry points)
fn check_root_seq(krate: Krate, code: u16) -> Outcome {
    let bad_item = (code % 3) as usize;
    let lead = ((code / 3) % 3) as usize;
    let bad_field = ((code / 9) % 2) as usize; // 0: firstName too short, 1: age negative
    let reader = (code / 18) % 2 == 1;
    let mut text = String::new();
    for i in 0..lead {
        text.push_str(&format!("# lead {i}\n"));
    }
    let mut want = (0u64, 0u64);
    for i in 0..3 {
        let name = if i == bad_item && bad_field == 0 { "a" } else { "okay" };
        let age = if i == bad_item && bad_field == 1 { "-5" } else { "30" };
        let l1 = format!("- firstName: {name}\n");
        let l2 = format!("  age: {age}\n");
        let line = (lead + 2 * i + 1) as u64;
        if i == bad_item {
            want = if bad_field == 0 { (line, 14) } else { (line + 1, 8) };
        }
        text.push_str(&l1);
        text.push_str(&l2);
    }
    let err = match (krate, reader) {
        (Krate::Garde, false) => serde_saphyr::from_str_valid::<Vec<RsItem>>(&text).err(),
        (Krate::Garde, true) => serde_saphyr::from_reader_valid::<_, Vec<RsItem>>(std::io::Cursor::new(text.as_bytes())).err(),
        (Krate::Validator, false) => serde_saphyr::from_str_validate::<Vec<RsItem>>(&text).err(),
        (Krate::Validator, true) => serde_saphyr::from_reader_validate::<_, Vec<RsItem>>(std::io::Cursor::new(text.as_bytes())).err(),
    };
    let Some(e) = err else {
        return Outcome::Fail(format!("a violated field in a root sequence is accepted ({krate:?}, text {text:?})"));
    };
    let got = e.without_snippet().location().map(|l| (l.line(), l.column()));
    if got != Some(want) {
        return Outcome::Fail(format!(
            "root sequence of structs ({krate:?}, reader {reader}): the issue is located at {got:?}, the violated value is at {want:?}; message {:?} (text {text:?})",
            e.without_snippet().to_string().lines().next().unwrap_or("")
        ));
    }
    Outcome::Pass
}

// ---------------- a violated field that the document does not write (serde default) -----------------
#[derive(Deserialize, garde::Validate, validator::Validate, Debug)]
#[serde(rename_all = "camelCase")]
struct DfInner {
    #[garde(length(min = 2))]
    #[validate(length(min = 2))]
    first_name: String,
    #[serde(default)]
    #[garde(range(min = 1))]
    #[validate(range(min = 1))]
    age_years: i32,
}
#[derive(Deserialize, garde::Validate, validator::Validate, Debug)]
struct DfMid {
    #[garde(dive)]
    #[validate(nested)]
    inner: DfInner,
}
#[derive(Deserialize, garde::Validate, validator::Validate, Debug)]
struct DfMid2 {
    #[garde(dive)]
    #[validate(nested)]
    mid: DfMid,
}
#[derive(Deserialize, garde::Validate, validator::Validate, Debug)]
struct DfRoot1 {
    #[garde(dive)]
    #[validate(nested)]
    main: DfInner,
}
#[derive(Deserialize, garde::Validate, validator::Validate, Debug)]
struct DfRoot2 {
    #[garde(dive)]
    #[validate(nested)]
    main: DfMid,
}
#[derive(Deserialize, garde::Validate, validator::Validate, Debug)]
struct DfRoot3 {
    #[garde(dive)]
    #[validate(nested)]
    main: DfMid2,
}
fn miette_messages(d: &dyn miette::Diagnostic, out: &mut Vec<String>) {
    out.push(d.to_string());
    if let Some(rel) = d.related() {
        for r in rel {
            miette_messages(r, out);
        }
    }
}
/// The violated field is filled by `#[serde(default)]` (it has no position of its own) or is
/// written in the document (control): the plain rendering and the miette report both name the
/// failed field - "every reported field path ..." is that of the field, whatever position is
/// attached to it.
fn check_defaulted_field(krate: Krate, code: u16) -> Outcome {
    let depth = (code % 3) as usize + 1;
    let lead = ((code / 3) % 3) as usize;
    let written = (code / 9) % 2 == 1;
    let mut text = String::new();
    for i in 0..lead {
        text.push_str(&format!("# lead {i}\n"));
    }
    let chain: &[&str] = match depth {
        1 => &["main"],
        2 => &["main", "inner"],
        _ => &["main", "mid", "inner"],
    };
    for (i, k) in chain.iter().enumerate() {
        text.push_str(&format!("{}{k}:\n", "  ".repeat(i)));
    }
    let ind = "  ".repeat(chain.len());
    text.push_str(&format!("{ind}firstName: okay\n"));
    if written {
        text.push_str(&format!("{ind}ageYears: 0\n"));
    }
    fn run<T: for<'de> Deserialize<'de> + garde::Validate<Context = ()> + validator::Validate + std::fmt::Debug>(krate: Krate, text: &str) -> Option<serde_saphyr::Error> {
        match krate {
            Krate::Garde => serde_saphyr::from_str_valid::<T>(text).err(),
            Krate::Validator => serde_saphyr::from_str_validate::<T>(text).err(),
        }
    }
    let err = match depth {
        1 => run::<DfRoot1>(krate, &text),
        2 => run::<DfRoot2>(krate, &text),
        _ => run::<DfRoot3>(krate, &text),
    };
    let Some(e) = err else {
        return Outcome::Fail(format!("a violated defaulted field is accepted ({krate:?}, text {text:?})"));
    };
    let prefix = chain.join(".");
    let names = [format!("{prefix}.age_years"), format!("{prefix}.ageYears")];
    let plain = e.without_snippet().to_string();
    if !names.iter().any(|n| plain.contains(n.as_str())) {
        return Outcome::Fail(format!("defaulted field ({krate:?}, written {written}): the rendered error does not name the failed field {:?}: {plain:?} (text {text:?})", names[0]));
    }
    let report = serde_saphyr::miette::to_miette_report(&e, &text, "f.yaml");
    let mut msgs = vec![];
    miette_messages(report.as_ref(), &mut msgs);
    if !msgs.iter().any(|m| names.iter().any(|n| m.contains(&format!("`{n}`")))) {
        return Outcome::Fail(format!(
            "defaulted field ({krate:?}, written {written}): no diagnostic of the miette report names the failed field `{}`; messages {msgs:?} (text {text:?})",
            names[0]
        ));
    }
    Outcome::Pass
}

// ---------------- garde path components without a key -----------------------------------------------
#[derive(Deserialize, garde::Validate, Debug)]
struct KlRoot {
    #[garde(inner(length(min = 2)))]
    o: Option<String>,
    #[garde(inner(inner(length(min = 2))))]
    ov: Option<Vec<String>>,
    #[garde(inner(inner(length(min = 2))))]
    vo: Vec<Option<String>>,
}
/// garde describes "the value inside an Option" by a path component without a key (the field of a
/// 1-tuple struct is index 0 for it, and stays unlocated: an observed limitation): the issue is located at the value all the same, and the path that is
/// printed has no empty segment.
fn check_keyless(code: u16) -> Outcome {
    let field = (code % 3) as usize;
    let lead = ((code / 3) % 3) as usize;
    let reader = (code / 9) % 2 == 1;
    let mut text = String::new();
    for i in 0..lead {
        text.push_str(&format!("# lead {i}\n"));
    }
    let bad = |i: usize| if i == field { "x" } else { "okay" };
    text.push_str(&format!("o: {}\n", bad(0)));
    text.push_str(&format!("ov: [okay, {}]\n", bad(1)));
    text.push_str(&format!("vo: [okay, {}]\n", bad(2)));
    let want = match field {
        0 => (lead as u64 + 1, 4u64),
        1 => (lead as u64 + 2, 12),
        _ => (lead as u64 + 3, 12),
    };
    let err = if reader { serde_saphyr::from_reader_valid::<_, KlRoot>(std::io::Cursor::new(text.as_bytes())).err() } else { serde_saphyr::from_str_valid::<KlRoot>(&text).err() };
    let Some(e) = err else {
        return Outcome::Fail(format!("a violated field is accepted (keyless components, text {text:?})"));
    };
    let plain = e.without_snippet().to_string();
    let first = plain.lines().next().unwrap_or("").to_string();
    let got = e.without_snippet().location().map(|l| (l.line(), l.column()));
    if got != Some(want) {
        return Outcome::Fail(format!("garde path with a keyless component (reader {reader}): the issue is located at {got:?}, the violated value is at {want:?}; message {first:?} (text {text:?})"));
    }
    if first.contains(".:") || first.contains(". ") || first.contains(".[") || first.contains(".`") {
        return Outcome::Fail(format!("garde path with a keyless component: the printed path has an empty segment: {first:?} (text {text:?})"));
    }
    Outcome::Pass
}

// ---------------- validator: struct-level (schema) issues --------------------------------------------
fn sl_a_le_b(p: &SlPair) -> Result<(), validator::ValidationError> {
    if p.a > p.b { Err(validator::ValidationError::new("a_gt_b")) } else { Ok(()) }
}
#[derive(Deserialize, validator::Validate, Debug)]
#[validate(schema(function = "sl_a_le_b"))]
struct SlPair {
    a: u32,
    b: u32,
}
#[derive(Deserialize, validator::Validate, Debug)]
struct SlRoot {
    #[validate(nested)]
    pair: SlPair,
    #[serde(default)]
    #[validate(nested)]
    pairs: Vec<SlPair>,
}
/// validator files a struct-level issue under the pseudo-field `__all__`: it is located where the
/// struct is (the position a field-level issue's parent has)
fn check_struct_level(code: u16) -> Outcome {
    let shape = (code % 3) as usize;
    let lead = ((code / 3) % 3) as usize;
    let reader = (code / 9) % 2 == 1;
    let mut text = String::new();
    for i in 0..lead {
        text.push_str(&format!("# lead {i}\n"));
    }
    let l = lead as u64;
    let want = match shape {
        0 => {
            text.push_str("pair: {a: 2, b: 1}\n");
            (l + 1, 7)
        }
        1 => {
            text.push_str("pair:\n  a: 2\n  b: 1\n");
            (l + 2, 3)
        }
        _ => {
            text.push_str("pair: {a: 1, b: 1}\npairs:\n  - {a: 1, b: 2}\n  - {a: 3, b: 1}\n");
            (l + 4, 5)
        }
    };
    let err = if reader { serde_saphyr::from_reader_validate::<_, SlRoot>(std::io::Cursor::new(text.as_bytes())).err() } else { serde_saphyr::from_str_validate::<SlRoot>(&text).err() };
    let Some(e) = err else {
        return Outcome::Fail(format!("a violated struct-level rule is accepted (text {text:?})"));
    };
    let first = e.without_snippet().to_string().lines().next().unwrap_or("").to_string();
    let got = e.without_snippet().location().map(|l| (l.line(), l.column()));
    if got != Some(want) {
        return Outcome::Fail(format!("validator struct-level issue (reader {reader}): located at {got:?}, the struct is at {want:?}; message {first:?} (text {text:?})"));
    }
    Outcome::Pass
}

/// `n` copies of one small document, produced on the fly
struct Repeat {
    unit: &'static [u8],
    left: usize,
    pos: usize,
}
impl std::io::Read for Repeat {
    fn read(&mut self, buf: &mut [u8]) -> std::io::Result<usize> {
        let mut n = 0;
        while n < buf.len() && self.left > 0 {
            let k = (self.unit.len() - self.pos).min(buf.len() - n);
            buf[n..n + k].copy_from_slice(&self.unit[self.pos..self.pos + k]);
            n += k;
            self.pos += k;
            if self.pos == self.unit.len() {
                self.pos = 0;
                self.left -= 1;
            }
        }
        Ok(n)
    }
}
fn check_long_stream(krate: Krate, mib: u32) -> Outcome {
    const UNIT: &[u8] = b"---\na: 123456789\npad: [aaaaaaaaaaaaaaaaaaaaaaaaaaaaaaaaaaaaaaaaaaaaaaaaaaaaaaaaaaaaaaaaaaaaaaaaaaaaaaaaaaaaaaaaaaaaaaaaaaaaaaaaaaaaaaaaaaaaaaaaaaaaaaaaaaaaaaaaaaaaaaaaaaaaaaaaaaaaaaaaaaaaaaaaaaaaaaaaaaaaaaaaaaaaaaaaaaaaaaaaaaaaaaaaaaaaaaaaaaaaaaaaaaaaaaaaaaaaaa]\n";
    let n = (mib as usize) * (1 << 20) / UNIT.len() + 1;
    let count = |r: &mut dyn Iterator<Item = Result<LongDoc, serde_saphyr::Error>>| -> (usize, Option<String>) {
        let mut ok = 0usize;
        for item in r {
            match item {
                Ok(_) => ok += 1,
                Err(e) => return (ok, Some(e.without_snippet().to_string())),
            }
        }
        (ok, None)
    };
    let mut plain_rd = Repeat { unit: UNIT, left: n, pos: 0 };
    let plain = count(&mut serde_saphyr::read::<_, LongDoc>(&mut plain_rd));
    let mut rd = Repeat { unit: UNIT, left: n, pos: 0 };
    let valid = match krate {
        Krate::Garde => count(&mut serde_saphyr::read_valid::<_, LongDoc>(&mut rd)),
        Krate::Validator => count(&mut serde_saphyr::read_validate::<_, LongDoc>(&mut rd)),
    };
    if plain != (n, None) {
        return Outcome::Discard("plain iterator does not read the long stream");
    }
    if valid != plain {
        return Outcome::Fail(format!(
            "a stream of {n} valid documents ({mib} MiB): read yields {} items, the validating iterator ({krate:?}) {} items and then {:?}",
            plain.0, valid.0, valid.1
        ));
    }
    Outcome::Pass
}

struct C18;

const COLLIDE_KEYS: [&str; 12] = ["alpha", "Alpha", "ALPHA", "a_b", "a-b", "aB", "ab", "ключ", "日本", "é1", "É1", "k1"];

fn count_classes(m: &RefCell<BTreeMap<String, u64>>, c: &Case) -> bool {
    let f = features(c);
    let mut m = m.borrow_mut();
    let mut add = |k: &str, n: usize| {
        if n > 0 {
            *m.entry(k.to_string()).or_insert(0) += 1;
        }
    };
    add("case: no violation", (f.viol == 0) as usize);
    add("case: every leaf violated", (f.viol == f.leaves && f.viol > 0) as usize);
    add("case: >=1 violation through a scalar alias", f.alias);
    add("case: >=1 violation through a merge", f.merge);
    add("case: >=1 violation inside a mapping used through an alias", f.whole);
    add("case: >=1 violated field overriding a merged value", f.over);
    add("case: >=1 violation at/under a renamed field", f.renamed);
    add("case: >=1 violation under a sequence index", f.seq_idx);
    add("case: >=1 violation under a map key", f.map_key);
    add("case: >=1 violation under a map key with a documented-ambiguous sibling", f.amb);
    add("case: stream with >=2 failing documents", (f.failing_docs >= 2) as usize);
    add("case: stream with failing and passing documents", (f.failing_docs >= 1 && f.failing_docs < f.docs) as usize);
    add(&format!("entry point {:?}/{:?}", c.ep, c.krate), 1);
    add(&format!("documents per case: {}", f.docs), 1);
    add("layout: CRLF", c.layout.crlf as usize);
    f.alias + f.merge + f.whole + f.renamed + f.seq_idx > 0
}

impl Property for C18 {
    const ID: &'static str = "C18";
    type Case = Case;
    fn rule() -> String {
        "cases = (validation crate, entry point, options for the *_with_options_* entry points, layout, 1 document or a stream of 1-4 documents); a document is a description of a value of the fixed type family Root{camelCase: shortName, maxCount, type (raw identifier), abC, aBc, netCfg: Net{kebab-case: host-name, port-no, back-ups: [Item]}, items: [Item], byName: BTreeMap<String, Item>}, Item{label, weight, tags: [String]} giving for every leaf its value (satisfying or violating its length/range constraint) and how it is supplied (directly, directly with an anchor, alias to a scalar anchored in a pool, through `<<: *base`, overriding a merged value, through a merge whose base entry is an alias, through a merged mapping written in place - as a scalar, as an alias inside it, or inside a container that it supplies), whether an Item is used through an alias to a whole anchored mapping, block/flow style per container, comments with multi-byte text, CRLF, indentation, document markers. The harness renders the YAML and records the line/column of every value token. Oracle: see report-C18.md (result == plain entry point when nothing is violated; otherwise the reported path set == violated constraints evaluated on the plain value, use site and definition site of every issue == ground truth, observed through a recording Localizer in plain and snippet rendering and through Error::location()/locations(); every failing document of a stream is reported). Non-trivial: >= 1 violated constraint reached through an alias, a merge, a renamed field (or below one) or a sequence index. distinct = distinct case descriptions. Sub-check defaulted-field: a violated field filled by its serde default (nesting depth 1-3) is named by the plain and by the miette rendering. Sub-check keyless-components: garde issues whose path has a component without a key (inside an Option) are located at the value and printed without an empty segment. Sub-check struct-level: a validator schema rule on a nested struct is located at the struct. Sub-check long-stream: 260 MiB of small valid documents through read and through the validating iterator of each crate give the same items (no input-size cap in either).".into()
    }
    fn assumptions() -> Vec<String> {
        vec![
            "for a value that arrives through a merge or inside a mapping used through an alias the documentation does not fix the use site: the alias token, an alias inside the base and the original scalar are all accepted; the definition site must be the original scalar".into(),
            "validator reports entries of a map by iteration index, which cannot be related to a YAML position: no location is required there (if one is given it must be right)".into(),
            "map keys that differ only in case / separators below a renamed field are documented as ambiguous by path_map.rs: no location is required (if one is given it must be right)".into(),
            "the empty string is only written directly (an anchored empty quoted scalar is a known C02 finding)".into(),
            "documents always end with a line break and no line starts with `%` (known reader hang, C01)".into(),
            "reader entry points carry no snippet: the definition site is only observable for the first issue (Error::locations())".into(),
        ]
    }
    fn check(c: &Case) -> Outcome {
        if c.long_mib > 0 {
            return check_long_stream(c.krate, c.long_mib);
        }
        if c.root_seq > 300 {
            return check_struct_level(c.root_seq - 301);
        }
        if c.root_seq > 200 {
            return check_keyless(c.root_seq - 201);
        }
        if c.root_seq > 100 {
            return check_defaulted_field(c.krate, c.root_seq - 101);
        }
        if c.root_seq > 0 {
            return check_root_seq(c.krate, c.root_seq - 1);
        }
        match check_case(c) {
            Verdict::Pass => Outcome::Pass,
            Verdict::Fail(m) => Outcome::Fail(m),
            Verdict::Discard(w) => Outcome::Discard(w),
        }
    }
    fn signatures(c: &Case) -> Vec<&'static str> {
        signatures_of(c)
    }
    fn shrink(c: &Case) -> Vec<Case> {
        shrink_case(c)
    }
    fn selfcheck() -> Result<(), String> {
        // the harness' evaluator and the two crates agree on a document that violates everything
        let mut d = base_doc();
        for i in 0..n_leaves(&d) {
            violate(&mut d, i, &How::Direct);
        }
        let c = Case { krate: Krate::Garde, ep: Ep::Str, opt: OptV::Default, layout: base_layout(), docs: vec![d], strict: true, long_mib: 0, root_seq: 0 };
        let r = render(&c);
        for k in [Krate::Garde, Krate::Validator] {
            let a: BTreeSet<String> = violations(&r.docs[0].model, k).iter().map(|s| strip_raw(s)).collect();
            let b: BTreeSet<String> = crate_violations(&r.docs[0].model, k).iter().map(|s| strip_raw(s)).collect();
            if a != b || a.is_empty() {
                return Err(format!("{k:?}: evaluator {a:?} vs crate {b:?}"));
            }
        }
        let back: Root = serde_saphyr::from_str(&r.text).map_err(|e| format!("base document does not parse: {e}"))?;
        if back != r.docs[0].model {
            return Err("base document does not read back as its model".into());
        }
        Ok(())
    }
    /// libFuzzer input: crate, entry point, options, layout, then 1-4 document descriptions
    /// (leaves pick values from the same pools as the random tier; one in four violates)
    fn fuzz_decode(data: &[u8]) -> Option<(&'static str, Case, bool)> {
        let mut b = engine::Bytes::new(data);
        let krate = b.pick(&[Krate::Garde, Krate::Validator]);
        let ep = b.pick(&EPS);
        let opt = b.pick(&[OptV::Default, OptV::Default, OptV::NoSnippet, OptV::Crop8, OptV::Crop0]);
        let f = b.u8();
        let layout = Layout { crlf: f & 3 == 0, step: if f & 4 != 0 { 4 } else { 2 }, seq_indent: f & 8 != 0, cmt_every: [0u8, 0, 2, 3, 5][(f >> 4) as usize % 5], blank: b.below(5) == 0 };
        let strict = b.bool();
        let collide = b.below(5) == 0;
        let keys: &[&str] = if collide { &COLLIDE_KEYS } else { &KEYS };
        let n = if ep.stream() { 1 + b.below(4) } else { 1 };
        let docs = (0..n).map(|_| doc_b(&mut b, keys)).collect();
        let c = Case { krate, ep, opt, layout, docs, strict, long_mib: 0, root_seq: 0 };
        let nt = count_classes(&RefCell::new(BTreeMap::new()), &c);
        Some(("fuzz-documents", c, nt))
    }
    fn generate(ctx: &mut Ctx<Self>) {
        // --- a stream longer than the default input cap of the single-document entry points:
        // `read` has no such cap, so the validating iterators must not have one either
        for (i, krate) in [Krate::Garde, Krate::Validator].into_iter().enumerate() {
            if ctx.mine(3 + 5 * i as u64) {
                let c = Case { krate, ep: Ep::Str, opt: OptV::Default, layout: base_layout(), docs: vec![], strict: true, long_mib: 260, root_seq: 0 };
                ctx.case("long-stream", &c, true);
            }
        }
        ctx.subspace("streams of 260 MiB of small valid documents x 2 validation crates", 2, true);
        // --- the root of the document is a sequence of structs
        for krate in [Krate::Garde, Krate::Validator] {
            for code in 0..36u16 {
                if ctx.mine(7 + code as u64) {
                    let c = Case { krate, ep: Ep::Str, opt: OptV::Default, layout: base_layout(), docs: vec![], strict: true, long_mib: 0, root_seq: code + 1 };
                    ctx.case("root-sequence", &c, true);
                }
            }
        }
        ctx.subspace("root sequence of 3 structs x violated item x violated field x 0-2 leading lines x str / reader x 2 crates", 72, true);
        // --- a violated field that is filled by its serde default (no position of its own)
        for krate in [Krate::Garde, Krate::Validator] {
            for code in 0..18u16 {
                if ctx.mine(11 + code as u64) {
                    let c = Case { krate, ep: Ep::Str, opt: OptV::Default, layout: base_layout(), docs: vec![], strict: true, long_mib: 0, root_seq: 101 + code };
                    ctx.case("defaulted-field", &c, true);
                }
            }
        }
        ctx.subspace("violated field filled by its serde default / written x nesting depth 1-3 x 0-2 leading lines x 2 crates, plain and miette rendering", 36, true);
        // --- garde path components without a key (inside an Option)
        for code in 0..18u16 {
            if ctx.mine(13 + code as u64) {
                let c = Case { krate: Krate::Garde, ep: Ep::Str, opt: OptV::Default, layout: base_layout(), docs: vec![], strict: true, long_mib: 0, root_seq: 201 + code };
                ctx.case("keyless-components", &c, true);
            }
        }
        ctx.subspace("garde inner rules on Option / Option<Vec> / Vec<Option> x 0-2 leading lines x str / reader", 18, true);
        // --- validator: struct-level (schema) issues
        for code in 0..18u16 {
            if ctx.mine(17 + code as u64) {
                let c = Case { krate: Krate::Validator, ep: Ep::Str, opt: OptV::Default, layout: base_layout(), docs: vec![], strict: true, long_mib: 0, root_seq: 301 + code };
                ctx.case("struct-level", &c, true);
            }
        }
        ctx.subspace("validator schema rule on a nested struct (flow, block, sequence element) x 0-2 leading lines x str / reader", 18, true);
        let classes: RefCell<BTreeMap<String, u64>> = RefCell::new(BTreeMap::new());
        // --- enumerated: one violated leaf of a fixed document x supply x entry point x crate x style
        let base = base_doc();
        let nl = n_leaves(&base);
        let hows = [How::Direct, How::Anchored, How::Alias, How::Merge, How::MergeOver, How::MergeAlias, How::MergeInline, How::MergeInlineAlias];
        let mut idx = 0u64;
        for leaf in 0..nl {
            for how in &hows {
                for ep in EPS {
                    for krate in [Krate::Garde, Krate::Validator] {
                        for style in 0..3u8 {
                            idx += 1;
                            if !ctx.mine(idx) {
                                continue;
                            }
                            let mut d = base.clone();
                            violate(&mut d, leaf, how);
                            match style {
                                1 => {
                                    d.items_flow = true;
                                    d.map_flow = true;
                                    d.net.flow = true;
                                    d.defs_flow = true;
                                }
                                2 => {
                                    d.items[0].whole = true;
                                    d.by_name[1].1.whole = true;
                                    d.net.back_ups[0].whole = true;
                                    d.rot = 3;
                                }
                                _ => {}
                            }
                            let mut docs = vec![d];
                            if ep.stream() {
                                // a passing document before and a second failing one after
                                let mut d2 = base.clone();
                                violate(&mut d2, (leaf + 7) % nl, how);
                                docs.insert(0, base.clone());
                                docs.push(d2);
                            }
                            let mut layout = base_layout();
                            layout.crlf = leaf % 2 == 1;
                            layout.cmt_every = (style * 2) % 5;
                            let c = Case { krate, ep, opt: OptV::Default, layout, docs, strict: true, long_mib: 0, root_seq: 0 };
                            let nt = count_classes(&classes, &c);
                            ctx.case("one-violated-leaf", &c, nt);
                        }
                    }
                }
            }
        }
        ctx.subspace("fixed document: violated leaf x supply x entry point x crate x 3 styles", idx, true);
        // --- enumerated: pairs of violated leaves
        let mut idx = 0u64;
        for a in 0..nl {
            for b in (a + 1)..nl {
                idx += 1;
                if !ctx.mine(idx) {
                    continue;
                }
                let mut d = base.clone();
                violate(&mut d, a, &hows[(a + b) % 6]);
                violate(&mut d, b, &hows[(a * 3 + b) % 6]);
                d.rot = (a % 8) as u8;
                let ep = EPS[(a + 2 * b) % 7];
                let krate = if (a + b) % 2 == 0 { Krate::Garde } else { Krate::Validator };
                let docs = if ep.stream() { vec![d.clone(), base.clone(), d] } else { vec![d] };
                let c = Case { krate, ep, opt: OptV::Default, layout: base_layout(), docs, strict: true, long_mib: 0, root_seq: 0 };
                let nt = count_classes(&classes, &c);
                ctx.case("two-violated-leaves", &c, nt);
                if !signatures_of(&c).is_empty() {
                    // behind an open finding: everything except the snippet-presence demand
                    let c = Case { strict: false, ..c };
                    ctx.case("two-violated-leaves", &c, nt);
                }
            }
        }
        ctx.subspace("fixed document: pairs of violated leaves (rotating supply / entry point / crate)", idx, true);
        // --- random documents
        let singles = vec![Ep::Str, Ep::StrOpt, Ep::Slice, Ep::Reader];
        let streams = vec![Ep::Multiple, Ep::SliceMultipleOpt, Ep::Read];
        let keys: &'static [&'static str] = &KEYS;
        let classes = std::rc::Rc::new(classes);
        let classes2 = classes.clone();
        let nt = move |c: &Case| count_classes(&classes2, c);
        ctx.run_strategy("random-single", 1, ctx.tier.pick(6_500, 150_000), &case_s(singles, keys, vec![0, 6, 6, 20, 20, 100]), nt.clone());
        ctx.run_strategy("random-stream", 2, ctx.tier.pick(3_600, 80_000), &case_s(streams, keys, vec![0, 6, 20, 20, 50, 100]), nt.clone());
        let coll: &'static [&'static str] = &COLLIDE_KEYS;
        ctx.run_strategy("random-colliding-keys", 3, ctx.tier.pick(2_200, 50_000), &case_s(EPS.to_vec(), coll, vec![30, 60, 100]), nt);
        for (k, v) in classes.take() {
            ctx.class_n(&k, v);
        }
    }
}

fn signatures_of(c0: &Case) -> Vec<&'static str> {
    if c0.long_mib > 0 || c0.root_seq > 0 {
        return vec![];
    }
    let c = norm(c0);
    let mut out = vec![];
    // open finding "snippet region off by one": a cropped region claims to cover the (phantom)
    // line after its last line break, so an issue exactly 3 lines below another issue's use or
    // definition site is rendered from the wrong region and loses its snippet. Only string entry
    // points with snippets; the order of the issues is not known for validator, hence any pair.
    let r = render(&c);
    // open finding "non-ASCII map keys": the tokenised / collapsed comparison of path_map.rs drops
    // every non-ASCII character, so two sibling keys that differ only in such characters make the
    // lookup ambiguous (below a renamed field, where the exact lookup does not apply)
    if c.krate == Krate::Garde {
        for d in &r.docs {
            let v: BTreeSet<String> = violations(&d.model, c.krate).iter().map(|s| strip_raw(s)).collect();
            if d.truths.iter().any(|t| t.amb_na && v.contains(&strip_raw(&t.gpath))) {
                out.push("nonascii_map_keys");
                break;
            }
        }
    }
    if c.strict && !c.ep.reader() && c.opt.snippets() {
        'docs: for d in &r.docs {
            let v: BTreeSet<String> = violations(&d.model, c.krate).iter().map(|s| strip_raw(s)).collect();
            let bad: Vec<&Truth> = d
                .truths
                .iter()
                .filter(|t| !(t.garde_only && c.krate == Krate::Validator))
                .filter(|t| v.contains(&strip_raw(if c.krate == Krate::Garde { &t.gpath } else { &t.vpath })))
                .collect();
            for (i, a) in bad.iter().enumerate() {
                for (j, b) in bad.iter().enumerate() {
                    if i == j {
                        continue;
                    }
                    let ap = a.ref_ok.iter().chain(a.def_ok.iter());
                    for p in ap {
                        if b.ref_ok.iter().chain(b.def_ok.iter()).any(|q| q.line == p.line + 3) {
                            out.push("snippet_region_off_by_one");
                            break 'docs;
                        }
                    }
                }
            }
        }
    }
    out
}

fn shrink_case(c0: &Case) -> Vec<Case> {
    if c0.root_seq > 0 {
        return vec![];
    }
    if c0.long_mib > 0 {
        return if c0.long_mib > 257 { vec![Case { long_mib: 257, ..c0.clone() }] } else { vec![] };
    }
    let c = norm(c0);
    let mut out: Vec<Case> = vec![];
    let mut push = |x: Case| {
        if x != c {
            out.push(x);
        }
    };
    // fewer documents
    if c.docs.len() > 1 {
        for i in 0..c.docs.len() {
            let mut x = c.clone();
            x.docs.remove(i);
            push(x);
        }
    }
    // simpler frame
    let mut x = c.clone();
    x.layout = base_layout();
    push(x);
    if c.opt != OptV::Default {
        let mut x = c.clone();
        x.opt = OptV::Default;
        push(x);
    }
    for di in 0..c.docs.len() {
        let d = &c.docs[di];
        for i in 0..d.items.len() {
            let mut x = c.clone();
            x.docs[di].items.remove(i);
            push(x);
        }
        for i in 0..d.by_name.len() {
            let mut x = c.clone();
            x.docs[di].by_name.remove(i);
            push(x);
        }
        for i in 0..d.net.back_ups.len() {
            let mut x = c.clone();
            x.docs[di].net.back_ups.remove(i);
            push(x);
        }
        // drop tags, un-alias whole items, block style
        let mut x = c.clone();
        {
            let d = &mut x.docs[di];
            for it in d.items.iter_mut().chain(d.net.back_ups.iter_mut()).chain(d.by_name.iter_mut().map(|(_, v)| v)) {
                it.tags.clear();
            }
        }
        push(x);
        let mut x = c.clone();
        {
            let d = &mut x.docs[di];
            for it in d.items.iter_mut().chain(d.net.back_ups.iter_mut()).chain(d.by_name.iter_mut().map(|(_, v)| v)) {
                it.whole = false;
                it.flow = false;
                it.tags_flow = false;
                it.merge_at = 0;
            }
            d.items_flow = false;
            d.map_flow = false;
            d.defs_flow = false;
            d.net.flow = false;
            d.net.seq_flow = false;
            d.net.merge_at = 0;
            d.merge_at = 0;
            d.rot = 0;
            d.start_marker = false;
            d.end_marker = false;
            d.lead = 0;
        }
        push(x);
        // leaves: supplied directly / satisfying value
        let n = n_leaves(d);
        for li in 0..n {
            for what in 0..3 {
                let mut x = c.clone();
                let mut i = 0;
                doc_leaves(&mut x.docs[di], &mut |l| {
                    if i == li {
                        match l {
                            LeafMut::S(s, cons, _) => match what {
                                0 => {
                                    s.v = if sbad("ok", cons) { "a".into() } else { "ok".into() };
                                }
                                1 => s.how = How::Direct,
                                _ => {
                                    s.sty = 0;
                                    s.cmt = false;
                                }
                            },
                            LeafMut::N(nn, cons) => match what {
                                0 => nn.v = if nbad(5, cons) { 1 } else { 5 },
                                1 => nn.how = How::Direct,
                                _ => nn.cmt = false,
                            },
                        }
                    }
                    i += 1;
                });
                push(x);
            }
        }
    }
    out
}

fn show(path: &str) {
    let s = std::fs::read_to_string(path).expect("read");
    let v: serde_json::Value = serde_json::from_str(&s).expect("json");
    let c: Case = serde_json::from_value(v["case"].clone()).expect("case");
    let c = norm(&c);
    let r = render(&c);
    println!("{:?} {:?} {:?}", c.krate, c.ep, c.opt);
    for (i, l) in r.text.split('\n').enumerate() {
        println!("{:3} | {}", i + 1, l.trim_end_matches('\r'));
    }
    for (i, d) in r.docs.iter().enumerate() {
        let v: BTreeSet<String> = violations(&d.model, c.krate).iter().map(|s| strip_raw(s)).collect();
        println!("doc {i}: expected violations {v:?}");
        for t in &d.truths {
            let key = strip_raw(if c.krate == Krate::Garde { &t.gpath } else { &t.vpath });
            if v.contains(&key) {
                println!("   {key}: use {:?} def {:?} {:?} amb={} amb_na={}", t.ref_ok, t.def_ok, t.via, t.amb, t.amb_na);
            }
        }
    }
    match call_valid(&c, &r.text) {
        VRes::Single(Err(e)) | VRes::Multi(Err(e)) => {
            println!("--- plain rendering\n{}", e.render_with_options({
                let mut o = serde_saphyr::RenderOptions::default();
                o.snippets = SnippetMode::Off;
                o
            }));
            println!("--- default rendering\n{e}");
        }
        VRes::Iter(items) => {
            for (i, it) in items.iter().enumerate() {
                if let Err(e) = it {
                    println!("--- item {i}\n{e}");
                }
            }
        }
        _ => println!("validating entry point returned Ok"),
    }
    if let VRes::Single(Err(e)) = call_valid(&c, &r.text) {
        println!("observed (snippet mode): {:?}", observe(&e, SnippetMode::Auto).0);
        println!("locations(): {:?}", e.locations().map(|l| (lp(l.reference_location), lp(l.defined_location))));
    }
    match check_case(&c) {
        Verdict::Pass => println!("VERDICT: pass"),
        Verdict::Fail(m) => println!("VERDICT: FAIL {m}"),
        Verdict::Discard(w) => println!("VERDICT: discard ({w})"),
    }
}

/// hand-made cases (witnesses of findings); `c18 mkcase <name>` prints the replay-file JSON
fn named_case(name: &str) -> Option<Case> {
    let mut d = base_doc();
    d.items.clear();
    d.by_name.clear();
    d.net.back_ups.clear();
    let mut c = Case { krate: Krate::Garde, ep: Ep::Str, opt: OptV::Default, layout: base_layout(), docs: vec![], strict: true, long_mib: 0, root_seq: 0 };
    match name {
        "snippet_region_off_by_one" => {
            // port-no on line 4 (reported first) and type on line 7
            d.net.port_no.v = 0;
            d.ty.v = "toolong".into();
        }
        "nonascii_keys" => {
            d.by_name = vec![("ключ".to_string(), base_item("toolong", 1, &[])), ("日本".to_string(), base_item("ok", 1, &[]))];
        }
        "merge" => {
            d.net.port_no = NLeaf { v: 0, how: How::Merge, cmt: false };
            d.short_name = SLeaf { v: "x".into(), sty: 0, how: How::MergeAlias, cmt: false };
        }
        "whole" => {
            d.items = vec![base_item("toolong", 1, &["abcd"])];
            d.items[0].whole = true;
            d.items[0].weight = NLeaf { v: 11, how: How::Merge, cmt: false };
        }
        _ => return None,
    }
    c.docs.push(d);
    Some(c)
}

fn main() {
    let args: Vec<String> = std::env::args().collect();
    if args.get(1).map(|s| s.as_str()) == Some("mkcase") {
        let c = named_case(&args[2]).expect("unknown case name");
        println!("{}", serde_json::to_string_pretty(&serde_json::json!({"property": "C18", "check": "witness", "case": c})).unwrap());
        return;
    }
    if args.get(1).map(|s| s.as_str()) == Some("show") {
        engine::install_panic_hook();
        show(&args[2]);
        return;
    }
    engine::main::<C18>()
}

/// entry point of the libFuzzer target `fuzz/fuzz_targets/c18.rs`
#[allow(dead_code)]
pub fn fuzz(data: &[u8]) {
    engine::fuzz_one::<C18>(data)
}
