//! C18 – validating entry points agree with the plain ones and locate every failed field.
//!
//! A case is a *description* of one or several documents for the fixed type family below; the
//! harness renders the YAML text itself (pure function of the case) and records the 1-based
//! line/column of every value token, so that the positions reported by the library can be compared
//! with ground truth. See `/verif/notes/report-C18.md`.
use proptest::prelude::*;
use serde::{Deserialize, Serialize};
use serde_saphyr::localizer::Localizer;
use serde_saphyr::{Error, Location, Options, SnippetMode};
use std::borrow::Cow;
use std::cell::RefCell;
use std::collections::{BTreeMap, BTreeSet};
use validator::Validate;
use vcheck::engine::{self, Ctx, Outcome, Property};

// ------------------------------------------------------------------------------------------
// the validated type family (both validation crates on the same types)

/// anything at all (the pool of anchored definitions lives under this field)
#[derive(Debug, Clone, PartialEq, Default)]
struct Ignored;
impl<'de> Deserialize<'de> for Ignored {
    fn deserialize<D: serde::Deserializer<'de>>(d: D) -> Result<Self, D::Error> {
        serde::de::IgnoredAny::deserialize(d).map(|_| Ignored)
    }
}

#[derive(Debug, Clone, PartialEq, Deserialize, garde::Validate, Validate)]
#[serde(rename_all = "camelCase")]
struct Root {
    #[serde(default)]
    #[garde(skip)]
    defs: Ignored,
    #[garde(length(chars, min = 2, max = 6))]
    #[validate(length(min = 2, max = 6))]
    short_name: String,
    #[garde(dive)]
    #[validate(nested)]
    net_cfg: Net,
    #[garde(range(min = 1, max = 100))]
    #[validate(range(min = 1, max = 100))]
    max_count: i64,
    #[garde(dive)]
    #[validate(nested)]
    items: Vec<Item>,
    #[garde(length(chars, max = 3))]
    #[validate(length(max = 3))]
    r#type: String,
    #[garde(dive)]
    #[validate(nested)]
    by_name: BTreeMap<String, Item>,
    #[garde(range(max = 9))]
    #[validate(range(max = 9))]
    ab_c: i64,
    #[garde(range(min = -3))]
    #[validate(range(min = -3))]
    a_bc: i64,
}

#[derive(Debug, Clone, PartialEq, Deserialize, garde::Validate, Validate)]
#[serde(rename_all = "kebab-case")]
struct Net {
    #[garde(length(chars, min = 1, max = 8))]
    #[validate(length(min = 1, max = 8))]
    host_name: String,
    #[garde(range(min = 1, max = 65535))]
    #[validate(range(min = 1, max = 65535))]
    port_no: i64,
    #[serde(default)]
    #[garde(dive)]
    #[validate(nested)]
    back_ups: Vec<Item>,
}

#[derive(Debug, Clone, PartialEq, Deserialize, garde::Validate, Validate)]
struct Item {
    #[garde(length(chars, min = 1, max = 4))]
    #[validate(length(min = 1, max = 4))]
    label: String,
    #[garde(range(min = 0, max = 10))]
    #[validate(range(min = 0, max = 10))]
    weight: i64,
    /// per-element constraint: garde only (validator has no per-element rule for Vec<String>)
    #[serde(default)]
    #[garde(inner(length(chars, max = 3)))]
    tags: Vec<String>,
}

// constraint table used by the harness' own evaluator (kept in step with the attributes above;
// `selfcheck` and every `check` compare the evaluator with the crates' own `validate()`)
const SHORT_NAME: (usize, usize) = (2, 6);
const TYPE_: (usize, usize) = (0, 3);
const HOST_NAME: (usize, usize) = (1, 8);
const LABEL: (usize, usize) = (1, 4);
const TAG: (usize, usize) = (0, 3);
const MAX_COUNT: (i64, i64) = (1, 100);
const AB_C: (i64, i64) = (i64::MIN, 9);
const A_BC: (i64, i64) = (-3, i64::MAX);
const PORT_NO: (i64, i64) = (1, 65535);
const WEIGHT: (i64, i64) = (0, 10);

fn sbad(s: &str, c: (usize, usize)) -> bool {
    let n = s.chars().count();
    n < c.0 || n > c.1
}
fn nbad(v: i64, c: (i64, i64)) -> bool {
    v < c.0 || v > c.1
}

#[derive(Clone, Copy, Debug, Serialize, Deserialize, PartialEq, Eq, PartialOrd, Ord)]
enum Krate {
    Garde,
    Validator,
}

/// Violated paths in the validation crate's own path syntax with Rust field names
/// (`net_cfg.back_ups[1].weight`; map entries: garde `by_name.<key>.label`, validator
/// `by_name[<iteration index>].label`).
fn violations(r: &Root, k: Krate) -> BTreeSet<String> {
    let mut out = BTreeSet::new();
    let mut add = |bad: bool, p: String| {
        if bad {
            out.insert(p);
        }
    };
    add(sbad(&r.short_name, SHORT_NAME), "short_name".into());
    add(nbad(r.max_count, MAX_COUNT), "max_count".into());
    add(sbad(&r.r#type, TYPE_), "r#type".into());
    add(nbad(r.ab_c, AB_C), "ab_c".into());
    add(nbad(r.a_bc, A_BC), "a_bc".into());
    add(sbad(&r.net_cfg.host_name, HOST_NAME), "net_cfg.host_name".into());
    add(nbad(r.net_cfg.port_no, PORT_NO), "net_cfg.port_no".into());
    let mut item = |it: &Item, pre: String| {
        add(sbad(&it.label, LABEL), format!("{pre}.label"));
        add(nbad(it.weight, WEIGHT), format!("{pre}.weight"));
        if k == Krate::Garde {
            for (j, t) in it.tags.iter().enumerate() {
                add(sbad(t, TAG), format!("{pre}.tags[{j}]"));
            }
        }
    };
    for (i, it) in r.net_cfg.back_ups.iter().enumerate() {
        item(it, format!("net_cfg.back_ups[{i}]"));
    }
    for (i, it) in r.items.iter().enumerate() {
        item(it, format!("items[{i}]"));
    }
    for (i, (key, it)) in r.by_name.iter().enumerate() {
        match k {
            Krate::Garde => item(it, format!("by_name.{key}")),
            Krate::Validator => item(it, format!("by_name[{i}]")),
        }
    }
    out
}

/// the crate's own verdict on a value, as a set of path strings in the same syntax
fn crate_violations(r: &Root, k: Krate) -> BTreeSet<String> {
    let mut out = BTreeSet::new();
    match k {
        Krate::Garde => {
            if let Err(rep) = garde::Validate::validate(r) {
                for (p, _) in rep.iter() {
                    out.insert(p.to_string());
                }
            }
        }
        Krate::Validator => {
            fn walk(e: &validator::ValidationErrors, pre: &str, out: &mut BTreeSet<String>) {
                for (f, kind) in e.errors() {
                    let p = if pre.is_empty() { f.to_string() } else { format!("{pre}.{f}") };
                    match kind {
                        validator::ValidationErrorsKind::Field(_) => {
                            out.insert(p);
                        }
                        validator::ValidationErrorsKind::Struct(inner) => walk(inner, &p, out),
                        validator::ValidationErrorsKind::List(l) => {
                            for (i, inner) in l {
                                walk(inner, &format!("{p}[{i}]"), out);
                            }
                        }
                    }
                }
            }
            if let Err(e) = Validate::validate(r) {
                walk(&e, "", &mut out);
            }
        }
    }
    out
}

/// validator names a raw-identifier field without the `r#` prefix, garde with it
fn strip_raw(p: &str) -> String {
    p.replace("r#", "")
}

// ------------------------------------------------------------------------------------------
// case description

/// how a leaf value is supplied
#[derive(Clone, Debug, Serialize, Deserialize, PartialEq, Eq)]
enum How {
    /// the scalar is written at the use site
    Direct,
    /// written at the use site and carrying an (unused) anchor
    Anchored,
    /// `*sN`: alias to a scalar anchored earlier in the `defs` pool
    Alias,
    /// comes out of `<<: *bN` (base mapping anchored in the pool)
    Merge,
    /// present in the merged base with another value *and* written explicitly (explicit wins)
    MergeOver,
    /// comes out of `<<: *bN` where the base entry itself is an alias `*sN`
    MergeAlias,
}

#[derive(Clone, Debug, Serialize, Deserialize, PartialEq)]
struct SLeaf {
    v: String,
    /// 0 plain (when safe), 1 single-quoted, 2 double-quoted
    sty: u8,
    how: How,
    /// trailing comment after the token (block context only)
    cmt: bool,
}
#[derive(Clone, Debug, Serialize, Deserialize, PartialEq)]
struct NLeaf {
    v: i64,
    how: How,
    cmt: bool,
}

#[derive(Clone, Debug, Serialize, Deserialize, PartialEq)]
struct ItemD {
    label: SLeaf,
    weight: NLeaf,
    tags: Vec<SLeaf>,
    flow: bool,
    tags_flow: bool,
    /// the whole mapping is anchored in the pool and used here as `*iN`
    whole: bool,
    /// position of the `<<` entry among the explicit entries
    merge_at: u8,
}
#[derive(Clone, Debug, Serialize, Deserialize, PartialEq)]
struct NetD {
    host_name: SLeaf,
    port_no: NLeaf,
    back_ups: Vec<ItemD>,
    flow: bool,
    seq_flow: bool,
    merge_at: u8,
}
#[derive(Clone, Debug, Serialize, Deserialize, PartialEq)]
struct DocD {
    short_name: SLeaf,
    max_count: NLeaf,
    ty: SLeaf,
    ab_c: NLeaf,
    a_bc: NLeaf,
    net: NetD,
    items: Vec<ItemD>,
    items_flow: bool,
    by_name: Vec<(String, ItemD)>,
    map_flow: bool,
    defs_flow: bool,
    merge_at: u8,
    /// rotation of the root's field order (after `defs`)
    rot: u8,
    /// `---` before the document (always written for documents after the first)
    start_marker: bool,
    /// `...` after the document
    end_marker: bool,
    /// number of comment lines before the first key
    lead: u8,
}
#[derive(Clone, Debug, Serialize, Deserialize, PartialEq)]
struct Layout {
    crlf: bool,
    /// indentation step 2 or 4
    step: u8,
    /// block sequences under a key are indented (true) or start at the key's column
    seq_indent: bool,
    /// a full-line comment before every n-th block entry (0 = none)
    cmt_every: u8,
    /// blank line before the root's entries
    blank: bool,
}
#[derive(Clone, Copy, Debug, Serialize, Deserialize, PartialEq, Eq, PartialOrd, Ord)]
enum Ep {
    Str,
    StrOpt,
    Slice,
    Reader,
    Multiple,
    SliceMultipleOpt,
    Read,
}
const EPS: [Ep; 7] = [Ep::Str, Ep::StrOpt, Ep::Slice, Ep::Reader, Ep::Multiple, Ep::SliceMultipleOpt, Ep::Read];
impl Ep {
    fn stream(self) -> bool {
        matches!(self, Ep::Multiple | Ep::SliceMultipleOpt | Ep::Read)
    }
    fn reader(self) -> bool {
        matches!(self, Ep::Reader | Ep::Read)
    }
    fn with_options(self) -> bool {
        matches!(self, Ep::StrOpt | Ep::SliceMultipleOpt)
    }
}
/// options for the `*_with_options_*` entry points
#[derive(Clone, Copy, Debug, Serialize, Deserialize, PartialEq, Eq)]
enum OptV {
    Default,
    NoSnippet,
    Crop8,
    Crop0,
}
impl OptV {
    fn build(self) -> Options {
        let mut o = Options::default();
        match self {
            OptV::Default => {}
            OptV::NoSnippet => o.with_snippet = false,
            OptV::Crop8 => o.crop_radius = 8,
            OptV::Crop0 => o.crop_radius = 0,
        }
        o
    }
    fn snippets(self) -> bool {
        matches!(self, OptV::Default | OptV::Crop8)
    }
}
#[derive(Clone, Debug, Serialize, Deserialize, PartialEq)]
struct Case {
    krate: Krate,
    ep: Ep,
    opt: OptV,
    layout: Layout,
    docs: Vec<DocD>,
}

// ------------------------------------------------------------------------------------------
// normalisation of a case (replay files may hold anything; the generator output is already normal)

fn norm_tag_how(h: &How) -> How {
    match h {
        How::Direct | How::Anchored | How::Alias => h.clone(),
        _ => How::Direct,
    }
}
fn norm_s(l: &mut SLeaf) {
    // an anchored / aliased / merged empty string is outside this property (C02 finding: an
    // anchored empty quoted scalar replays as null) – the empty string is only written directly
    if l.v.is_empty() {
        l.how = How::Direct;
    }
    if l.v.chars().count() > 40 {
        l.v = l.v.chars().take(40).collect();
    }
    l.sty %= 3;
}
fn norm_item(it: &mut ItemD) {
    norm_s(&mut it.label);
    it.tags.truncate(4);
    for t in it.tags.iter_mut() {
        t.how = norm_tag_how(&t.how);
        norm_s(t);
    }
    if it.whole && (it.label.v.is_empty() || it.tags.iter().any(|t| t.v.is_empty())) {
        it.whole = false;
    }
}
fn norm(c: &Case) -> Case {
    let mut c = c.clone();
    if c.docs.is_empty() {
        c.docs.push(base_doc());
    }
    c.docs.truncate(if c.ep.stream() { 4 } else { 1 });
    if !c.ep.with_options() {
        c.opt = OptV::Default;
    }
    c.layout.step = if c.layout.step == 4 { 4 } else { 2 };
    c.layout.cmt_every %= 6;
    for d in c.docs.iter_mut() {
        norm_s(&mut d.short_name);
        norm_s(&mut d.ty);
        norm_s(&mut d.net.host_name);
        d.net.back_ups.truncate(3);
        d.items.truncate(5);
        d.by_name.truncate(5);
        d.lead %= 4;
        for it in d.net.back_ups.iter_mut().chain(d.items.iter_mut()) {
            norm_item(it);
        }
        let mut seen = BTreeSet::new();
        let mut keep = vec![];
        for (k, mut it) in std::mem::take(&mut d.by_name) {
            let k = if k.is_empty() || k == "<<" || k.chars().count() > 20 { "k".to_string() } else { k };
            if seen.insert(k.clone()) {
                norm_item(&mut it);
                keep.push((k, it));
            }
        }
        d.by_name = keep;
    }
    c
}

// ------------------------------------------------------------------------------------------
// YAML rendering with ground-truth positions

#[derive(Clone, Copy, Debug, PartialEq, Eq, PartialOrd, Ord)]
struct Pos {
    line: u64,
    col: u64,
}
impl std::fmt::Display for Pos {
    fn fmt(&self, f: &mut std::fmt::Formatter<'_>) -> std::fmt::Result {
        write!(f, "{}:{}", self.line, self.col)
    }
}

enum N {
    Sc { tok: String, anchor: Option<String>, mark: Option<usize>, cmt: bool },
    Al { name: String, mark: Option<usize>, cmt: bool },
    Map { ents: Vec<(String, N)>, anchor: Option<String>, flow: bool },
    Seq { items: Vec<N>, anchor: Option<String>, flow: bool },
}

const RESERVED: [&str; 14] = ["null", "true", "false", "yes", "no", "on", "off", "y", "n", "nan", "inf", "~", "-", "<<"];
fn plain_safe(v: &str) -> bool {
    if v.is_empty() || v.starts_with(' ') || v.ends_with(' ') {
        return false;
    }
    if RESERVED.contains(&v.to_ascii_lowercase().as_str()) {
        return false;
    }
    let first = v.chars().next().unwrap();
    if !(first.is_alphanumeric() || first as u32 >= 0x1F300) {
        return false;
    }
    v.chars().all(|ch| ch.is_alphanumeric() || ch == ' ' || ch == '_' || ch == '-' || ch as u32 >= 0x1F300)
        && !v.contains("  ")
        && !v.contains(" -")
}
fn dq(v: &str) -> String {
    let mut s = String::from("\"");
    for ch in v.chars() {
        match ch {
            '"' => s.push_str("\\\""),
            '\\' => s.push_str("\\\\"),
            '\n' => s.push_str("\\n"),
            '\r' => s.push_str("\\r"),
            '\t' => s.push_str("\\t"),
            c if (c as u32) < 0x20 || c as u32 == 0x7f => s.push_str(&format!("\\x{:02x}", c as u32)),
            c if (0x80..0xa0).contains(&(c as u32)) || c == '\u{2028}' || c == '\u{2029}' || c == '\u{feff}' => {
                s.push_str(&format!("\\u{:04x}", c as u32))
            }
            c => s.push(c),
        }
    }
    s.push('"');
    s
}
fn sq_ok(v: &str) -> bool {
    !v.contains('\'') && v.chars().all(|c| (c as u32) >= 0x20 && c as u32 != 0x7f && !(0x80..0xa0).contains(&(c as u32)) && c != '\u{2028}' && c != '\u{2029}' && c != '\u{feff}')
}
fn str_tok(v: &str, sty: u8) -> String {
    match sty % 3 {
        0 if plain_safe(v) => v.to_string(),
        1 if sq_ok(v) => format!("'{v}'"),
        _ => dq(v),
    }
}
fn key_tok(k: &str) -> String {
    if k == "<<" || plain_safe(k) { k.to_string() } else { dq(k) }
}

struct W<'a> {
    out: String,
    line: u64,
    col: u64,
    lay: &'a Layout,
    marks: Vec<Option<Pos>>,
    ent: u32,
}
impl<'a> W<'a> {
    fn put(&mut self, s: &str) {
        self.out.push_str(s);
        self.col += s.chars().count() as u64;
    }
    fn nl(&mut self) {
        self.out.push_str(if self.lay.crlf { "\r\n" } else { "\n" });
        self.line += 1;
        self.col = 1;
    }
    fn sp(&mut self, n: usize) {
        for _ in 0..n {
            self.put(" ");
        }
    }
    fn mark(&mut self, m: &Option<usize>) {
        if let Some(m) = m {
            if self.marks.len() <= *m {
                self.marks.resize(*m + 1, None);
            }
            self.marks[*m] = Some(Pos { line: self.line, col: self.col });
        }
    }
    fn comment_line(&mut self, indent: usize) {
        self.sp(indent);
        self.put("# заметка 日本 😀 note");
        self.nl();
    }
    fn maybe_comment(&mut self, indent: usize) {
        self.ent += 1;
        if self.lay.cmt_every > 0 && self.ent % self.lay.cmt_every as u32 == 0 {
            self.comment_line(indent);
        }
    }
    fn is_flow(n: &N) -> bool {
        match n {
            N::Map { ents, flow, .. } => *flow || ents.is_empty(),
            N::Seq { items, flow, .. } => *flow || items.is_empty(),
            _ => true,
        }
    }
    fn flow(&mut self, n: &N) {
        match n {
            N::Sc { tok, anchor, mark, .. } => {
                if let Some(a) = anchor {
                    self.put(&format!("&{a} "));
                }
                self.mark(mark);
                self.put(tok);
            }
            N::Al { name, mark, .. } => {
                self.mark(mark);
                self.put(&format!("*{name}"));
            }
            N::Map { ents, anchor, .. } => {
                if let Some(a) = anchor {
                    self.put(&format!("&{a} "));
                }
                self.put("{");
                for (i, (k, v)) in ents.iter().enumerate() {
                    if i > 0 {
                        self.put(", ");
                    }
                    self.put(&key_tok(k));
                    self.put(": ");
                    self.flow(v);
                    if matches!(v, N::Al { .. }) {
                        self.put(" ");
                    }
                }
                self.put("}");
            }
            N::Seq { items, anchor, .. } => {
                if let Some(a) = anchor {
                    self.put(&format!("&{a} "));
                }
                self.put("[");
                for (i, v) in items.iter().enumerate() {
                    if i > 0 {
                        self.put(", ");
                    }
                    self.flow(v);
                    if matches!(v, N::Al { .. }) {
                        self.put(" ");
                    }
                }
                self.put("]");
            }
        }
    }
    /// the value after `key:` or `-` (cursor right behind the indicator)
    fn value(&mut self, v: &N, indent: usize) {
        let step = self.lay.step as usize;
        match v {
            N::Sc { cmt, .. } | N::Al { cmt, .. } => {
                self.put(" ");
                self.flow(v);
                if *cmt {
                    self.put("  # é note");
                }
                self.nl();
            }
            _ if Self::is_flow(v) => {
                self.put(" ");
                self.flow(v);
                self.nl();
            }
            N::Map { ents, anchor, .. } => {
                if let Some(a) = anchor {
                    self.put(&format!(" &{a}"));
                }
                self.nl();
                self.block_map(ents, indent + step, false, false);
            }
            N::Seq { items, anchor, .. } => {
                if let Some(a) = anchor {
                    self.put(&format!(" &{a}"));
                }
                self.nl();
                let ind = if self.lay.seq_indent { indent + step } else { indent };
                self.block_seq(items, ind);
            }
        }
    }
    fn block_map(&mut self, ents: &[(String, N)], indent: usize, first_inline: bool, blank: bool) {
        for (i, (k, v)) in ents.iter().enumerate() {
            if !(first_inline && i == 0) {
                if blank {
                    self.nl();
                }
                self.maybe_comment(indent);
                self.sp(indent);
            }
            self.put(&key_tok(k));
            self.put(":");
            self.value(v, indent);
        }
    }
    fn block_seq(&mut self, items: &[N], indent: usize) {
        for it in items {
            self.maybe_comment(indent);
            self.sp(indent);
            self.put("-");
            match it {
                N::Map { ents, anchor: None, .. } if !Self::is_flow(it) => {
                    self.put(" ");
                    self.block_map(ents, indent + 2, true, false);
                }
                _ => self.value(it, indent + 2),
            }
        }
    }
}

#[derive(Clone, Copy, Debug, PartialEq, Eq)]
enum Via {
    Direct,
    Alias,
    Merge,
    Whole,
}

struct TruthB {
    gpath: String,
    vpath: String,
    /// YAML spelling of the leaf key (None: the leaf is a sequence index)
    yleaf: Option<String>,
    rust_leaf: String,
    refm: Vec<usize>,
    defm: Vec<usize>,
    via: Via,
    over: bool,
    renamed: bool,
    seq_idx: bool,
    map_key: bool,
    /// the documentation of path_map.rs itself calls the lookup ambiguous here
    amb: bool,
    /// sibling map keys differ only in non-ASCII characters
    amb_na: bool,
    garde_only: bool,
}
#[derive(Clone, Debug)]
struct Truth {
    gpath: String,
    vpath: String,
    yleaf: Option<String>,
    rust_leaf: String,
    ref_ok: Vec<Pos>,
    def_ok: Vec<Pos>,
    via: Via,
    over: bool,
    renamed: bool,
    seq_idx: bool,
    map_key: bool,
    amb: bool,
    amb_na: bool,
    garde_only: bool,
}

#[derive(Clone, Copy, Default)]
struct Flags {
    renamed: bool,
    seq_idx: bool,
    map_key: bool,
    amb: bool,
    amb_na: bool,
}

enum F<'a> {
    S(&'a SLeaf, &'static str, &'static str),
    I(&'a NLeaf, &'static str, &'static str),
    Node(&'static str, N),
}

#[derive(Default)]
struct Bld {
    nmarks: usize,
    pool_s: Vec<(String, N)>,
    pool_b: Vec<(String, N)>,
    pool_i: Vec<(String, N)>,
    nu: usize,
    truths: Vec<TruthB>,
    defs_flow: bool,
}
impl Bld {
    fn m(&mut self) -> usize {
        self.nmarks += 1;
        self.nmarks - 1
    }
    fn pool_scalar(&mut self, tok: String) -> (String, usize) {
        let name = format!("s{}", self.pool_s.len());
        let d = self.m();
        self.pool_s.push((name.clone(), N::Sc { tok, anchor: Some(name.clone()), mark: Some(d), cmt: false }));
        (name, d)
    }
    #[allow(clippy::too_many_arguments)]
    fn build_struct(&mut self, fields: Vec<F>, gpre: &str, vpre: &str, flow: bool, merge_at: u8, fl: Flags, whole: Option<usize>) -> N {
        let mut explicit: Vec<(String, N)> = vec![];
        let mut base: Vec<(String, N)> = vec![];
        let mut mm: Option<usize> = None;
        let join = |pre: &str, leaf: &str| if pre.is_empty() { leaf.to_string() } else { format!("{pre}.{leaf}") };
        for f in fields {
            let (tok, alt, how, cmt, rust, yaml) = match f {
                F::Node(y, n) => {
                    explicit.push((y.to_string(), n));
                    continue;
                }
                F::S(l, r, y) => (str_tok(&l.v, l.sty), str_tok("zzzzzzzzzz", l.sty), l.how.clone(), l.cmt, r, y),
                F::I(l, r, y) => (l.v.to_string(), "100000".to_string(), l.how.clone(), l.cmt, r, y),
            };
            let mut t = TruthB {
                gpath: join(gpre, rust),
                vpath: join(vpre, rust),
                yleaf: Some(yaml.to_string()),
                rust_leaf: rust.to_string(),
                refm: vec![],
                defm: vec![],
                via: Via::Direct,
                over: false,
                renamed: fl.renamed || strip_raw(rust) != yaml,
                seq_idx: fl.seq_idx,
                map_key: fl.map_key,
                amb: fl.amb,
                amb_na: fl.amb_na,
                garde_only: false,
            };
            match how {
                How::Direct | How::Anchored | How::MergeOver => {
                    let m = self.m();
                    let anchor = if how == How::Anchored {
                        self.nu += 1;
                        Some(format!("u{}", self.nu))
                    } else {
                        None
                    };
                    if how == How::MergeOver {
                        base.push((yaml.to_string(), N::Sc { tok: alt, anchor: None, mark: None, cmt: false }));
                        t.over = true;
                    }
                    explicit.push((yaml.to_string(), N::Sc { tok, anchor, mark: Some(m), cmt }));
                    t.refm = vec![m];
                    t.defm = vec![m];
                }
                How::Alias => {
                    let (name, d) = self.pool_scalar(tok);
                    let m = self.m();
                    explicit.push((yaml.to_string(), N::Al { name, mark: Some(m), cmt }));
                    t.refm = vec![m];
                    t.defm = vec![d];
                    t.via = Via::Alias;
                }
                How::Merge => {
                    let d = self.m();
                    let mmv = *mm.get_or_insert_with(|| self.m());
                    base.push((yaml.to_string(), N::Sc { tok, anchor: None, mark: Some(d), cmt: false }));
                    t.refm = vec![mmv, d];
                    t.defm = vec![d];
                    t.via = Via::Merge;
                }
                How::MergeAlias => {
                    let (name, d) = self.pool_scalar(tok);
                    let a = self.m();
                    let mmv = *mm.get_or_insert_with(|| self.m());
                    base.push((yaml.to_string(), N::Al { name, mark: Some(a), cmt: false }));
                    t.refm = vec![mmv, a, d];
                    t.defm = vec![d];
                    t.via = Via::Merge;
                }
            }
            if let Some(w) = whole {
                t.refm.insert(0, w);
                if t.via == Via::Direct {
                    t.via = Via::Whole;
                }
            }
            self.truths.push(t);
        }
        if !base.is_empty() {
            let name = format!("b{}", self.pool_b.len());
            self.pool_b.push((name.clone(), N::Map { ents: base, anchor: Some(name.clone()), flow: flow || self.defs_flow }));
            let at = merge_at as usize % (explicit.len() + 1);
            explicit.insert(at, ("<<".to_string(), N::Al { name, mark: mm, cmt: false }));
        }
        N::Map { ents: explicit, anchor: None, flow }
    }
    fn item(&mut self, it: &ItemD, gpre: &str, vpre: &str, fl: Flags, parent_flow: bool) -> N {
        let whole = if it.whole { Some(self.m()) } else { None };
        let flow = if it.whole { it.flow || self.defs_flow } else { parent_flow || it.flow };
        let mut tags = vec![];
        for (j, t) in it.tags.iter().enumerate() {
            let tok = str_tok(&t.v, t.sty);
            let mut tb = TruthB {
                gpath: format!("{gpre}.tags[{j}]"),
                vpath: format!("{vpre}.tags[{j}]"),
                yleaf: None,
                rust_leaf: String::new(),
                refm: vec![],
                defm: vec![],
                via: Via::Direct,
                over: false,
                renamed: fl.renamed,
                seq_idx: true,
                map_key: fl.map_key,
                amb: fl.amb,
                amb_na: fl.amb_na,
                garde_only: true,
            };
            let node = match norm_tag_how(&t.how) {
                How::Alias => {
                    let (name, d) = self.pool_scalar(tok);
                    let m = self.m();
                    tb.refm = vec![m];
                    tb.defm = vec![d];
                    tb.via = Via::Alias;
                    N::Al { name, mark: Some(m), cmt: t.cmt }
                }
                h => {
                    let m = self.m();
                    tb.refm = vec![m];
                    tb.defm = vec![m];
                    let anchor = if h == How::Anchored {
                        self.nu += 1;
                        Some(format!("u{}", self.nu))
                    } else {
                        None
                    };
                    N::Sc { tok, anchor, mark: Some(m), cmt: t.cmt }
                }
            };
            if let Some(w) = whole {
                tb.refm.insert(0, w);
                if tb.via == Via::Direct {
                    tb.via = Via::Whole;
                }
            }
            self.truths.push(tb);
            tags.push(node);
        }
        let mut fields = vec![F::S(&it.label, "label", "label"), F::I(&it.weight, "weight", "weight")];
        if !tags.is_empty() {
            fields.push(F::Node("tags", N::Seq { items: tags, anchor: None, flow: flow || it.tags_flow }));
        }
        let mut node = self.build_struct(fields, gpre, vpre, flow, it.merge_at, fl, whole);
        if let Some(w) = whole {
            let name = format!("i{}", self.pool_i.len());
            if let N::Map { anchor, .. } = &mut node {
                *anchor = Some(name.clone());
            }
            self.pool_i.push((name.clone(), node));
            return N::Al { name, mark: Some(w), cmt: false };
        }
        node
    }
}

fn collapse_ascii(s: &str) -> String {
    s.chars().filter(|c| c.is_ascii_alphanumeric()).map(|c| c.to_ascii_lowercase()).collect()
}
fn collapse_unicode(s: &str) -> String {
    s.chars().filter(|c| c.is_alphanumeric()).map(|c| c.to_ascii_lowercase()).collect()
}

struct DocR {
    model: Root,
    truths: Vec<Truth>,
}
struct Rendered {
    text: String,
    docs: Vec<DocR>,
}

fn item_model(it: &ItemD) -> Item {
    Item { label: it.label.v.clone(), weight: it.weight.v, tags: it.tags.iter().map(|t| t.v.clone()).collect() }
}

fn render(c: &Case) -> Rendered {
    let mut w = W { out: String::new(), line: 1, col: 1, lay: &c.layout, marks: vec![], ent: 0 };
    let mut docs = vec![];
    for (di, d) in c.docs.iter().enumerate() {
        let mut b = Bld { defs_flow: d.defs_flow, ..Default::default() };
        // nested containers first (they fill the pools)
        let net_fl = Flags { renamed: true, ..Default::default() };
        let mut bk = vec![];
        for (i, it) in d.net.back_ups.iter().enumerate() {
            let fl = Flags { renamed: true, seq_idx: true, ..Default::default() };
            let p = format!("net_cfg.back_ups[{i}]");
            bk.push(b.item(it, &p, &p, fl, d.net.flow || d.net.seq_flow));
        }
        let mut nf = vec![F::S(&d.net.host_name, "host_name", "host-name"), F::I(&d.net.port_no, "port_no", "port-no")];
        if !bk.is_empty() {
            nf.push(F::Node("back-ups", N::Seq { items: bk, anchor: None, flow: d.net.flow || d.net.seq_flow }));
        }
        let net = b.build_struct(nf, "net_cfg", "net_cfg", d.net.flow, d.net.merge_at, net_fl, None);
        let mut items = vec![];
        for (i, it) in d.items.iter().enumerate() {
            let fl = Flags { seq_idx: true, ..Default::default() };
            let p = format!("items[{i}]");
            items.push(b.item(it, &p, &p, fl, d.items_flow));
        }
        let mut sorted: Vec<&String> = d.by_name.iter().map(|(k, _)| k).collect();
        sorted.sort();
        let mut ments = vec![];
        for (k, it) in d.by_name.iter() {
            let idx = sorted.iter().position(|x| *x == k).unwrap();
            let others = || d.by_name.iter().map(|(k2, _)| k2).filter(|k2| *k2 != k);
            let amb = others().any(|k2| collapse_unicode(k2) == collapse_unicode(k));
            let amb_na = !amb && others().any(|k2| collapse_ascii(k2) == collapse_ascii(k));
            let fl = Flags { renamed: true, map_key: true, amb, amb_na, ..Default::default() };
            let n = b.item(it, &format!("by_name.{k}"), &format!("by_name[{idx}]"), fl, d.map_flow);
            ments.push((k.clone(), n));
        }
        let mut fields = vec![
            F::S(&d.short_name, "short_name", "shortName"),
            F::Node("netCfg", net),
            F::I(&d.max_count, "max_count", "maxCount"),
            F::Node("items", N::Seq { items, anchor: None, flow: d.items_flow }),
            F::S(&d.ty, "r#type", "type"),
            F::Node("byName", N::Map { ents: ments.into_iter().collect(), anchor: None, flow: d.map_flow }),
            F::I(&d.ab_c, "ab_c", "abC"),
            F::I(&d.a_bc, "a_bc", "aBc"),
        ];
        let r = d.rot as usize % fields.len();
        fields.rotate_left(r);
        let root = b.build_struct(fields, "", "", false, d.merge_at, Flags::default(), None);
        let N::Map { ents: mut rents, .. } = root else { unreachable!() };
        let mut pool: Vec<(String, N)> = vec![];
        pool.append(&mut b.pool_s);
        pool.append(&mut b.pool_b);
        pool.append(&mut b.pool_i);
        if !pool.is_empty() {
            rents.insert(0, ("defs".to_string(), N::Map { ents: pool, anchor: None, flow: d.defs_flow }));
        }
        // text
        let base = w.marks.len();
        if di > 0 || d.start_marker {
            w.put("---");
            w.nl();
        }
        for _ in 0..d.lead {
            w.comment_line(0);
        }
        // marks of this document are offset by `base`
        fn shift(n: &mut N, base: usize) {
            match n {
                N::Sc { mark, .. } | N::Al { mark, .. } => {
                    if let Some(m) = mark {
                        *m += base;
                    }
                }
                N::Map { ents, .. } => ents.iter_mut().for_each(|(_, v)| shift(v, base)),
                N::Seq { items, .. } => items.iter_mut().for_each(|v| shift(v, base)),
            }
        }
        for (_, v) in rents.iter_mut() {
            shift(v, base);
        }
        w.block_map(&rents, 0, false, c.layout.blank);
        if d.end_marker {
            w.put("...");
            w.nl();
        }
        if w.marks.len() < base + b.nmarks {
            w.marks.resize(base + b.nmarks, None);
        }
        let pos = |ms: &Vec<usize>| -> Vec<Pos> { ms.iter().map(|m| w.marks[base + *m].expect("mark not rendered")).collect() };
        let truths = b
            .truths
            .iter()
            .map(|t| Truth {
                gpath: t.gpath.clone(),
                vpath: t.vpath.clone(),
                yleaf: t.yleaf.clone(),
                rust_leaf: t.rust_leaf.clone(),
                ref_ok: pos(&t.refm),
                def_ok: pos(&t.defm),
                via: t.via,
                over: t.over,
                renamed: t.renamed,
                seq_idx: t.seq_idx,
                map_key: t.map_key,
                amb: t.amb,
                amb_na: t.amb_na,
                garde_only: t.garde_only,
            })
            .collect();
        let model = Root {
            defs: Ignored,
            short_name: d.short_name.v.clone(),
            net_cfg: Net { host_name: d.net.host_name.v.clone(), port_no: d.net.port_no.v, back_ups: d.net.back_ups.iter().map(item_model).collect() },
            max_count: d.max_count.v,
            items: d.items.iter().map(item_model).collect(),
            r#type: d.ty.v.clone(),
            by_name: d.by_name.iter().map(|(k, it)| (k.clone(), item_model(it))).collect(),
            ab_c: d.ab_c.v,
            a_bc: d.a_bc.v,
        };
        docs.push(DocR { model, truths });
    }
    Rendered { text: w.out, docs }
}
