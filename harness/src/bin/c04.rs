//! C04 – duplicate-key policy is applied exactly, for keys of every YAML kind.
use proptest::prelude::*;
use serde::de::DeserializeSeed;
use serde::{Deserialize, Serialize};
use vcheck::engine::{self, Ctx, Outcome, Property};
use vcheck::gdoc::{self, Kind, Layout, Node, Style};
use vcheck::opts::{DeOpts, Dup};
use vcheck::shape::{ScalarMode, ShapeSeed};
use vcheck::untyped::U;

#[derive(Clone, Copy, Debug, Serialize, Deserialize, PartialEq, Eq)]
enum Target {
    Untyped,
    ShapeStr,
    Struct,
}

#[derive(Clone, Debug, Serialize, Deserialize)]
struct Case {
    doc: Node,
    layout: Layout,
    target: Target,
    /// the value of every later occurrence of a repeated key has been replaced by content that
    /// cannot be deserialized (a core tag that does not fit, a scalar merge value): only the
    /// Error and FirstWins clauses are judged - FirstWins must skip such a value unread
    #[serde(default)]
    poison: bool,
}

#[derive(Debug, Deserialize, PartialEq)]
struct St {
    a: Option<U>,
    b: Option<U>,
    c: Option<U>,
    k: Option<U>,
    x: Option<U>,
    y: Option<U>,
}

enum Res {
    Ok(U),
    /// (is DuplicateMappingKey, line, column, message)
    Err(bool, u64, u64, String),
}

fn run(text: &str, shape: Option<&Node>, dup: Dup, target: Target) -> Res {
    let o = DeOpts::with_dup(dup).build();
    let conv = |e: serde_saphyr::Error| {
        let inner = e.without_snippet();
        let is_dup = matches!(inner, serde_saphyr::Error::DuplicateMappingKey { .. });
        let (l, c) = inner.location().map(|l| (l.line(), l.column())).unwrap_or((0, 0));
        Res::Err(is_dup, l, c, inner.to_string())
    };
    match target {
        Target::Untyped => match serde_saphyr::from_str_with_options::<U>(text, o) {
            Ok(v) => Res::Ok(v),
            Err(e) => conv(e),
        },
        Target::Struct => match serde_saphyr::from_str_with_options::<St>(text, o) {
            Ok(v) => Res::Ok(U::Str(format!("{v:?}"))),
            Err(e) => conv(e),
        },
        Target::ShapeStr => match serde_saphyr::with_deserializer_from_str_with_options(text, o, |d| ShapeSeed { shape, mode: ScalarMode::Str }.deserialize(d)) {
            Ok(v) => Res::Ok(v),
            Err(e) => conv(e),
        },
    }
}

/// keep the first / the last occurrence of every repeated key, recursively (on an alias-free AST)
fn dedup(n: &Node, keep_first: bool) -> Node {
    let kind = match &n.kind {
        Kind::Seq { flow, items } => Kind::Seq { flow: *flow, items: items.iter().map(|x| dedup(x, keep_first)).collect() },
        Kind::Map { flow, entries } => {
            let mut out: Vec<(Node, Node)> = vec![];
            for (k, v) in entries {
                let k2 = dedup(k, keep_first);
                let v2 = dedup(v, keep_first);
                if let Some(pos) = out.iter().position(|(k3, _)| gdoc::same_key(k3, &k2)) {
                    if !keep_first {
                        // "delete the earlier entry": the later one takes over, at its own position
                        out.remove(pos);
                        out.push((k2, v2));
                    }
                } else {
                    out.push((k2, v2));
                }
            }
            Kind::Map { flow: *flow, entries: out }
        }
        k => k.clone(),
    };
    Node { anchor: n.anchor.clone(), tag: n.tag.clone(), kind }
}

/// pre-order index (over all nodes, keys included) of the key node that is the first repeated
/// key in document order, on the ORIGINAL doc (aliases compared through their expansion).
/// None = no repeated key. The second component: `Exact` = the repeated key is written in place;
/// `AliasKey` = the repeated key is an alias token (`*k: v`), whose position is the position of
/// the repeated key; `InReplay` = the repeat lies inside replayed (aliased) content, where only
/// the error kind is judged.
#[derive(Clone, Copy, PartialEq, Eq, Debug)]
enum Where {
    Exact,
    AliasKey,
    InReplay,
}
fn first_duplicate(doc: &Node, expanded: &Node) -> Option<(usize, Where)> {
    // walk doc and expanded in parallel; `idx` counts doc nodes in pre-order
    fn walk(d: &Node, e: &Node, idx: &mut usize, found: &mut Option<(usize, Where)>) {
        let my = *idx;
        let _ = my;
        *idx += 1;
        if let Kind::Alias(_) = &d.kind {
            // duplicates inside the replayed copy: detect on the expansion, position unknown
            if found.is_none() && has_dup(e) {
                *found = Some((0, Where::InReplay));
            }
            return;
        }
        match (&d.kind, &e.kind) {
            (Kind::Seq { items: di, .. }, Kind::Seq { items: ei, .. }) => {
                for (a, b) in di.iter().zip(ei) {
                    walk(a, b, idx, found);
                }
            }
            (Kind::Map { entries: de, .. }, Kind::Map { entries: ee, .. }) => {
                let mut seen: Vec<&Node> = vec![];
                for ((dk, dv), (ek, ev)) in de.iter().zip(ee) {
                    let key_idx = *idx;
                    let is_alias_key = matches!(dk.kind, Kind::Alias(_));
                    if found.is_none() && seen.iter().any(|s| gdoc::same_key(s, ek)) {
                        *found = Some((key_idx, if is_alias_key { Where::AliasKey } else { Where::Exact }));
                    }
                    seen.push(ek);
                    // keys are captured, not streamed: duplicates inside a key are not judged
                    let mut kf = None;
                    walk(dk, ek, idx, &mut kf);
                    walk(dv, ev, idx, found);
                }
            }
            _ => {}
        }
    }
    fn has_dup(e: &Node) -> bool {
        let mut b = false;
        e.visit(&mut |n| {
            if let Kind::Map { entries, .. } = &n.kind {
                for (i, (k, _)) in entries.iter().enumerate() {
                    if entries[..i].iter().any(|(k2, _)| gdoc::same_key(k2, k)) {
                        b = true;
                    }
                }
            }
        });
        b
    }
    let mut idx = 0;
    let mut found = None;
    walk(doc, expanded, &mut idx, &mut found);
    found
}

fn keys_have_internal_dups(e: &Node) -> bool {
    let mut b = false;
    e.visit(&mut |n| {
        if let Kind::Map { entries, .. } = &n.kind {
            for (k, _) in entries {
                k.visit(&mut |kk| {
                    if let Kind::Map { entries: ke, .. } = &kk.kind {
                        for (i, (k1, _)) in ke.iter().enumerate() {
                            if ke[..i].iter().any(|(k2, _)| gdoc::same_key(k2, k1)) {
                                b = true;
                            }
                        }
                    }
                });
            }
        }
    });
    b
}

fn check_case(c: &Case) -> Outcome {
    let r = gdoc::render(&c.doc, &c.layout);
    if gdoc::selfcheck_render(&c.doc, &c.layout, &r.text).is_err() {
        return Outcome::Discard("selfcheck-render");
    }
    let Ok(expanded) = gdoc::expand_aliases(&c.doc) else {
        return Outcome::Discard("selfcheck-unbound-alias");
    };
    if keys_have_internal_dups(&expanded) {
        return Outcome::Discard("dup-inside-key");
    }
    if gdoc::resolve_merges(&expanded).is_err() {
        // (only reachable through shrinking: what is no merge value is C03's domain)
        return Outcome::Discard("invalid-merge-value");
    }
    let text = &r.text;
    let first = dedup(&expanded, true);
    let last = dedup(&expanded, false);
    let dup = first_duplicate(&c.doc, &expanded);
    let t_first = gdoc::render(&first, &c.layout).text;
    let t_last = gdoc::render(&last, &c.layout).text;

    // reference results: the de-duplicated documents contain no repeated key, so every policy
    // must agree on them; we read them under the strictest one.
    let ref_first = run(&t_first, Some(&first), Dup::Error, c.target);
    let ref_last = run(&t_last, Some(&last), Dup::Error, c.target);

    let r_err = run(text, Some(&expanded), Dup::Error, c.target);
    let r_first = run(text, Some(&first), Dup::First, c.target);
    let r_last = run(text, Some(&expanded), Dup::Last, c.target);

    match dup {
        None => {
            // mappings without repeated keys deserialize identically under all three policies
            let show = |r: &Res| match r {
                Res::Ok(v) => format!("Ok({v:?})"),
                Res::Err(_, _, _, m) => format!("Err({m})"),
            };
            let (a, b, d) = (show(&r_err), show(&r_first), show(&r_last));
            if a != b || a != d {
                return Outcome::Fail(format!("no repeated key, but policies disagree: Error {a} / FirstWins {b} / LastWins {d} (text {text:?})"));
            }
            if c.target != Target::Struct {
                if let Res::Err(_, _, _, m) = &r_err {
                    return Outcome::Fail(format!("document without repeated keys rejected: {m} (text {text:?})"));
                }
            }
            Outcome::Pass
        }
        Some((key_idx, wh)) => {
            // --- Error policy
            match &r_err {
                Res::Ok(v) => return Outcome::Fail(format!("Error policy accepted a repeated key as {v:?} (text {text:?})")),
                Res::Err(is_dup, l, col, m) => {
                    if !*is_dup {
                        return Outcome::Fail(format!("Error policy failed with another error than DuplicateMappingKey: {m} (text {text:?})"));
                    }
                    if wh != Where::InReplay {
                        let info = &r.nodes[key_idx];
                        let ok = (info.start.line as u64 == *l && info.start.col as u64 == *col) || (info.content.line as u64 == *l && info.content.col as u64 == *col);
                        // an omitted node (`&ek :`) has no text of its own: anything from its
                        // anchor up to the `:` is "at the repeated key"
                        let omitted = info.token_end.map(|e| e == info.content).unwrap_or(false);
                        let ok = ok || (omitted && info.start.line as u64 == *l && (info.start.col as u64..=info.content.col as u64 + 1).contains(col));
                        if !ok {
                            return Outcome::Fail(format!(
                                "duplicate-key error located at {l}:{col}, the repeated key is at {}:{} (text {text:?})",
                                info.content.line, info.content.col
                            ));
                        }
                    }
                }
            }
            // --- FirstWins == document with every later entry deleted
            match (&r_first, &ref_first) {
                (Res::Ok(a), Res::Ok(b)) if a == b => {}
                (Res::Err(..), Res::Err(..)) => {}
                (Res::Ok(a), Res::Ok(b)) => return Outcome::Fail(format!("FirstWins gives {a:?}, the document with later entries deleted gives {b:?} (text {text:?} / {t_first:?})")),
                (Res::Err(_, _, _, m), Res::Ok(b)) => return Outcome::Fail(format!("FirstWins rejected ({m}); the document with later entries deleted gives {b:?} (text {text:?})")),
                (Res::Ok(a), Res::Err(_, _, _, m)) => return Outcome::Fail(format!("FirstWins gives {a:?} but the de-duplicated document is rejected: {m} (text {text:?})")),
            }
            if c.poison {
                return Outcome::Pass;
            }
            // --- LastWins delivers every entry in order
            match c.target {
                Target::ShapeStr => {
                    let want = gdoc::to_u_strings(&expanded);
                    match &r_last {
                        Res::Ok(a) if *a == want => {}
                        Res::Ok(a) => return Outcome::Fail(format!("LastWins delivered {a:?}, expected every entry in order: {want:?} (text {text:?})")),
                        Res::Err(_, _, _, m) => return Outcome::Fail(format!("LastWins rejected the document: {m} (text {text:?})")),
                    }
                }
                Target::Untyped => match (&r_last, &ref_last) {
                    (Res::Ok(a), Res::Ok(b)) => {
                        // an overwriting target keeps the last one
                        // (the overwriting map compares keys by value, so it is applied to both sides)
                        if a.last_wins().sorted() != b.last_wins().sorted() {
                            return Outcome::Fail(format!("LastWins through an overwriting map gives {:?}, the document with earlier entries deleted gives {:?} (text {text:?})", a.last_wins().sorted(), b.last_wins().sorted()));
                        }
                        // and nothing is dropped: the number of delivered entries at the root
                        if let (U::Map(es), Kind::Map { entries, .. }) = (a, &expanded.kind) {
                            // (a `<<` entry stands for the entries it merges in)
                            if es.len() != entries.len() && !entries.iter().any(|(k, _)| k.is_merge_key()) {
                                return Outcome::Fail(format!("LastWins delivered {} root entries of {} (text {text:?})", es.len(), entries.len()));
                            }
                        }
                    }
                    (Res::Err(_, _, _, m), _) => return Outcome::Fail(format!("LastWins rejected the document: {m} (text {text:?})")),
                    _ => {}
                },
                Target::Struct => {
                    // serde's derived struct visitor reports the repeated field itself: that IS
                    // "delivers every entry"; anything but a DuplicateMappingKey error is fine
                    if let Res::Err(true, _, _, m) = &r_last {
                        return Outcome::Fail(format!("LastWins raised the library's own duplicate-key error: {m} (text {text:?})"));
                    }
                }
            }
            Outcome::Pass
        }
    }
}

fn s(v: &str) -> Node {
    Node::plain(v)
}

/// `{x: own, <<: SRC}` where SRC repeats keys among its own entries; `es` = (key, presentation,
/// value) of the source entries, `supply` = how the source reaches the `<<` entry
fn merge_source_case(es: &[(usize, usize, usize)], supply: usize, lb: u32, own_first: bool) -> Case {
    let keys = ["a", "b", "c"];
    let entries: Vec<(Node, Node)> = es
        .iter()
        .enumerate()
        .map(|(i, (k, pres, v))| {
            let key = match pres % 3 {
                0 => s(keys[k % 3]),
                1 => Node::scalar(keys[k % 3], Style::Double),
                _ => Node::scalar(keys[k % 3], Style::Single),
            };
            let val = match v % 3 {
                0 => s(&format!("v{i}")),
                1 => Node::seq(true, vec![s(&format!("s{i}")), s("t")]),
                _ => Node::map(true, vec![(s("p"), s(&format!("m{i}")))]),
            };
            (key, val)
        })
        .collect();
    let src = Node::map(supply % 2 == 0, entries);
    let other = Node::map(true, vec![(s("b"), s("ob")), (s("d"), s("od"))]);
    let mut defs: Option<Node> = None;
    let mv = match supply % 8 {
        0 | 1 => src,
        2 | 3 => {
            defs = Some(src.anchored("src"));
            Node::alias("src")
        }
        4 => Node::seq(true, vec![src, other]),
        5 => Node::seq(true, vec![other, src]),
        6 => Node::map(true, vec![(s("<<"), src), (s("d"), s("nd"))]),
        _ => {
            defs = Some(src.anchored("src"));
            Node::seq(true, vec![other, Node::alias("src")])
        }
    };
    let mut t = vec![(s("x"), s("own")), (s("<<"), mv)];
    if !own_first {
        t.reverse();
    }
    let t = Node::map(false, t);
    let doc = match defs {
        Some(d) => Node::map(false, vec![(s("defs"), d), (s("t"), t)]),
        None => t,
    };
    Case { doc, layout: Layout::from_bits(lb), target: Target::Untyped, poison: false }
}

/// values of growing size, up to 4-level containers with aliases (so that a wrong skip desynchronises)
fn arb_value() -> BoxedStrategy<Node> {
    prop_oneof![
        4 => gdoc::arb_scalar(),
        3 => gdoc::arb_tree(3, 12),
        1 => Just(Node::seq(false, vec![Node::map(false, vec![(s("p"), Node::seq(true, vec![s("1"), Node::map(true, vec![(s("q"), s("r"))])]))]), s("t")])),
        1 => Just(Node::alias("v")),
    ]
    .boxed()
}

fn key_variants(base: usize, variant: usize) -> Node {
    // the same key in different presentations; `base` selects the key identity
    match base % 14 {
        0 => match variant % 3 {
            0 => s("a"),
            1 => Node::scalar("a", Style::Double),
            _ => Node::scalar("a", Style::Single),
        },
        1 => match variant % 3 {
            0 => s("b"),
            1 => Node::scalar("b", Style::Double),
            _ => s("1"),
        },
        2 => match variant % 3 {
            0 => s("a").tagged("!t"),
            // a core-schema tag is part of the key node too: `!!str a` is another key than `a`
            1 => s("a").tagged("!!str"),
            _ => s("1").tagged("!!str"),
        },
        3 => Node::seq(true, vec![s("a"), s("b")]),
        4 => Node::map(true, vec![(s("a"), s("1"))]),
        // application tags are part of the key node: `!t a`, `!u a` and `a` are three keys
        6 => match variant % 3 {
            0 => Node::scalar("a", Style::Double).tagged("!t"),
            1 => s("a").tagged("!u"),
            _ => s("a").tagged("!t"),
        },
        // the null key: `~` and an omitted node that carries an anchor (reported as an empty
        // plain scalar by the parser) are the same key; the empty string is another one
        8 => match variant % 3 {
            1 => Node { anchor: Some("ek".into()), tag: None, kind: Kind::Scalar { value: String::new(), style: Style::Plain } },
            _ => s("~"),
        },
        9 => match variant % 3 {
            1 => Node::scalar("", Style::Single),
            _ => Node::scalar("", Style::Double),
        },
        // strings by their tag: `!!str` followed by nothing is the empty string (the same key as
        // `!!str ""`), `!!str ~` is the string "~" (another key)
        10 => match variant % 3 {
            0 => Node::plain("").tagged("!!str"),
            1 => Node::scalar("", Style::Double).tagged("!!str"),
            _ => Node::plain("~").tagged("!!str"),
        },
        // a tag on a node *inside* a sequence or mapping key is part of that key as well
        // (`[!t a, b]`, `[!u a, b]` and the `[a, b]` of identity 3 are three keys; the style of
        // the tagged scalar is not)
        11 => match variant % 3 {
            0 => Node::seq(true, vec![s("a").tagged("!t"), s("b")]),
            1 => Node::seq(true, vec![s("a").tagged("!u"), s("b")]),
            _ => Node::seq(true, vec![Node::scalar("a", Style::Double).tagged("!t"), s("b")]),
        },
        12 => match variant % 3 {
            0 => Node::map(true, vec![(s("a"), s("1").tagged("!t"))]),
            1 => Node::map(true, vec![(s("a"), s("1").tagged("!u"))]),
            _ => Node::map(true, vec![(s("a").tagged("!t"), s("1"))]),
        },
        // ... and so is a tag on a mapping key itself (`{a: 1}` is identity 4)
        13 => match variant % 3 {
            0 => Node::map(true, vec![(s("a"), s("1"))]).tagged("!t"),
            1 => Node::map(true, vec![(s("a"), s("1"))]).tagged("!u"),
            // (the inner key quoted: the same node for the reader, and the same value for an
            // untyped target - a quoted `"1"` would be a string next to the integer 1)
            _ => Node::map(true, vec![(Node::scalar("a", Style::Double), s("1"))]).tagged("!t"),
        },
        7 => match variant % 3 {
            0 => Node::seq(true, vec![s("a"), s("b")]).tagged("!t"),
            1 => Node::seq(true, vec![s("a"), s("b")]).tagged("!u"),
            _ => Node::seq(true, vec![s("a"), s("b")]),
        },
        _ => match variant % 2 {
            0 => Node::alias("kk"),
            _ => s("kx"),
        },
    }
}

/// one random case from its parts: entries (key identity, key presentation, value), layout bits,
/// target, placement of the mapping
fn make_case(es: Vec<(usize, usize, Node)>, lb: u32, target: Target, place: usize, poison: bool) -> Case {
    let mut entries: Vec<(Node, Node)> = vec![];
    let struct_keys = ["a", "b", "c", "k", "x", "y"];
    for (base, var, v) in es {
        // (the all-strings target cannot take the null key: the empty string stands in)
        let base = if target == Target::ShapeStr && base % 14 == 8 { 9 } else { base };
        // (`!!str` followed by nothing is the empty string for string targets; an untyped target
        // reads a null there - a matter of scalar interpretation, not of key identity)
        let var = if target != Target::ShapeStr && base % 14 == 10 && var % 3 == 0 { 1 } else { var };
        let k = if target == Target::Struct { s(struct_keys[base % 3]) } else { key_variants(base, var) };
        entries.push((k, v));
    }
    let mut poisoned = false;
    if poison && target != Target::Struct {
        // replace the value of every later occurrence of a key (written in place) by content
        // that cannot be read: FirstWins has to skip it as one node without interpreting it
        const POISON: [fn() -> Node; 4] = [
            || s("zz").tagged("!!int"),
            || Node::map(true, vec![(s("<<"), s("5"))]),
            || Node::seq(true, vec![s("q").tagged("!!float"), Node::map(true, vec![(s("k"), s("1")), (s("k"), s("2"))])]),
            || Node::scalar("$$", Style::Double).tagged("!!binary"),
        ];
        for i in 1..entries.len() {
            let (before, rest) = entries.split_at_mut(i);
            let (k, v) = &mut rest[0];
            if !matches!(k.kind, Kind::Alias(_)) && before.iter().any(|(k0, _)| !matches!(k0.kind, Kind::Alias(_)) && gdoc::same_key(k0, k)) {
                *v = POISON[(i + lb as usize) % POISON.len()]();
                poisoned = true;
            }
        }
    }
    let m = Node::map(false, entries);
    // definitions used by alias keys / alias values
    let defs = Node::seq(true, vec![s("kx").anchored("kk"), Node::map(true, vec![(s("m"), s("1")), (s("n"), Node::seq(true, vec![s("2")]))]).anchored("v")]);
    let doc = if target == Target::Struct {
        // no aliases needed for the struct target (values may still alias `v`: strip them)
        let mut m2 = m.clone();
        m2.visit_mut(&mut |n| {
            if matches!(n.kind, Kind::Alias(_)) {
                n.kind = Kind::Scalar { value: "al".into(), style: Style::Plain };
            }
        });
        m2
    } else {
        match place {
            0 => Node::seq(false, vec![defs, m]),
            1 => Node::seq(false, vec![defs, Node::map(false, vec![(s("outer"), m), (s("after"), s("x"))])]),
            2 => Node::seq(false, vec![defs, Node::seq(false, vec![m, s("tail")])]),
            _ => Node::seq(false, vec![defs, Node::map(false, vec![(s("o"), Node::seq(false, vec![m]))])]),
        }
    };
    Case { doc, layout: Layout::from_bits(lb), target, poison: poisoned }
}

struct C04;

fn nontrivial(c: &Case) -> bool {
    // repeated key followed by a container value, or a non-scalar repeated key
    let Ok(exp) = gdoc::expand_aliases(&c.doc) else { return false };
    let mut nt = false;
    exp.visit(&mut |n| {
        if let Kind::Map { entries, .. } = &n.kind {
            for (i, (k, v)) in entries.iter().enumerate() {
                if entries[..i].iter().any(|(k2, _)| gdoc::same_key(k2, k)) && (v.is_collection() || k.is_collection()) {
                    nt = true;
                }
            }
        }
    });
    nt
}

impl Property for C04 {
    const ID: &'static str = "C04";
    type Case = Case;
    fn rule() -> String {
        "cases = (document whose mappings repeat key nodes 0..3 times, layout, target); every case is run under all three policies. Key kinds: plain / quoted scalars (same text in another style is the same key), tagged scalars and sequences (another tag - core or application - is another key), flow sequences, flow mappings, sequence / mapping keys that differ only in the tag of a node inside them (`[!t a, b]` / `[!u a, b]`, `{a: !t 1}` / `{a: !u 1}` / `{!t a: 1}`), tagged mapping keys (open finding: excluded), aliased keys, the null key (`~`, or an omitted node that carries an anchor) next to the empty-string key; family merge-source-repeats: a mapping consumed as a `<<` source (in place, through an alias, in a merge sequence, below a nested merge) repeats keys among its own entries; the entry after a repeated key carries values from scalars up to 4-level containers with aliases. Exhaustive: all mappings with <= 4 entries over 2 key identities x 3 key kinds x 3 value shapes, nested at 3 positions; random beyond. Oracle: Error => DuplicateMappingKey located at the second occurrence of the key node (ground truth from the renderer); FirstWins => value == value(document with every later entry deleted); LastWins => the order-preserving all-strings target receives every entry in document order and an overwriting map equals value(document with every earlier entry deleted); no repeated key => identical results under all three policies. Non-trivial: a repeated key followed by a container value, or a non-scalar repeated key.".into()
    }
    fn assumptions() -> Vec<String> {
        vec![
            "no merge keys in these documents (C03) and no repeated keys inside a key node".into(),
            "for a repeated key that lies inside replayed (aliased) content only the error kind is judged, not its location; a repeated key that is itself an alias token is expected at the alias (open finding c04-alias-key-location: the definition site is reported)".into(),
        ]
    }
    fn check(c: &Case) -> Outcome {
        check_case(c)
    }
    fn signatures(c: &Case) -> Vec<&'static str> {
        // open finding: the first repeated key is an alias token
        match gdoc::expand_aliases(&c.doc) {
            Ok(e) if matches!(first_duplicate(&c.doc, &e), Some((_, Where::AliasKey))) => vec!["repeated_alias_key"],
            _ => {
                // open finding: the tag of a *mapping* used as a key is not part of the key
                let mut tagged_map_key = false;
                c.doc.visit(&mut |n| {
                    if let Kind::Map { entries, .. } = &n.kind {
                        // (narrow: two mapping keys of one mapping that are equal apart from their
                        // own tags - a tagged mapping key without such a partner reads correctly)
                        for (i, (k1, _)) in entries.iter().enumerate() {
                            for (k2, _) in &entries[i + 1..] {
                                if matches!(k1.kind, Kind::Map { .. }) && matches!(k2.kind, Kind::Map { .. }) && k1.tag != k2.tag {
                                    let (mut a, mut b) = (k1.clone(), k2.clone());
                                    a.tag = None;
                                    b.tag = None;
                                    tagged_map_key |= gdoc::same_key(&a, &b);
                                }
                            }
                        }
                    }
                });
                if tagged_map_key { vec!["tagged_mapping_key"] } else { vec![] }
            }
        }
    }
    fn shrink(c: &Case) -> Vec<Case> {
        let mut out = vec![];
        if c.layout != Layout::default() {
            out.push(Case { layout: Layout::default(), ..c.clone() });
        }
        if let Kind::Map { flow, entries } = &c.doc.kind {
            for i in 0..entries.len() {
                let mut e = entries.clone();
                e.remove(i);
                out.push(Case { doc: Node { anchor: None, tag: None, kind: Kind::Map { flow: *flow, entries: e } }, ..c.clone() });
            }
            for i in 0..entries.len() {
                if entries[i].1.is_collection() {
                    let mut e = entries.clone();
                    e[i].1 = s("v");
                    out.push(Case { doc: Node { anchor: None, tag: None, kind: Kind::Map { flow: *flow, entries: e } }, ..c.clone() });
                }
            }
        }
        out
    }
    /// libFuzzer input: layout bits, target, placement, then 1-6 entries (key identity, key
    /// presentation, value tree)
    fn fuzz_decode(data: &[u8]) -> Option<(&'static str, Case, bool)> {
        let mut b = engine::Bytes::new(data);
        let lb = b.u16() as u32;
        let target = b.pick(&[Target::Untyped, Target::ShapeStr, Target::Struct]);
        let place = b.below(4);
        let n = 1 + b.below(6);
        let es: Vec<(usize, usize, Node)> = (0..n)
            .map(|_| {
                let base = b.below(14);
                let var = b.below(3);
                let v = match b.below(9) {
                    0..=3 => gdoc::scalar_from_bytes(&mut b),
                    4..=6 => gdoc::tree_from_bytes(&mut b, 3),
                    7 => Node::seq(false, vec![Node::map(false, vec![(s("p"), Node::seq(true, vec![s("1"), Node::map(true, vec![(s("q"), s("r"))])]))]), s("t")]),
                    _ => Node::alias("v"),
                };
                (base, var, v)
            })
            .collect();
        let poison = b.below(6) == 0;
        let c = make_case(es, lb, target, place, poison);
        let nt = nontrivial(&c);
        Some(("fuzz-random", c, nt))
    }
    fn generate(ctx: &mut Ctx<Self>) {
        // ---------------- exhaustive: <= 4 entries, 2 key identities x 3 kinds, 3 value shapes
        let kinds: [[Node; 2]; 3] = [
            [s("a"), s("b")],
            [Node::seq(true, vec![s("a")]), Node::seq(true, vec![s("b")])],
            [Node::map(true, vec![(s("a"), s("1"))]), Node::map(true, vec![(s("b"), s("1"))])],
        ];
        let values: [Node; 3] = [
            s("v"),
            Node::seq(false, vec![s("1"), Node::seq(false, vec![s("2")])]),
            Node::map(false, vec![(s("p"), Node::map(false, vec![(s("q"), Node::seq(true, vec![s("r")]))])), (s("z"), s("9"))]),
        ];
        let mut idx = 0u64;
        let mut total = 0u64;
        for kind in 0..3 {
            for n in 1..=4usize {
                // key identity per entry: 2^n, value shape per entry: 3^n
                for kbits in 0..(1u32 << n) {
                    for vcode in 0..3u32.pow(n as u32) {
                        let mut entries = vec![];
                        let mut vc = vcode;
                        for i in 0..n {
                            let k = kinds[kind][((kbits >> i) & 1) as usize].clone();
                            let v = values[(vc % 3) as usize].clone();
                            vc /= 3;
                            entries.push((k, v));
                        }
                        let m = Node::map(false, entries);
                        for place in 0..3 {
                            let doc = match place {
                                0 => m.clone(),
                                1 => Node::map(false, vec![(s("outer"), m.clone()), (s("after"), s("x"))]),
                                _ => Node::seq(false, vec![s("first"), m.clone(), s("last")]),
                            };
                            for (li, lay) in [Layout::default(), Layout { force_flow: true, ..Layout::default() }].iter().enumerate() {
                                let target = if (idx + li as u64) % 2 == 0 { Target::Untyped } else { Target::ShapeStr };
                                idx += 1;
                                total += 1;
                                if ctx.mine(idx) {
                                    let c = Case { doc: doc.clone(), layout: lay.clone(), target, poison: false };
                                    let nt = nontrivial(&c);
                                    ctx.case("exhaustive", &c, nt);
                                }
                            }
                        }
                    }
                }
            }
        }
        ctx.subspace("mappings with <= 4 entries x 2 key identities x 3 key kinds x 3 value shapes x 3 placements x block/flow", total, true);

        // ---------------- random: mixed key presentations, aliases, nested
        let entry = (0usize..14, 0usize..3, arb_value());
        let strat = (
            prop::collection::vec(entry, 1..7),
            any::<bool>(),
            0u32..(1 << 12),
            prop::sample::select(vec![Target::Untyped, Target::ShapeStr, Target::Struct]),
            0usize..4,
        )
            .prop_map(|(es, x, lb, target, place)| make_case(es, lb, target, place, x && lb % 4 == 0));
        ctx.run_strategy("random", 1, ctx.tier.pick(40_000, 500_000), &strat, nontrivial);

        // ---------------- a mapping that is consumed as a merge source is a mapping too: its own
        // repeated keys fall under the policy (supplied in place, through an alias, inside a
        // merge sequence, below a nested merge)
        let strat = (prop::collection::vec((0usize..3, 0usize..3, 0usize..3), 2..5), 0usize..8, 0u32..(1 << 12), any::<bool>()).prop_map(|(es, supply, lb, own_first)| merge_source_case(&es, supply, lb, own_first));
        ctx.run_strategy("merge-source-repeats", 2, ctx.tier.pick(12_000, 120_000), &strat, |_| true);
    }
}

fn main() {
    engine::main::<C04>()
}

/// entry point of the libFuzzer target `fuzz/fuzz_targets/c04.rs`
#[allow(dead_code)]
pub fn fuzz(data: &[u8]) {
    engine::fuzz_one::<C04>(data)
}
