//! C11 – a multi-document stream is the list of its documents, each on its own.
use proptest::prelude::*;
use serde::de::DeserializeOwned;
use serde::{Deserialize, Serialize};
use std::collections::BTreeMap;
use vcheck::engine::{self, Ctx, Outcome, Property};
use vcheck::untyped::U;

/// document kinds; each has 2-3 concrete texts (`variant`)
#[derive(Clone, Copy, Debug, Serialize, Deserialize, PartialEq, Eq, Hash)]
enum Kind {
    Mapping,
    Sequence,
    Scalar,
    Empty,
    ExplicitNull,
    CommentOnly,
    DefinesAnchor,
    AliasesEarlierAnchor,
    TypeErrorEarly,
    TypeErrorLate,
    SyntaxError,
    UnterminatedFlow,
    /// a type error followed, inside the same document, by a syntax error
    TypeThenSyntaxError,
    NestedValid,
    /// a bare enum variant name (valid for the enum target, a string for the untyped one)
    EnumName,
    /// a document whose value is the empty string (empty block scalar, empty quoted scalar):
    /// a value, not a null document - it is not skipped
    EmptyString,
    /// a scalar that spells a null but is a string by its tag (`!!str null`, `!!str ~`): a
    /// value, not a null document - it is not skipped
    TaggedStrNull,
    /// a bare enum variant name whose variant carries an (optional) payload: reading the payload
    /// must not look past the end of the document
    BarePayloadVariant,
    /// a unit variant selected by its tag, without payload (`!Start`): for the enum target the
    /// value `Start`, not a null document
    TaggedUnitVariant,
    /// a syntax error that the parser reports without stopping (an undeclared tag handle): the
    /// iterator ends after it like after any other syntax error
    UndeclaredTagHandle,
}
const KINDS: [Kind; 20] = [
    Kind::Mapping,
    Kind::Sequence,
    Kind::Scalar,
    Kind::Empty,
    Kind::ExplicitNull,
    Kind::CommentOnly,
    Kind::DefinesAnchor,
    Kind::AliasesEarlierAnchor,
    Kind::TypeErrorEarly,
    Kind::TypeErrorLate,
    Kind::SyntaxError,
    Kind::UnterminatedFlow,
    Kind::TypeThenSyntaxError,
    Kind::NestedValid,
    Kind::EnumName,
    Kind::EmptyString,
    Kind::TaggedStrNull,
    Kind::BarePayloadVariant,
    Kind::TaggedUnitVariant,
    Kind::UndeclaredTagHandle,
];

#[derive(Clone, Debug, Serialize, Deserialize, PartialEq, Eq, Hash)]
struct Part {
    kind: Kind,
    variant: u8,
    end_marker: bool,
    trailing_comment: bool,
}

#[derive(Clone, Copy, Debug, Serialize, Deserialize, PartialEq, Eq, Hash)]
enum Target {
    Untyped,
    /// BTreeMap<String, i64>
    IntMap,
    /// enum Cmd { Start, Stop }: sequences / mappings are type errors raised on a peeked event
    Cmd,
    /// String: everything but a scalar is a type error; `!!str null` is the string "null"
    Str,
}

#[derive(Debug, Deserialize, PartialEq)]
enum Cmd {
    Start,
    Stop,
    Wait(Option<i64>),
}

#[derive(Clone, Debug, Serialize, Deserialize)]
struct Case {
    parts: Vec<Part>,
    target: Target,
    crlf: bool,
    /// leading byte-order marks: one is ignored by every entry point, a second one is content
    /// of the first document - for the stream entry points exactly as for `from_str`
    #[serde(default)]
    boms: u8,
}

impl Part {
    fn body(&self) -> &'static str {
        let v = self.variant as usize;
        match self.kind {
            Kind::Mapping => ["a: 1\nb: 2\n", "k: 7\n", "{x: 1, y: 2}\n"][v % 3],
            Kind::Sequence => ["- 1\n- 2\n", "[3, 4]\n"][v % 2],
            Kind::Scalar => ["hello\n", "42\n", "'quoted text'\n"][v % 3],
            Kind::Empty => "",
            Kind::ExplicitNull => ["~\n", "null\n"][v % 2],
            Kind::CommentOnly => "# just a comment\n",
            Kind::DefinesAnchor => ["a: &x 5\nb: *x\n", "p: &x 9\n"][v % 2],
            Kind::AliasesEarlierAnchor => ["c: *x\n", "- *x\n"][v % 2],
            Kind::TypeErrorEarly => ["a: oops\nb: 2\n", "a: [1, 2]\nb: 3\n"][v % 2],
            Kind::TypeErrorLate => ["a: 1\nb:\n  c: [1, {d: 2}]\n  e: 5\nf: 6\n", "a: 1\nz: {q: [x, [y]], r: 2}\n"][v % 2],
            Kind::SyntaxError => ["a: 1\n b: 2\n", "key: 'unterminated\n", "a: b: c: d\n  - x\n"][v % 3],
            Kind::UnterminatedFlow => ["a: [1, 2\n", "{k: v\n"][v % 2],
            Kind::TypeThenSyntaxError => ["a: oops\nb: [1, 2\n", "a: [x]\nb: 'open\n"][v % 2],
            Kind::NestedValid => ["a: 1\nb: 2\nc: 3\n", "m: 1\n"][v % 2],
            Kind::EnumName => ["Start\n", "Stop\n"][v % 2],
            // (a top-level block scalar is closed by `...`: without it the parser takes the next
            // `---` line for content)
            Kind::EmptyString => ["''\n", "\"\"\n", "|\n...\n"][v % 3],
            Kind::TaggedStrNull => ["!!str null\n", "!!str ~\n"][v % 2],
            Kind::BarePayloadVariant => "Wait\n",
            Kind::TaggedUnitVariant => ["!Start\n", "!Stop ~\n"][v % 2],
            Kind::UndeclaredTagHandle => ["k:\n- !b!x\n", "- !b!x\n", "k: [!b!x]\n"][v % 3],
        }
    }
    fn has_syntax_error(&self) -> bool {
        matches!(self.kind, Kind::SyntaxError | Kind::UnterminatedFlow | Kind::TypeThenSyntaxError | Kind::UndeclaredTagHandle)
    }
    fn nullish(&self) -> bool {
        matches!(self.kind, Kind::Empty | Kind::ExplicitNull | Kind::CommentOnly)
    }
    /// text of this part alone, as a stream member
    fn text(&self) -> String {
        let mut s = String::from("---\n");
        s.push_str(self.body());
        if self.kind == Kind::EmptyString && self.variant % 3 == 2 {
            return s;
        }
        if self.end_marker && !self.has_syntax_error() {
            s.push_str("...");
            if self.trailing_comment {
                s.push_str(" # end of document");
            }
            s.push('\n');
        } else if self.trailing_comment && !self.has_syntax_error() {
            s.push_str("# trailing comment\n");
        }
        s
    }
}

fn stream_text(parts: &[Part], crlf: bool) -> String {
    let s: String = parts.iter().map(|p| p.text()).collect();
    if crlf { s.replace('\n', "\r\n") } else { s }
}

fn es(e: &serde_saphyr::Error) -> String {
    e.without_snippet().to_string()
}

/// one-byte-at-a-time reader (never returns 0 before EOF)
struct Slow<'a>(&'a [u8], usize);
impl<'a> std::io::Read for Slow<'a> {
    fn read(&mut self, buf: &mut [u8]) -> std::io::Result<usize> {
        if self.0.is_empty() || buf.is_empty() {
            return Ok(0);
        }
        let n = self.1.min(buf.len()).min(self.0.len());
        buf[..n].copy_from_slice(&self.0[..n]);
        self.0 = &self.0[n..];
        Ok(n)
    }
}

fn check_typed<T: DeserializeOwned + std::fmt::Debug + PartialEq>(c: &Case) -> Outcome {
    // (a second BOM turns the first document into other text, whose kind the generator does not
    // know: judged for one-document streams only, where the model is `from_str` itself)
    if c.boms >= 2 && (c.parts.len() != 1 || c.parts[0].has_syntax_error()) {
        return Outcome::Discard("second-bom-in-a-longer-stream");
    }
    let bom_prefix = "\u{feff}".repeat(c.boms as usize);
    let text = format!("{bom_prefix}{}", stream_text(&c.parts, c.crlf));
    // ---- model: every part on its own
    let mut alone: Vec<Result<T, String>> = vec![];
    for (i, p) in c.parts.iter().enumerate() {
        let t = format!("{}{}", if i == 0 { bom_prefix.as_str() } else { "" }, stream_text(std::slice::from_ref(p), c.crlf));
        alone.push(serde_saphyr::from_str::<T>(&t).map_err(|e| es(&e)));
    }
    // generator self-check: construction and observation must agree on syntax errors
    for (p, r) in c.parts.iter().zip(&alone) {
        if p.has_syntax_error() && r.is_ok() {
            return Outcome::Discard("selfcheck-syntax-error-part-accepted");
        }
        if p.kind == Kind::AliasesEarlierAnchor && r.is_ok() && c.boms < 2 {
            return Outcome::Fail(format!("a document aliasing an anchor it does not define was accepted on its own: {:?}", p.text()));
        }
    }
    let live: Vec<(usize, &Part)> = c.parts.iter().enumerate().filter(|(_, p)| !p.nullish() || c.boms >= 2).collect();
    let any_fail = live.iter().any(|(i, _)| alone[*i].is_err());

    // ---- batch
    let batch = serde_saphyr::from_multiple::<T>(&text);
    let batch_slice = serde_saphyr::from_slice_multiple::<T>(text.as_bytes());
    for (name, b) in [("from_multiple", &batch), ("from_slice_multiple", &batch_slice)] {
        match b {
            Ok(vs) => {
                if any_fail {
                    return Outcome::Fail(format!("{name} accepted a stream with a failing document: {vs:?} (stream {text:?})"));
                }
                let want: Vec<&T> = live.iter().map(|(i, _)| alone[*i].as_ref().unwrap()).collect();
                if vs.len() != want.len() || vs.iter().zip(&want).any(|(a, b)| a != *b) {
                    return Outcome::Fail(format!("{name} gives {vs:?}, the documents one by one give {want:?} (stream {text:?})"));
                }
            }
            Err(e) => {
                if !any_fail {
                    return Outcome::Fail(format!("{name} rejected a stream whose documents are all valid on their own: {} (stream {text:?})", es(e)));
                }
            }
        }
    }

    // ---- iterator (reader, 1 byte and 7 bytes at a time)
    // (with a second BOM the first document is a text of unknown kind - it may be a root scalar
    // followed by a syntax error, which the iterator yields before it reaches the error: only
    // the batch and single-document entry points are compared with `from_str` there)
    let chunks: &[usize] = if c.boms >= 2 { &[] } else { &[1usize, 7, 1 << 16] };
    for &chunk in chunks {
        let mut rd = Slow(text.as_bytes(), chunk);
        let mut items: Vec<Result<T, String>> = vec![];
        let limit = text.len() + 2;
        {
            let it = serde_saphyr::read::<_, T>(&mut rd);
            for r in it {
                items.push(r.map_err(|e| es(&e)));
                if items.len() > limit {
                    return Outcome::Fail(format!("read iterator yielded more than len+2 = {limit} items (does not terminate) (stream {text:?})"));
                }
            }
        }
        // walk the model
        let mut k = 0usize; // index into items
        let mut free_tail = false;
        for (i, p) in &live {
            let Some(item) = items.get(k) else {
                if free_tail {
                    break;
                }
                return Outcome::Fail(format!("read iterator (chunk {chunk}) ended after {k} items; document #{i} ({:?}) was not yielded (stream {text:?}; items {items:?})", p.kind));
            };
            k += 1;
            match (&alone[*i], item) {
                (Ok(a), Ok(b)) => {
                    if a != b {
                        return Outcome::Fail(format!("read iterator (chunk {chunk}) item {k} is {b:?}, document #{i} on its own gives {a:?} (stream {text:?})"));
                    }
                }
                (Err(_), Err(_)) => {
                    if p.has_syntax_error() {
                        // the iterator ends after a syntax error
                        if items.len() > k {
                            return Outcome::Fail(format!("read iterator (chunk {chunk}) kept going after a syntax error in document #{i}: {} items (stream {text:?}; items {items:?})", items.len()));
                        }
                        k = usize::MAX;
                        break;
                    }
                    if p.kind == Kind::AliasesEarlierAnchor {
                        // whether an unknown anchor is recoverable is not fixed by the property:
                        // either the iterator ends here, or it goes on correctly
                        free_tail = true;
                    }
                }
                (Ok(a), Err(e)) => {
                    return Outcome::Fail(format!("read iterator (chunk {chunk}) item {k} is an error ({e}), document #{i} on its own gives {a:?} (stream {text:?})"));
                }
                (Err(e), Ok(b)) => {
                    return Outcome::Fail(format!("read iterator (chunk {chunk}) item {k} is {b:?}, document #{i} on its own fails ({e}) (stream {text:?})"));
                }
            }
        }
        if k != usize::MAX && items.len() > k {
            return Outcome::Fail(format!("read iterator (chunk {chunk}) yielded {} items for {} non-empty documents (stream {text:?}; items {items:?})", items.len(), live.len()));
        }
        // no document fails => iterator == batch
        if !any_fail {
            if let Ok(vs) = &batch {
                let it_ok: Vec<&T> = items.iter().filter_map(|r| r.as_ref().ok()).collect();
                if it_ok.len() != vs.len() || it_ok.iter().zip(vs).any(|(a, b)| *a != b) {
                    return Outcome::Fail(format!("iterator items {items:?} differ from the batch result {vs:?} (stream {text:?})"));
                }
            }
        }
    }

    // ---- single-document entry points
    let single = [
        ("from_str", serde_saphyr::from_str::<T>(&text).map_err(|e| es(&e))),
        ("from_slice", serde_saphyr::from_slice::<T>(text.as_bytes()).map_err(|e| es(&e))),
        ("from_reader", serde_saphyr::from_reader::<_, T>(Slow(text.as_bytes(), 3)).map_err(|e| es(&e))),
    ];
    for (name, r) in &single {
        if c.parts.len() == 1 {
            match (r, &alone[0]) {
                (Ok(a), Ok(b)) if a == b => {}
                (Err(_), Err(_)) => {}
                _ => return Outcome::Fail(format!("{name} on a one-document stream gives {r:?}, expected {:?} (stream {text:?})", alone[0])),
            }
        } else if c.parts[1..].iter().any(|p| !p.nullish()) {
            // a second document with content must be rejected
            if let Ok(v) = r {
                return Outcome::Fail(format!("{name} accepted a stream with a second document: {v:?} (stream {text:?})"));
            }
        }
        // later documents all empty / null: not fixed by the property
    }
    // the same under options: a limit that the second document breaches (documents, events) must
    // not turn the stream into an accepted single document either
    if c.parts.len() >= 2 && c.parts[1..].iter().any(|p| !p.nullish()) {
        for (label, f) in [
            ("max_documents = 1", (|b: &mut vcheck::opts::BudgetD| b.max_documents = 1) as fn(&mut vcheck::opts::BudgetD)),
            ("max_documents = 2", |b| b.max_documents = 2),
            ("max_events = 12", |b| b.max_events = 12),
            ("max_nodes = 6", |b| b.max_nodes = 6),
        ] {
            let mut b = vcheck::opts::BudgetD::default_budget();
            f(&mut b);
            let o = vcheck::opts::DeOpts { budget: vcheck::opts::BudgetSel::Explicit(b), ..Default::default() };
            let rs = [
                ("from_str_with_options", serde_saphyr::from_str_with_options::<T>(&text, o.build()).map_err(|e| es(&e))),
                ("from_reader_with_options", serde_saphyr::from_reader_with_options::<_, T>(Slow(text.as_bytes(), 3), o.build()).map_err(|e| es(&e))),
            ];
            for (name, r) in &rs {
                if let Ok(v) = r {
                    return Outcome::Fail(format!("{name} with {label} accepted a stream with a second document: {v:?} (stream {text:?})"));
                }
            }
        }
    }
    Outcome::Pass
}

struct C11;

fn nontrivial(c: &Case) -> bool {
    c.parts.len() >= 2
        && c.parts.iter().any(|p| {
            p.has_syntax_error() || matches!(p.kind, Kind::TypeErrorEarly | Kind::TypeErrorLate | Kind::DefinesAnchor | Kind::AliasesEarlierAnchor)
        })
}

impl Property for C11 {
    const ID: &'static str = "C11";
    type Case = Case;
    fn rule() -> String {
        "cases = sequences over 20 document kinds (mapping, sequence, scalar, empty, explicit null, comment-only, defines an anchor, aliases an anchor of an earlier document, type error early, type error late inside nesting, syntax error, unterminated flow, type error followed by a syntax error, another valid mapping, a bare enum variant name - of a unit variant and of a variant with an optional payload -, an empty string, a null-like scalar tagged `!!str`, a tag-selected unit variant without payload, an undeclared tag handle - a syntax error after which the parser itself would go on), 2-3 concrete texts per kind, with/without `...` end markers and trailing comments, LF/CRLF; all sequences of length <= 3 (thorough: <= 4) and random ones up to length 8; targets: untyped tree, BTreeMap<String,i64>, String and an enum (for which several kinds are type errors, some raised on a peeked event). Oracle: a model built from parsing each part alone with from_str: batch = Err if a part fails else the list of the non-empty parts; iterator = Ok / Err per part, continuing after a type-level error and ending after a part that contains a syntax error, never more than len+2 items, equal to batch when nothing fails; single-document entry points reject a stream whose later part has content. Non-trivial: >= 2 parts one of which is an error or anchor-related kind.".into()
    }
    fn assumptions() -> Vec<String> {
        vec![
            "parts are classified by construction (a part that contains a syntax error anywhere ends the iterator even if a type error surfaces first)".into(),
            "after a document aliasing an anchor of an earlier document the iterator may either end or continue (not fixed by the property); a trailing empty document after a single-document entry point's value is not judged".into(),
        ]
    }
    fn check(c: &Case) -> Outcome {
        // (`!!str null` is a string for a String target; what the other targets make of it -
        // the untyped one reads a null - is reader leniency outside this property)
        if c.target != Target::Str && c.parts.iter().any(|p| p.kind == Kind::TaggedStrNull) {
            return Outcome::Discard("tagged-null-string-for-a-non-string-target");
        }
        // (likewise a tag-selected variant without payload is a value for the enum target only)
        if c.target != Target::Cmd && c.parts.iter().any(|p| p.kind == Kind::TaggedUnitVariant) {
            return Outcome::Discard("tagged-unit-variant-for-a-non-enum-target");
        }
        match c.target {
            Target::Str => check_typed::<String>(c),
            Target::Untyped => check_typed::<U>(c),
            Target::IntMap => check_typed::<BTreeMap<String, i64>>(c),
            Target::Cmd => check_typed::<Cmd>(c),
        }
    }
    fn shrink(c: &Case) -> Vec<Case> {
        let mut out = vec![];
        for i in 0..c.parts.len() {
            if c.parts.len() > 1 {
                let mut p = c.parts.clone();
                p.remove(i);
                out.push(Case { parts: p, ..c.clone() });
            }
        }
        for i in 0..c.parts.len() {
            if c.parts[i].end_marker || c.parts[i].trailing_comment || c.parts[i].variant != 0 {
                let mut p = c.parts.clone();
                p[i].end_marker = false;
                p[i].trailing_comment = false;
                p[i].variant = 0;
                out.push(Case { parts: p, ..c.clone() });
            }
        }
        if c.crlf {
            out.push(Case { crlf: false, ..c.clone() });
        }
        if c.boms > 0 {
            out.push(Case { boms: c.boms - 1, ..c.clone() });
        }
        out
    }
    /// libFuzzer input: target, line-break style, then 1-8 parts (kind, variant, end marker,
    /// trailing comment)
    fn fuzz_decode(data: &[u8]) -> Option<(&'static str, Case, bool)> {
        let mut b = engine::Bytes::new(data);
        let target = b.pick(&[Target::Untyped, Target::IntMap, Target::Cmd, Target::Str]);
        let crlf = b.bool();
        let n = 1 + b.below(8);
        let parts: Vec<Part> = (0..n)
            .map(|_| {
                let flags = b.u8();
                Part { kind: b.pick(&KINDS), variant: flags % 3, end_marker: flags & 16 != 0, trailing_comment: flags & 32 != 0 }
            })
            .collect();
        let boms = [0u8, 0, 0, 1, 2][b.below(5)];
        let c = Case { parts, target, crlf, boms };
        let nt = nontrivial(&c);
        Some(("fuzz-streams", c, nt))
    }
    fn generate(ctx: &mut Ctx<Self>) {
        let maxlen = ctx.tier.pick(3, 4);
        let mut idx = 0u64;
        let mut total = 0u64;
        for len in 1..=maxlen {
            let n = KINDS.len().pow(len as u32);
            for code in 0..n {
                let mut parts = vec![];
                let mut cc = code;
                for j in 0..len {
                    let k = KINDS[cc % KINDS.len()];
                    cc /= KINDS.len();
                    // decoration rotates deterministically
                    let salt = code * 7 + j * 3;
                    parts.push(Part { kind: k, variant: (salt % 3) as u8, end_marker: salt % 4 == 1, trailing_comment: salt % 5 == 2 });
                }
                for target in [Target::Untyped, Target::IntMap, Target::Cmd, Target::Str] {
                    idx += 1;
                    total += 1;
                    if ctx.mine(idx) {
                        let c = Case { parts: parts.clone(), target, crlf: code % 6 == 5, boms: [0u8, 0, 1, 0, 2, 0, 0][(code % 7) as usize] };
                        let nt = nontrivial(&c);
                        if target == Target::Untyped {
                            for p in &c.parts {
                                ctx.class(&format!("kind {:?}", p.kind));
                            }
                        }
                        ctx.case("exhaustive", &c, nt);
                    }
                }
            }
        }
        ctx.subspace(&format!("all sequences of length <= {maxlen} over 20 document kinds x 4 targets"), total, true);

        let part = (prop::sample::select(KINDS.to_vec()), 0u8..3, any::<bool>(), any::<bool>()).prop_map(|(kind, variant, e, t)| Part { kind, variant, end_marker: e, trailing_comment: t });
        // bias towards valid kinds so that long streams survive
        let good_part = (prop::sample::select(vec![Kind::Mapping, Kind::NestedValid, Kind::Empty, Kind::ExplicitNull, Kind::CommentOnly, Kind::DefinesAnchor, Kind::TypeErrorEarly, Kind::TypeErrorLate, Kind::Sequence, Kind::Scalar, Kind::EnumName, Kind::EnumName]), 0u8..3, any::<bool>(), any::<bool>())
            .prop_map(|(kind, variant, e, t)| Part { kind, variant, end_marker: e, trailing_comment: t });
        let strat = (prop::collection::vec(prop_oneof![3 => good_part, 1 => part], 1..9), prop::sample::select(vec![Target::Untyped, Target::IntMap, Target::Cmd, Target::Str]), any::<bool>(), prop::sample::select(vec![0u8, 0, 0, 1, 2]))
            .prop_map(|(parts, target, crlf, boms)| Case { parts, target, crlf, boms });
        ctx.run_strategy("random-long", 1, ctx.tier.pick(30_000, 400_000), &strat, nontrivial);
    }
}

fn main() {
    engine::main::<C11>()
}

/// entry point of the libFuzzer target `fuzz/fuzz_targets/c11.rs`
#[allow(dead_code)]
pub fn fuzz(data: &[u8]) {
    engine::fuzz_one::<C11>(data)
}
