//! C17 – rendered error reports are terminal-safe, cropped and show the right line.
//!
//! skeleton (exploration stage): types, entry-point dispatch, renderers and a `show` mode.
use serde::{Deserialize, Serialize};
use std::borrow::Cow;
use std::collections::BTreeMap;
use vcheck::engine::{self, Ctx, Outcome, Property};
use vcheck::opts::DeOpts;
use vcheck::untyped::U;

use serde_saphyr::localizer::{ExternalMessage, Localizer};
use serde_saphyr::{DefaultMessageFormatter, Error, Location, MessageFormatter, SnippetMode, UserMessageFormatter};

// ------------------------------------------------------------------------------------------
// case

#[derive(Clone, Copy, Debug, Serialize, Deserialize, PartialEq, Eq)]
enum Target {
    Strict,
    Enum,
    MapI32,
    VecI32,
    I32,
    Bool,
    Str,
    Char,
    Wrap,
    Reflect,
    Untyped,
    Alias,
    Garde,
    Validator,
}

#[derive(Clone, Copy, Debug, Serialize, Deserialize, PartialEq, Eq)]
enum Entry {
    Str,
    Slice,
    Multi,
    Reader1,
    Reader7,
    Reader8192,
    ReadIter,
}

#[derive(Clone, Debug, Serialize, Deserialize)]
struct Case {
    text: String,
    target: Target,
    entry: Entry,
    opts: DeOpts,
}

// ------------------------------------------------------------------------------------------
// target types

#[derive(Debug, Deserialize)]
#[serde(deny_unknown_fields)]
#[allow(dead_code)]
struct Strict {
    a: i32,
    #[serde(default)]
    b: Option<String>,
    #[serde(default)]
    c: Vec<i32>,
}

#[derive(Debug, Deserialize)]
#[allow(dead_code)]
enum En {
    Alpha,
    Beta(i32),
    Gamma { x: i32 },
}

#[derive(Debug, Deserialize)]
#[allow(dead_code)]
struct Wrap {
    #[serde(default)]
    e: Option<En>,
    #[serde(default)]
    m: BTreeMap<String, i32>,
    #[serde(default)]
    s: Option<Strict>,
    #[serde(default)]
    v: Vec<String>,
    #[serde(default)]
    ch: Option<char>,
    #[serde(default)]
    f: Option<f64>,
    #[serde(default)]
    t: Option<(i32, bool)>,
}

#[derive(Debug, Deserialize)]
#[allow(dead_code)]
struct AliasT {
    count: u64,
    flag: bool,
}

/// A type whose `Deserialize` reflects the scalar it saw through serde's error constructors
/// (what hand-written impls and many third-party types do).
#[derive(Debug)]
#[allow(dead_code)]
struct ReflectLeaf(String);
impl<'de> Deserialize<'de> for ReflectLeaf {
    fn deserialize<D: serde::Deserializer<'de>>(d: D) -> Result<Self, D::Error> {
        use serde::de::{Error as _, Unexpected};
        let s = String::deserialize(d)?;
        if let Some(rest) = s.strip_prefix("custom:") {
            return Err(D::Error::custom(format!("bad thing {rest}")));
        }
        if let Some(rest) = s.strip_prefix("value:") {
            return Err(D::Error::invalid_value(Unexpected::Str(rest), &"something nicer"));
        }
        if let Some(rest) = s.strip_prefix("char:") {
            if let Some(c) = rest.chars().next() {
                return Err(D::Error::invalid_type(Unexpected::Char(c), &"no char"));
            }
        }
        if let Some(rest) = s.strip_prefix("other:") {
            return Err(D::Error::invalid_type(Unexpected::Other(rest), &"no other"));
        }
        Ok(ReflectLeaf(s))
    }
}
#[derive(Debug, Deserialize)]
#[allow(dead_code)]
struct Reflect {
    #[serde(default)]
    r: Option<ReflectLeaf>,
    #[serde(default)]
    l: Vec<ReflectLeaf>,
}

#[derive(Debug, Deserialize, garde::Validate)]
#[allow(dead_code)]
struct GardeInner {
    #[garde(length(min = 3))]
    name: String,
    #[garde(range(min = 1, max = 9))]
    n: i32,
}
#[derive(Debug, Deserialize, garde::Validate)]
#[allow(dead_code)]
struct GardeDoc {
    #[garde(dive)]
    #[serde(default)]
    items: BTreeMap<String, GardeInner>,
    #[garde(dive)]
    #[serde(default)]
    list: Vec<GardeInner>,
    #[garde(length(min = 2))]
    #[serde(default = "ok_title")]
    title: String,
}
fn ok_title() -> String {
    "title".to_string()
}

use validator::Validate;
#[derive(Debug, Deserialize, Validate)]
#[allow(dead_code)]
struct ValidatorInner {
    #[validate(length(min = 3))]
    name: String,
    #[validate(range(min = 1, max = 9))]
    n: i32,
}
#[derive(Debug, Deserialize, Validate)]
#[allow(dead_code)]
struct ValidatorDoc {
    #[validate(nested)]
    #[serde(default)]
    items: BTreeMap<String, ValidatorInner>,
    #[validate(nested)]
    #[serde(default)]
    list: Vec<ValidatorInner>,
    #[validate(length(min = 2))]
    #[serde(default = "ok_title")]
    title: String,
}

// ------------------------------------------------------------------------------------------
// readers

struct ChunkReader<'a> {
    data: &'a [u8],
    pos: usize,
    chunk: usize,
    eof_reads: usize,
}
impl std::io::Read for ChunkReader<'_> {
    fn read(&mut self, buf: &mut [u8]) -> std::io::Result<usize> {
        let n = buf.len().min(self.chunk).min(self.data.len() - self.pos);
        if n == 0 && !buf.is_empty() {
            self.eof_reads += 1;
            // safety net against the known reader hang (see `reader_hang_risk`): a consumer that
            // keeps polling at end of input is stopped by an I/O error instead of looping forever
            if self.eof_reads > 64 {
                return Err(std::io::Error::other("harness: too many reads at end of input"));
            }
        }
        buf[..n].copy_from_slice(&self.data[self.pos..self.pos + n]);
        self.pos += n;
        Ok(n)
    }
}

/// Known open defect in the parser dependency: every reader entry point loops forever
/// (allocating) when the text after the last line break starts with `%` and runs to the end of
/// input. Conservative predicate: the last, unterminated line contains a `%` at all.
fn reader_hang_risk(text: &str) -> bool {
    let last = text.rsplit(['\n', '\r']).next().unwrap_or("");
    last.contains('%')
}

// ------------------------------------------------------------------------------------------
// running a case

fn parse_as<T: serde::de::DeserializeOwned>(c: &Case) -> Option<Error> {
    let o = c.opts.build();
    match c.entry {
        Entry::Str => serde_saphyr::from_str_with_options::<T>(&c.text, o).err(),
        Entry::Slice => serde_saphyr::from_slice_with_options::<T>(c.text.as_bytes(), o).err(),
        Entry::Multi => serde_saphyr::from_multiple_with_options::<T>(&c.text, o).err(),
        Entry::Reader1 | Entry::Reader7 | Entry::Reader8192 => {
            let chunk = match c.entry {
                Entry::Reader1 => 1,
                Entry::Reader7 => 7,
                _ => 8192,
            };
            let r = ChunkReader { data: c.text.as_bytes(), pos: 0, chunk, eof_reads: 0 };
            serde_saphyr::from_reader_with_options::<_, T>(r, o).err()
        }
        Entry::ReadIter => {
            let mut r = ChunkReader { data: c.text.as_bytes(), pos: 0, chunk: 512, eof_reads: 0 };
            let it = serde_saphyr::read_with_options::<_, T>(&mut r, o);
            let mut n = 0;
            for item in it {
                if let Err(e) = item {
                    return Some(e);
                }
                n += 1;
                if n > 10_000 {
                    break;
                }
            }
            None
        }
    }
}

fn parse_case(c: &Case) -> Option<Error> {
    match c.target {
        Target::Strict => parse_as::<Strict>(c),
        Target::Enum => parse_as::<En>(c),
        Target::MapI32 => parse_as::<BTreeMap<String, i32>>(c),
        Target::VecI32 => parse_as::<Vec<i32>>(c),
        Target::I32 => parse_as::<i32>(c),
        Target::Bool => parse_as::<bool>(c),
        Target::Str => parse_as::<String>(c),
        Target::Char => parse_as::<char>(c),
        Target::Wrap => parse_as::<Wrap>(c),
        Target::Reflect => parse_as::<Reflect>(c),
        Target::Untyped => parse_as::<U>(c),
        Target::Alias => parse_as::<AliasT>(c),
        Target::Garde => {
            let o = c.opts.build();
            match c.entry {
                Entry::Reader1 | Entry::Reader7 | Entry::Reader8192 | Entry::ReadIter => {
                    let chunk = if c.entry == Entry::Reader1 { 1 } else { 8192 };
                    let r = ChunkReader { data: c.text.as_bytes(), pos: 0, chunk, eof_reads: 0 };
                    serde_saphyr::from_reader_with_options_valid::<_, GardeDoc>(r, o).err()
                }
                Entry::Multi => serde_saphyr::from_multiple_with_options_valid::<GardeDoc>(&c.text, o).err(),
                _ => serde_saphyr::from_str_with_options_valid::<GardeDoc>(&c.text, o).err(),
            }
        }
        Target::Validator => {
            let o = c.opts.build();
            match c.entry {
                Entry::Reader1 | Entry::Reader7 | Entry::Reader8192 | Entry::ReadIter => {
                    let chunk = if c.entry == Entry::Reader1 { 1 } else { 8192 };
                    let r = ChunkReader { data: c.text.as_bytes(), pos: 0, chunk, eof_reads: 0 };
                    serde_saphyr::from_reader_with_options_validate::<_, ValidatorDoc>(r, o).err()
                }
                Entry::Multi => serde_saphyr::from_multiple_with_options_validate::<ValidatorDoc>(&c.text, o).err(),
                _ => serde_saphyr::from_str_with_options_validate::<ValidatorDoc>(&c.text, o).err(),
            }
        }
    }
}

fn is_reader(e: Entry) -> bool {
    matches!(e, Entry::Reader1 | Entry::Reader7 | Entry::Reader8192 | Entry::ReadIter)
}

// ------------------------------------------------------------------------------------------
// formatters (the custom ones are written so that they never emit a control character themselves)

struct HarnessLocalizer;
impl Localizer for HarnessLocalizer {
    fn attach_location<'a>(&self, base: Cow<'a, str>, loc: Location) -> Cow<'a, str> {
        if loc == Location::UNKNOWN {
            base
        } else {
            Cow::Owned(format!("{base} [zeile {} spalte {}]", loc.line(), loc.column()))
        }
    }
    fn root_path_label(&self) -> Cow<'static, str> {
        Cow::Borrowed("<wurzel>")
    }
    fn alias_defined_at(&self, d: Location) -> String {
        format!(" (definiert in zeile {} spalte {})", d.line(), d.column())
    }
    fn defined(&self) -> Cow<'static, str> {
        Cow::Borrowed("(definiert)")
    }
    fn defined_here(&self) -> Cow<'static, str> {
        Cow::Borrowed("(hier definiert)")
    }
    fn value_used_here(&self) -> Cow<'static, str> {
        Cow::Borrowed("wert hier benutzt")
    }
    fn defined_window(&self) -> Cow<'static, str> {
        Cow::Borrowed("hier definiert")
    }
    fn snippet_location_prefix(&self, loc: Location) -> String {
        if loc == Location::UNKNOWN {
            String::new()
        } else {
            format!("zeile {} spalte {}", loc.line(), loc.column())
        }
    }
    fn override_external_message<'a>(&self, m: ExternalMessage<'a>) -> Option<Cow<'a, str>> {
        // a fixed, clean replacement for parser messages; validator/garde texts are kept
        match m.source {
            serde_saphyr::localizer::ExternalMessageSource::SaphyrParser => Some(Cow::Borrowed("syntaxfehler")),
            _ => None,
        }
    }
}
static HARNESS_L10N: HarnessLocalizer = HarnessLocalizer;

struct HarnessFormatter;
impl MessageFormatter for HarnessFormatter {
    fn localizer(&self) -> &dyn Localizer {
        &HARNESS_L10N
    }
    fn format_message<'a>(&self, err: &'a Error) -> Cow<'a, str> {
        match err {
            Error::Eof { .. } => Cow::Borrowed("dokument fehlt"),
            Error::UnknownAnchor { .. } => Cow::Borrowed("unbekannte referenz"),
            Error::InvalidScalar { ty, .. } => Cow::Owned(format!("kein gueltiger wert fuer {ty}")),
            _ => UserMessageFormatter.format_message(err),
        }
    }
}

#[derive(Clone, Copy, Debug, PartialEq, Eq)]
enum Fm {
    Display,
    Dev,
    User,
    Custom,
    DevL10n,
}
const FM_ALL: [Fm; 5] = [Fm::Display, Fm::Dev, Fm::User, Fm::Custom, Fm::DevL10n];

fn with_formatter<R>(fm: Fm, f: impl FnOnce(&dyn MessageFormatter) -> R) -> R {
    match fm {
        Fm::Display | Fm::Dev => f(&DefaultMessageFormatter),
        Fm::User => f(&UserMessageFormatter),
        Fm::Custom => f(&HarnessFormatter),
        Fm::DevL10n => f(&DefaultMessageFormatter.with_localizer(&HARNESS_L10N)),
    }
}

fn render(err: &Error, fm: Fm, mode: SnippetMode) -> String {
    if fm == Fm::Display && mode == SnippetMode::Auto {
        return err.to_string();
    }
    with_formatter(fm, |f| {
        let mut ro = serde_saphyr::RenderOptions::new(f);
        ro.snippets = mode;
        err.render_with_options(ro)
    })
}

struct MietteOut {
    message: String,
    labels: Vec<String>,
    source: Option<String>,
    graphical: Result<String, ()>,
    narrated: Result<String, ()>,
}

fn collect_diag(d: &dyn miette::Diagnostic, message: &mut String, labels: &mut Vec<String>) {
    message.push_str(&d.to_string());
    message.push('\n');
    if let Some(ls) = d.labels() {
        for l in ls {
            if let Some(t) = l.label() {
                labels.push(t.to_string());
            }
        }
    }
    if let Some(h) = d.help() {
        message.push_str(&h.to_string());
    }
    if let Some(rel) = d.related() {
        for r in rel {
            collect_diag(r, message, labels);
        }
    }
}

fn render_miette(err: &Error, text: &str, fm: Fm) -> MietteOut {
    use miette::{GraphicalReportHandler, GraphicalTheme, NarratableReportHandler};
    let report = with_formatter(fm, |f| serde_saphyr::miette::to_miette_report_with_formatter(err, text, "input.yaml", f));
    let d: &dyn miette::Diagnostic = report.as_ref();
    let mut message = String::new();
    let mut labels = vec![];
    collect_diag(d, &mut message, &mut labels);
    let source = d.source_code().and_then(|sc| {
        let total = text.len();
        sc.read_span(&miette::SourceSpan::new(0.into(), total), 0, 0)
            .ok()
            .map(|c| String::from_utf8_lossy(c.data()).into_owned())
    });
    let mut g = String::new();
    let gh = GraphicalReportHandler::new_themed(GraphicalTheme::unicode_nocolor()).with_width(100);
    let graphical = gh.render_report(&mut g, d).map(|_| g).map_err(|_| ());
    let mut n = String::new();
    let narrated = NarratableReportHandler::new().render_report(&mut n, d).map(|_| n).map_err(|_| ());
    MietteOut { message, labels, source, graphical, narrated }
}


// ------------------------------------------------------------------------------------------
// oracle part (2): forbidden characters

fn is_forbidden(ch: char) -> bool {
    let u = ch as u32;
    (u < 0x20 && ch != '\n' && ch != '\t') || u == 0x7f || (0x80..=0x9f).contains(&u)
}
fn first_forbidden(s: &str) -> Option<(usize, char)> {
    s.chars().enumerate().find(|(_, c)| is_forbidden(*c))
}
fn scan(what: &str, s: &str) -> Result<(), String> {
    match first_forbidden(s) {
        None => Ok(()),
        Some((i, c)) => {
            let from = i.saturating_sub(30);
            let ctx: String = s.chars().skip(from).take(60).collect();
            Err(format!("{what}: control character U+{:04X} in the output (char {i}; context {:?})", c as u32, ctx))
        }
    }
}

// ------------------------------------------------------------------------------------------
// model of the input text as the snippet code sees it

/// Width of one character as the renderer (annotate-snippets `char_width`) counts it.
fn cw(ch: char) -> usize {
    use unicode_width::UnicodeWidthChar;
    match ch {
        '\t' => 4,
        _ if is_forbidden(ch) => 1,
        '\u{202A}' | '\u{202B}' | '\u{202D}' | '\u{202E}' | '\u{2066}' | '\u{2067}' | '\u{2068}' | '\u{202C}' | '\u{2069}' => 1,
        _ => ch.width().unwrap_or(1),
    }
}
fn sw(s: &str) -> usize {
    s.chars().map(cw).sum()
}

/// What `sanitize_terminal_snippet_preserve_len` documents: C0 (except \n, \t) and DEL become a
/// space, C1 becomes NBSP.
fn sanitize_char(ch: char) -> char {
    let u = ch as u32;
    if (u < 0x20 && ch != '\n' && ch != '\t') || u == 0x7f {
        ' '
    } else if (0x80..=0x9f).contains(&u) {
        '\u{a0}'
    } else {
        ch
    }
}

/// One input line prepared for matching: `pieces[k]` is what source character k looks like in
/// the rendering.
struct LineModel {
    nchars: usize,
    full: String,
    /// byte offset of piece k in `full` (len = nchars + 1)
    starts: Vec<usize>,
    widths: Vec<usize>,
}
impl LineModel {
    /// `annotate`: apply the replacements of the annotate-snippets renderer (tab = 4 spaces, ZWJ
    /// removed, bidi controls shown as U+FFFD) on top of the library's sanitisation.
    fn new(line: &str, annotate: bool) -> LineModel {
        let mut full = String::new();
        let mut starts = vec![];
        let mut widths = vec![];
        for ch in line.chars() {
            starts.push(full.len());
            let c = sanitize_char(ch);
            let before = full.len();
            if annotate {
                match c {
                    '\t' => full.push_str("    "),
                    '\u{200d}' => {}
                    '\u{202A}' | '\u{202B}' | '\u{202C}' | '\u{202D}' | '\u{202E}' | '\u{2066}' | '\u{2067}' | '\u{2068}' | '\u{2069}' => {
                        full.push('\u{fffd}')
                    }
                    c => full.push(c),
                }
            } else {
                full.push(c);
            }
            widths.push(sw(&full[before..]));
        }
        starts.push(full.len());
        LineModel { nchars: widths.len(), full, starts, widths }
    }
}

struct Model {
    /// lines as the snippet code splits them: at '\n', one trailing '\r' removed, leading BOM dropped;
    /// a text ending in '\n' has a final empty line
    lines: Vec<String>,
    /// a '\r' that is not part of "\r\n": the parser counts it as a line break, the snippet code
    /// does not; layout checks are not applied to such inputs
    lone_cr: bool,
    ends_with_newline: bool,
}
impl Model {
    fn new(text: &str) -> Model {
        let t = text.strip_prefix('\u{feff}').unwrap_or(text);
        let mut lone_cr = false;
        let lines: Vec<String> = if t.is_empty() {
            vec![]
        } else {
            t.split('\n')
                .map(|l| {
                    let l = l.strip_suffix('\r').unwrap_or(l);
                    if l.contains('\r') {
                        lone_cr = true;
                    }
                    l.to_string()
                })
                .collect()
        };
        // a '\r' at the very end of the text (no '\n' after it) is also a lone CR
        if t.ends_with('\r') {
            lone_cr = true;
        }
        Model { lines, lone_cr, ends_with_newline: t.ends_with('\n') }
    }
    fn line(&self, n: usize) -> Option<&str> {
        if n == 0 { None } else { self.lines.get(n - 1).map(|s| s.as_str()) }
    }
}

// ------------------------------------------------------------------------------------------
// layout parser

#[derive(Debug, Clone)]
enum GLine {
    /// `N | text`: (number, text, display column where the text starts)
    Src(usize, String, usize),
    /// `  | rest`: (rest, display column where rest starts)
    Mark(String, usize),
}

/// Split a gutter line. `None` when the line does not have the gutter form.
fn gutter(line: &str) -> Option<GLine> {
    let bar = line.find('|')?;
    let head = &line[..bar];
    if !head.ends_with(' ') {
        return None;
    }
    let num = head.trim();
    if !num.chars().all(|c| c.is_ascii_digit()) || !head.chars().all(|c| c == ' ' || c.is_ascii_digit()) {
        return None;
    }
    let after = &line[bar + 1..];
    let (rest, col) = if after.is_empty() {
        ("", bar + 1)
    } else if let Some(r) = after.strip_prefix(' ') {
        (r, bar + 2)
    } else {
        return None;
    };
    if num.is_empty() {
        Some(GLine::Mark(rest.to_string(), col))
    } else {
        // digits must be contiguous and right-aligned against " |"
        if head.trim_start().len() != num.len() + 1 {
            return None;
        }
        Some(GLine::Src(num.parse().ok()?, rest.to_string(), col))
    }
}

#[derive(Debug)]
struct Window {
    /// (line, column) this window is about
    loc: (usize, usize),
    /// line number in the ` --> path:L:C` line, when present
    arrow_line: Option<usize>,
    lines: Vec<GLine>,
    secondary: bool,
}

/// `line L column C` / `zeile L spalte C` (the harness' localizer) at the start of `s`
fn parse_prefix(s: &str) -> Option<(usize, usize, &str)> {
    for (a, b) in [("line ", " column "), ("zeile ", " spalte ")] {
        if let Some(r) = s.strip_prefix(a) {
            let n1 = r.find(|c: char| !c.is_ascii_digit())?;
            let l: usize = r[..n1].parse().ok()?;
            let r2 = r[n1..].strip_prefix(b)?;
            let n2 = r2.find(|c: char| !c.is_ascii_digit()).unwrap_or(r2.len());
            let c: usize = r2[..n2].parse().ok()?;
            return Some((l, c, &r2[n2..]));
        }
    }
    None
}

const ANCHOR_INTRO: &str = "  | This value comes indirectly from the anchor at ";

/// Find the snippet windows of a rendering. Returns `None` when the rendering is not in the
/// snippet form at all (plain one-line form), `Err` when it looks like the snippet form but the
/// parser cannot make sense of it (counted, never a violation).
fn parse_windows(out: &str) -> Result<Option<Vec<Window>>, String> {
    let ls: Vec<&str> = out.split('\n').collect();
    let mut wins: Vec<Window> = vec![];
    let mut i = 0;
    while i < ls.len() {
        let l = ls[i];
        if let Some(rest) = l.strip_prefix("error: ") {
            if let Some((line, col, _)) = parse_prefix(rest) {
                // expect the arrow line next
                let Some(arrow) = ls.get(i + 1) else { return Err("title without arrow line".into()) };
                let at = arrow.trim_start();
                let Some(path) = at.strip_prefix("--> ") else {
                    return Err("title not followed by an arrow line".into());
                };
                // path:L:C – take the last two ':'-separated fields
                let mut it = path.rsplitn(3, ':');
                let _c = it.next();
                let al = it.next().and_then(|x| x.parse::<usize>().ok());
                let mut w = Window { loc: (line, col), arrow_line: al, lines: vec![], secondary: false };
                i += 2;
                while i < ls.len() {
                    if ls[i].starts_with(ANCHOR_INTRO) {
                        break;
                    }
                    match gutter(ls[i]) {
                        Some(g) => w.lines.push(g),
                        None => break,
                    }
                    i += 1;
                }
                wins.push(w);
                continue;
            }
        }
        if let Some(rest) = l.strip_prefix(ANCHOR_INTRO) {
            let Some((line, col, tail)) = parse_prefix(rest).or_else(|| {
                // "line L column C:" is produced by the default localizer
                None
            }) else {
                return Err("anchor intro without location".into());
            };
            if tail != ":" {
                return Err("anchor intro with unexpected tail".into());
            }
            let mut w = Window { loc: (line, col), arrow_line: None, lines: vec![], secondary: true };
            i += 1;
            while i < ls.len() {
                match gutter(ls[i]) {
                    Some(g) => w.lines.push(g),
                    None => break,
                }
                i += 1;
            }
            wins.push(w);
            continue;
        }
        i += 1;
    }
    if wins.is_empty() { Ok(None) } else { Ok(Some(wins)) }
}

// ------------------------------------------------------------------------------------------
// oracle parts (3), (4), (5)

struct Align {
    /// source character range shown
    i: usize,
    j: usize,
    /// display width of the left marker
    lead: usize,
    right_marker: bool,
}

/// All ways in which `shown` can be read as `["…"] + fragment of the line + ["…"]`.
fn alignments(lm: &LineModel, shown: &str) -> Vec<Align> {
    let mut out = vec![];
    for left in [false, true] {
        for right in [false, true] {
            let mut core = shown;
            if left {
                match core.strip_prefix('…') {
                    Some(c) => core = c,
                    None => continue,
                }
            }
            if right {
                match core.strip_suffix('…') {
                    Some(c) => core = c,
                    None => continue,
                }
            }
            if core.is_empty() {
                // nothing of the line is shown: any empty range; report the most favourable one
                out.push(Align { i: 0, j: 0, lead: usize::from(left), right_marker: right });
                if lm.nchars > 0 {
                    out.push(Align { i: lm.nchars, j: lm.nchars, lead: usize::from(left), right_marker: right });
                }
                continue;
            }
            for (pos, _) in lm.full.match_indices(core) {
                let end = pos + core.len();
                // both ends must be piece boundaries; with empty pieces several indices share an
                // offset: take the innermost ones (fewest characters)
                let Ok(_) = lm.starts.binary_search(&pos) else { continue };
                let Ok(_) = lm.starts.binary_search(&end) else { continue };
                let i = lm.starts.partition_point(|&s| s <= pos) - 1; // last index with start == pos
                let j = lm.starts.partition_point(|&s| s < end); // first index with start == end
                let (i, j) = if i > j { (j, j) } else { (i, j) };
                out.push(Align { i, j, lead: usize::from(left), right_marker: right });
                if out.len() > 64 {
                    return out;
                }
            }
        }
    }
    out
}

/// source indices whose rendering starts at display column `d` of the shown text
fn indices_at(lm: &LineModel, a: &Align, d: usize) -> (Vec<usize>, usize) {
    let mut col = a.lead;
    let mut v = vec![];
    for k in a.i..a.j {
        if col == d {
            v.push(k);
        }
        col += lm.widths[k];
    }
    (v, col) // col = display column just after the last shown character
}

#[derive(Default)]
struct Notes {
    snippet_form: bool,
    windows: usize,
    cropped_shown: bool,
    trimmed_by_renderer: bool,
    caret_checked: usize,
    caret_skipped: Vec<&'static str>,
    unparsed: Option<String>,
}

struct Ctx17<'a> {
    model: &'a Model,
    radius: usize,
    reader: bool,
}

fn check_window(cx: &Ctx17, w: &Window, notes: &mut Notes) -> Result<(), String> {
    let (l, c) = w.loc;
    let m = cx.model;
    let nlines = m.lines.len();
    let srcs: Vec<(usize, &str, usize)> = w
        .lines
        .iter()
        .filter_map(|g| if let GLine::Src(n, t, col) = g { Some((*n, t.as_str(), *col)) } else { None })
        .collect();
    // (3) vertical window
    if srcs.len() > 5 {
        return Err(format!("{} source lines shown (at most 5 documented)", srcs.len()));
    }
    for (n, _, _) in &srcs {
        if *n + 2 < l || *n > l + 2 {
            return Err(format!("line {n} shown, outside [L-2, L+2] for L = {l}"));
        }
    }
    for pair in srcs.windows(2) {
        if pair[1].0 != pair[0].0 + 1 {
            return Err(format!("line numbers not consecutive: {} then {}", pair[0].0, pair[1].0));
        }
    }
    if let Some(al) = w.arrow_line {
        // the implicit empty line after a final '\n' is not displayed by the renderer; it attaches
        // the marker to the end of the previous line (Free, see assumptions)
        let implicit_last = l == nlines && m.ends_with_newline;
        if al != l && !implicit_last {
            return Err(format!("arrow line names line {al}, the location is line {l}"));
        }
    }
    // every shown line is a fragment of the input line with that number, within the crop bound
    let two_r1 = cx.radius.saturating_mul(2).saturating_add(1);
    let mut err_line: Option<(usize, &str, usize, LineModel, Vec<Align>)> = None;
    for (n, shown, tcol) in &srcs {
        let Some(src) = m.line(*n) else {
            return Err(format!("line {n} shown but the input has only {nlines} lines"));
        };
        let lm = LineModel::new(src, !w.secondary);
        let al = alignments(&lm, shown);
        if al.is_empty() {
            let trimmed = !w.secondary && (shown.starts_with("...") || shown.ends_with("..."));
            if trimmed {
                notes.trimmed_by_renderer = true;
                if *n == l {
                    err_line = Some((*n, shown, *tcol, lm, al));
                }
                continue;
            }
            return Err(format!(
                "line {n} is shown as {:?}, which is not a fragment of input line {n} ({:?})",
                clip(shown, 80),
                clip(&lm.full, 80)
            ));
        }
        if lm.nchars > two_r1 {
            notes.cropped_shown = true;
        }
        // width bound. Documented: crop_radius = "Horizontal crop radius (in character columns)";
        // "crops all displayed lines (including the context lines) to the same column window around
        // the reported error column"; internal: "Maximum number of columns to keep on each side of
        // the error column"; "Very short context lines that would otherwise crop to empty are left
        // intact".
        let ok = al.iter().any(|a| {
            let count = a.j - a.i;
            if *n == l {
                // per side, around column c (0-based index c-1)
                let left_ok = (c - 1).saturating_sub(a.i) <= cx.radius || a.i >= c - 1;
                let right_ok = a.j.saturating_sub(c) <= cx.radius;
                count <= two_r1 && left_ok && right_ok
            } else {
                let intact = a.i == 0 && a.j == lm.nchars && a.lead == 0 && !a.right_marker;
                let left_of_window = lm.nchars.saturating_add(cx.radius) < c; // len <= c - r - 1
                count <= two_r1 || (intact && left_of_window)
            }
        });
        if !ok {
            let a = &al[0];
            return Err(format!(
                "line {n}: {} characters shown (columns {}..={}) with crop_radius {} around column {c}",
                a.j - a.i,
                a.i + 1,
                a.j,
                cx.radius
            ));
        }
        if *n == l {
            err_line = Some((*n, shown, *tcol, lm, al));
        }
    }
    // (3) the window contains line L
    let implicit_last = l == nlines && m.ends_with_newline && m.lines.last().is_some_and(|s| s.is_empty());
    let Some((_, shown, tcol, lm, al)) = err_line else {
        if implicit_last {
            notes.caret_skipped.push("location on the implicit empty last line");
            return Ok(());
        }
        if cx.reader && srcs.is_empty() {
            return Ok(());
        }
        return Err(format!("the window does not contain line {l} (shown: {:?})", srcs.iter().map(|s| s.0).collect::<Vec<_>>()));
    };
    // (4) marker line: the gutter line directly after line L
    let pos = w.lines.iter().position(|g| matches!(g, GLine::Src(n, _, _) if *n == l)).unwrap();
    let Some(GLine::Mark(mtext, mcol)) = w.lines.get(pos + 1) else {
        return Err(format!("no marker line under line {l}"));
    };
    let Some(caret) = mtext.find('^') else {
        return Err(format!("marker line under line {l} has no '^': {:?}", clip(mtext, 60)));
    };
    if !mtext[..caret].chars().all(|ch| ch == ' ') {
        notes.caret_skipped.push("marker line has text before the caret");
        return Ok(());
    }
    let caret_abs = mcol + caret; // spaces are one column each
    if caret_abs < tcol {
        return Err(format!("the caret is left of the text of line {l}"));
    }
    let d = caret_abs - tcol;
    if al.is_empty() {
        // the renderer trimmed the line itself ("..."): only compare the character above the caret
        let mut col = 0;
        let mut above = None;
        for ch in shown.chars() {
            if col == d {
                above = Some(ch);
                break;
            }
            col += cw(ch);
            if col > d {
                break;
            }
        }
        let left_trim = shown.starts_with("...");
        let right_trim = shown.ends_with("...");
        let width = sw(shown);
        if (left_trim && d < 3) || (right_trim && d + 3 >= width) {
            notes.caret_skipped.push("caret on a trim marker");
            return Ok(());
        }
        if c - 1 < lm.nchars {
            let piece = &lm.full[lm.starts[c - 1]..lm.starts[c]];
            match (above, piece.chars().next()) {
                (Some(a), Some(e)) => {
                    if a != e {
                        return Err(format!("the character above the caret is {a:?}, input ({l},{c}) is {e:?} (renderer-trimmed line)"));
                    }
                    notes.caret_checked += 1;
                }
                _ => notes.caret_skipped.push("renderer-trimmed line, no comparable character"),
            }
        } else {
            notes.caret_skipped.push("renderer-trimmed line, column past the text");
        }
        return Ok(());
    }
    if w.secondary {
        // hand-written window: the caret offset is counted in characters; only comparable with the
        // display column when everything before it is one column wide
        let prefix: String = shown.chars().take(d).collect();
        if prefix.chars().any(|ch| cw(ch) != 1) {
            notes.caret_skipped.push("secondary window with wide/zero-width/tab before the caret");
            return Ok(());
        }
    }
    let want = c - 1;
    let mut ok = false;
    let mut seen = vec![];
    for a in &al {
        let (idx, end_col) = indices_at(&lm, a, d);
        if want < lm.nchars {
            if idx.contains(&want) {
                ok = true;
                break;
            }
        } else {
            // column past the text: caret at the end of the line
            if a.j == lm.nchars && !a.right_marker && d == end_col {
                ok = true;
                break;
            }
        }
        seen.push((idx, end_col));
    }
    if !ok {
        let above: String = {
            let mut col = 0;
            let mut s = String::new();
            for ch in shown.chars() {
                if col == d {
                    s.push(ch);
                    break;
                }
                col += cw(ch);
            }
            s
        };
        let expect = if want < lm.nchars { lm.full[lm.starts[want]..lm.starts[want + 1]].to_string() } else { "<end of line>".to_string() };
        return Err(format!(
            "caret at display column {d} of line {l} is above {:?}; the location says column {c} = {:?} (line shown as {:?})",
            above,
            expect,
            clip(shown, 60)
        ));
    }
    notes.caret_checked += 1;
    Ok(())
}

fn clip(s: &str, n: usize) -> String {
    if s.chars().count() <= n {
        s.to_string()
    } else {
        let h: String = s.chars().take(n / 2).collect();
        let t: String = s.chars().rev().take(n / 2).collect::<Vec<_>>().into_iter().rev().collect();
        format!("{h}<..>{t}")
    }
}

// ------------------------------------------------------------------------------------------
// the check

fn variant_name(e: &Error) -> String {
    let d = format!("{:?}", e.without_snippet());
    d.split(|c: char| !c.is_alphanumeric()).next().unwrap_or("?").to_string()
}
fn is_validation(e: &Error) -> bool {
    matches!(variant_name(e).as_str(), "ValidationError" | "ValidationErrors" | "ValidatorError" | "ValidatorErrors")
}

fn guarded<T>(what: &str, f: impl FnOnce() -> T) -> Result<T, String> {
    match engine::catch(f) {
        engine::Caught::Ok(v) => Ok(v),
        engine::Caught::Panic(m, l) => Err(format!("{what}: panic at {l}: {m}")),
    }
}

/// Facts about a case shared by the oracle, the known-finding signatures and the evidence classes.
struct Facts {
    err: Option<Error>,
    model: Model,
    /// message texts of the built-in formatters
    messages: Vec<String>,
    loc: Option<(usize, usize)>,
}
fn facts(c: &Case) -> Facts {
    let err = parse_case(c);
    let model = Model::new(&c.text);
    let mut messages = vec![];
    let mut loc = None;
    if let Some(e) = &err {
        let inner = e.without_snippet();
        messages.push(DefaultMessageFormatter.format_message(inner).into_owned());
        messages.push(UserMessageFormatter.format_message(inner).into_owned());
        loc = e.location().map(|l| (l.line() as usize, l.column() as usize));
    }
    Facts { err, model, messages, loc }
}

/// Known finding 1: text reflected from the input (keys, variant names, duplicate keys, messages of
/// user types) reaches the report unsanitised. Predicate: the message the formatters produce for
/// this case contains a control character.
fn sig_reflected_control(f: &Facts) -> bool {
    f.messages.iter().any(|m| first_forbidden(m).is_some())
}

const RING: usize = 3072;

/// Known finding 2: the reader's ring snapshot can begin in the middle of the line the error is on;
/// the fragment is then treated as the whole line. Predicate: reader entry point and more than a
/// ring's worth of input follows the start of the reported line (so that its start can have been
/// evicted at the time the snapshot is taken).
fn sig_reader_partial_line(c: &Case, f: &Facts) -> bool {
    if !is_reader(c.entry) {
        return false;
    }
    let Some((l, _)) = f.loc else { return false };
    // byte offset of the start of line l (lines split at '\n')
    let mut off = 0usize;
    let mut n = 1usize;
    for (i, b) in c.text.bytes().enumerate() {
        if n == l {
            break;
        }
        if b == b'\n' {
            n += 1;
            off = i + 1;
        }
    }
    if n != l {
        return false;
    }
    c.text.len() > off + RING - 8
}

/// Known finding 3: in the hand-written secondary ("defined here") window the marker line has a
/// fixed two-column gutter, so with line numbers of two or more digits the caret is shifted.
/// Predicate: the error carries two distinct locations and the secondary window reaches line 10.
fn sig_secondary_gutter(f: &Facts) -> bool {
    let Some(e) = &f.err else { return false };
    let Some(ls) = e.locations() else { return false };
    let (r, d) = (ls.reference_location, ls.defined_location);
    if r == Location::UNKNOWN || d == Location::UNKNOWN || r == d {
        return false;
    }
    let last = (d.line() as usize + 2).min(f.model.lines.len());
    last >= 10
}

fn check_case(c: &Case) -> Result<Notes, String> {
    let f = facts(c);
    check_with(c, &f)
}

fn check_with(c: &Case, f: &Facts) -> Result<Notes, String> {
    let mut notes = Notes::default();
    let Some(err) = &f.err else { return Ok(notes) };
    let reader = is_reader(c.entry);
    let cx = Ctx17 { model: &f.model, radius: c.opts.crop, reader };
    let validation = is_validation(err);
    let dev_msg = &f.messages[0];
    // a message with line breaks of its own (reflected "\n", several validation issues) makes the
    // report ambiguous to parse: layout checks are skipped, (1) and (2) still apply
    let multi_line_msg = if validation {
        let issues = dev_msg.matches("validation error").count().max(1);
        dev_msg.matches('\n').count() + 1 > issues || f.messages.iter().any(|m| m.contains('\r'))
    } else {
        f.messages.iter().any(|m| m.contains('\n'))
    };
    let layout_ok = !f.model.lone_cr && !multi_line_msg;
    if f.model.lone_cr {
        notes.caret_skipped.push("input has a lone CR line break");
    }
    if multi_line_msg {
        notes.caret_skipped.push("message spans several lines");
    }
    // is the snippet form promised? (string entry points, options as documented)
    let snippet_expected = !reader
        && layout_ok
        && !validation
        && c.opts.snippet
        && c.opts.crop > 0
        && match f.loc {
            Some((l, col)) => f.model.line(l).is_some_and(|s| col >= 1 && col - 1 <= s.chars().count()),
            None => false,
        };
    let plain_expected = layout_ok && (!reader && (!c.opts.snippet || c.opts.crop == 0) || f.loc.is_none());

    let large = c.text.len() > 4000;
    for fm in FM_ALL {
        for mode in [SnippetMode::Auto, SnippetMode::Off] {
            let tag = format!("[{fm:?}/{mode:?}]");
            let out = guarded(&tag, || render(err, fm, mode))?;
            scan(&tag, &out)?;
            if !layout_ok {
                continue;
            }
            match parse_windows(&out) {
                Err(e) => {
                    if notes.unparsed.is_none() {
                        notes.unparsed = Some(e);
                    }
                }
                Ok(None) => {
                    if mode == SnippetMode::Auto && snippet_expected {
                        return Err(format!("{tag} no snippet in the report although the location {:?} is inside the input (report: {:?})", f.loc, clip(&out, 120)));
                    }
                }
                Ok(Some(wins)) => {
                    if mode == SnippetMode::Off {
                        return Err(format!("{tag} SnippetMode::Off rendered a snippet"));
                    }
                    if plain_expected {
                        return Err(format!("{tag} a snippet is rendered although snippets are disabled by the options / no location is known"));
                    }
                    notes.snippet_form = true;
                    notes.windows = notes.windows.max(wins.len());
                    if !validation {
                        if let (Some(first), Some(loc)) = (wins.first(), f.loc) {
                            if !first.secondary && first.loc != loc {
                                return Err(format!("{tag} the report is about line {} column {}, Error::location() is {:?}", first.loc.0, first.loc.1, loc));
                            }
                        }
                    }
                    for w in &wins {
                        check_window(&cx, w, &mut notes).map_err(|e| {
                            format!("{tag} {}window: {e}", if w.secondary { "secondary " } else { "" })
                        })?;
                    }
                }
            }
        }
    }
    // miette adapter
    let fms: &[Fm] = if large { &[Fm::Dev, Fm::Custom] } else { &[Fm::Dev, Fm::User, Fm::Custom, Fm::DevL10n] };
    for &fm in fms {
        let tag = format!("[miette/{fm:?}]");
        let m = guarded(&tag, || render_miette(err, &c.text, fm))?;
        scan(&format!("{tag} message"), &m.message)?;
        for l in &m.labels {
            scan(&format!("{tag} label"), l)?;
        }
        if let Some(s) = &m.source {
            scan(&format!("{tag} source code"), s)?;
        }
        match &m.graphical {
            Ok(s) => scan(&format!("{tag} graphical report"), s)?,
            Err(()) => return Err(format!("{tag} GraphicalReportHandler returned a formatting error (Debug of the report would panic)")),
        }
        match &m.narrated {
            Ok(s) => scan(&format!("{tag} narrated report"), s)?,
            Err(()) => return Err(format!("{tag} NarratableReportHandler returned a formatting error")),
        }
    }
    Ok(notes)
}

fn vis(s: &str) -> String {
    let mut o = String::new();
    for ch in s.chars() {
        match ch {
            '\n' => o.push('\n'),
            c if is_forbidden(c) => o.push_str(&format!("<{:02X}>", c as u32)),
            c => o.push(c),
        }
    }
    o
}

fn show(path: &str) {
    let s = std::fs::read_to_string(path).expect("read");
    let v: serde_json::Value = serde_json::from_str(&s).expect("json");
    let cv = if v.get("case").is_some() { v["case"].clone() } else { v };
    let c: Case = serde_json::from_value(cv).expect("case");
    println!("text: {:?}", clip(&c.text, 300));
    println!("target {:?} entry {:?} crop {} snippet {}", c.target, c.entry, c.opts.crop, c.opts.snippet);
    let Some(err) = parse_case(&c) else {
        println!("no error");
        return;
    };
    println!("location: {:?}", err.location());
    println!("debug: {}", clip(&format!("{:?}", err.without_snippet()), 400));
    let only = std::env::var("FM").ok();
    for fm in FM_ALL {
        if only.as_ref().is_some_and(|o| format!("{fm:?}") != *o) {
            continue;
        }
        for mode in [SnippetMode::Auto, SnippetMode::Off] {
            println!("===== {fm:?} {mode:?}");
            for l in vis(&render(&err, fm, mode)).lines() {
                println!("{}", clip(l, 300));
            }
        }
    }
    if only.is_none() {
        let m = render_miette(&err, &c.text, Fm::Dev);
        println!("===== miette message\n{}", clip(&vis(&m.message), 300));
        println!("===== miette labels\n{:?}", m.labels);
        println!("===== miette graphical");
        for l in vis(&m.graphical.unwrap_or("<fmt error>".into())).lines() {
            println!("{}", clip(l, 300));
        }
    }
    println!("===== verdict: {:?}", check_case(&c).map(|n| (n.snippet_form, n.windows, n.caret_checked, n.caret_skipped, n.unparsed)));
    println!("signatures: {:?}", C17::signatures(&c));
}
