//! C17 – rendered error reports are terminal-safe, cropped and show the right line.
//!
//! skeleton (exploration stage): types, entry-point dispatch, renderers and a `show` mode.
use serde::{Deserialize, Serialize};
use std::borrow::Cow;
use std::collections::BTreeMap;
use vcheck::engine::{self, Ctx, Outcome, Property};
use vcheck::opts::DeOpts;
use vcheck::untyped::U;

use serde_saphyr::localizer::{ExternalMessage, Localizer};
use serde_saphyr::{DefaultMessageFormatter, Error, Location, MessageFormatter, SnippetMode, UserMessageFormatter};

// ------------------------------------------------------------------------------------------
// case

#[derive(Clone, Copy, Debug, Serialize, Deserialize, PartialEq, Eq)]
enum Target {
    Strict,
    Enum,
    MapI32,
    VecI32,
    I32,
    Bool,
    Str,
    Char,
    Wrap,
    Reflect,
    Untyped,
    Alias,
    Garde,
    Validator,
}

#[derive(Clone, Copy, Debug, Serialize, Deserialize, PartialEq, Eq)]
enum Entry {
    Str,
    Slice,
    Multi,
    Reader1,
    Reader7,
    Reader8192,
    ReadIter,
}

#[derive(Clone, Debug, Serialize, Deserialize)]
struct Case {
    text: String,
    target: Target,
    entry: Entry,
    opts: DeOpts,
}

// ------------------------------------------------------------------------------------------
// target types

#[derive(Debug, Deserialize)]
#[serde(deny_unknown_fields)]
#[allow(dead_code)]
struct Strict {
    a: i32,
    #[serde(default)]
    b: Option<String>,
    #[serde(default)]
    c: Vec<i32>,
}

#[derive(Debug, Deserialize)]
#[allow(dead_code)]
enum En {
    Alpha,
    Beta(i32),
    Gamma { x: i32 },
}

#[derive(Debug, Deserialize)]
#[allow(dead_code)]
struct Wrap {
    #[serde(default)]
    e: Option<En>,
    #[serde(default)]
    m: BTreeMap<String, i32>,
    #[serde(default)]
    s: Option<Strict>,
    #[serde(default)]
    v: Vec<String>,
    #[serde(default)]
    ch: Option<char>,
    #[serde(default)]
    f: Option<f64>,
    #[serde(default)]
    t: Option<(i32, bool)>,
}

#[derive(Debug, Deserialize)]
#[allow(dead_code)]
struct AliasT {
    count: u64,
    flag: bool,
}

/// A type whose `Deserialize` reflects the scalar it saw through serde's error constructors
/// (what hand-written impls and many third-party types do).
#[derive(Debug)]
#[allow(dead_code)]
struct ReflectLeaf(String);
impl<'de> Deserialize<'de> for ReflectLeaf {
    fn deserialize<D: serde::Deserializer<'de>>(d: D) -> Result<Self, D::Error> {
        use serde::de::{Error as _, Unexpected};
        let s = String::deserialize(d)?;
        if let Some(rest) = s.strip_prefix("custom:") {
            return Err(D::Error::custom(format!("bad thing {rest}")));
        }
        if let Some(rest) = s.strip_prefix("value:") {
            return Err(D::Error::invalid_value(Unexpected::Str(rest), &"something nicer"));
        }
        if let Some(rest) = s.strip_prefix("char:") {
            if let Some(c) = rest.chars().next() {
                return Err(D::Error::invalid_type(Unexpected::Char(c), &"no char"));
            }
        }
        if let Some(rest) = s.strip_prefix("other:") {
            return Err(D::Error::invalid_type(Unexpected::Other(rest), &"no other"));
        }
        Ok(ReflectLeaf(s))
    }
}
#[derive(Debug, Deserialize)]
#[allow(dead_code)]
struct Reflect {
    #[serde(default)]
    r: Option<ReflectLeaf>,
    #[serde(default)]
    l: Vec<ReflectLeaf>,
}

#[derive(Debug, Deserialize, garde::Validate)]
#[allow(dead_code)]
struct GardeInner {
    #[garde(length(min = 3))]
    name: String,
    #[garde(range(min = 1, max = 9))]
    n: i32,
}
#[derive(Debug, Deserialize, garde::Validate)]
#[allow(dead_code)]
struct GardeDoc {
    #[garde(dive)]
    #[serde(default)]
    items: BTreeMap<String, GardeInner>,
    #[garde(dive)]
    #[serde(default)]
    list: Vec<GardeInner>,
    #[garde(length(min = 2))]
    #[serde(default = "ok_title")]
    title: String,
}
fn ok_title() -> String {
    "title".to_string()
}

use validator::Validate;
#[derive(Debug, Deserialize, Validate)]
#[allow(dead_code)]
struct ValidatorInner {
    #[validate(length(min = 3))]
    name: String,
    #[validate(range(min = 1, max = 9))]
    n: i32,
}
#[derive(Debug, Deserialize, Validate)]
#[allow(dead_code)]
struct ValidatorDoc {
    #[validate(nested)]
    #[serde(default)]
    items: BTreeMap<String, ValidatorInner>,
    #[validate(nested)]
    #[serde(default)]
    list: Vec<ValidatorInner>,
    #[validate(length(min = 2))]
    #[serde(default = "ok_title")]
    title: String,
}

// ------------------------------------------------------------------------------------------
// readers

struct ChunkReader<'a> {
    data: &'a [u8],
    pos: usize,
    chunk: usize,
    eof_reads: usize,
}
impl std::io::Read for ChunkReader<'_> {
    fn read(&mut self, buf: &mut [u8]) -> std::io::Result<usize> {
        let n = buf.len().min(self.chunk).min(self.data.len() - self.pos);
        if n == 0 && !buf.is_empty() {
            self.eof_reads += 1;
            // safety net against the known reader hang (see `reader_hang_risk`): a consumer that
            // keeps polling at end of input is stopped by an I/O error instead of looping forever
            if self.eof_reads > 64 {
                return Err(std::io::Error::other("harness: too many reads at end of input"));
            }
        }
        buf[..n].copy_from_slice(&self.data[self.pos..self.pos + n]);
        self.pos += n;
        Ok(n)
    }
}

/// Known open defect in the parser dependency: every reader entry point loops forever
/// (allocating) when the text after the last line break starts with `%` and runs to the end of
/// input. Conservative predicate: the last, unterminated line contains a `%` at all.
fn reader_hang_risk(text: &str) -> bool {
    let last = text.rsplit(['\n', '\r']).next().unwrap_or("");
    last.contains('%')
}

// ------------------------------------------------------------------------------------------
// running a case

fn parse_as<T: serde::de::DeserializeOwned>(c: &Case) -> Option<Error> {
    let o = c.opts.build();
    match c.entry {
        Entry::Str => serde_saphyr::from_str_with_options::<T>(&c.text, o).err(),
        Entry::Slice => serde_saphyr::from_slice_with_options::<T>(c.text.as_bytes(), o).err(),
        Entry::Multi => serde_saphyr::from_multiple_with_options::<T>(&c.text, o).err(),
        Entry::Reader1 | Entry::Reader7 | Entry::Reader8192 => {
            let chunk = match c.entry {
                Entry::Reader1 => 1,
                Entry::Reader7 => 7,
                _ => 8192,
            };
            let r = ChunkReader { data: c.text.as_bytes(), pos: 0, chunk, eof_reads: 0 };
            serde_saphyr::from_reader_with_options::<_, T>(r, o).err()
        }
        Entry::ReadIter => {
            let mut r = ChunkReader { data: c.text.as_bytes(), pos: 0, chunk: 512, eof_reads: 0 };
            let it = serde_saphyr::read_with_options::<_, T>(&mut r, o);
            let mut n = 0;
            for item in it {
                if let Err(e) = item {
                    return Some(e);
                }
                n += 1;
                if n > 10_000 {
                    break;
                }
            }
            None
        }
    }
}

/// A panic inside the parse itself is not this property's business (C01 / C19): such a case has no
/// error to render. Counted in the evidence.
fn parse_case(c: &Case) -> Option<Error> {
    match engine::catch(|| parse_case_inner(c)) {
        engine::Caught::Ok(r) => r,
        engine::Caught::Panic(..) => {
            PARSE_PANICS.with(|p| p.set(p.get() + 1));
            None
        }
    }
}
thread_local! {
    static PARSE_PANICS: std::cell::Cell<u64> = const { std::cell::Cell::new(0) };
}

fn parse_case_inner(c: &Case) -> Option<Error> {
    match c.target {
        Target::Strict => parse_as::<Strict>(c),
        Target::Enum => parse_as::<En>(c),
        Target::MapI32 => parse_as::<BTreeMap<String, i32>>(c),
        Target::VecI32 => parse_as::<Vec<i32>>(c),
        Target::I32 => parse_as::<i32>(c),
        Target::Bool => parse_as::<bool>(c),
        Target::Str => parse_as::<String>(c),
        Target::Char => parse_as::<char>(c),
        Target::Wrap => parse_as::<Wrap>(c),
        Target::Reflect => parse_as::<Reflect>(c),
        Target::Untyped => parse_as::<U>(c),
        Target::Alias => parse_as::<AliasT>(c),
        Target::Garde => {
            let o = c.opts.build();
            match c.entry {
                Entry::Reader1 | Entry::Reader7 | Entry::Reader8192 | Entry::ReadIter => {
                    let chunk = if c.entry == Entry::Reader1 { 1 } else { 8192 };
                    let r = ChunkReader { data: c.text.as_bytes(), pos: 0, chunk, eof_reads: 0 };
                    serde_saphyr::from_reader_with_options_valid::<_, GardeDoc>(r, o).err()
                }
                Entry::Multi => serde_saphyr::from_multiple_with_options_valid::<GardeDoc>(&c.text, o).err(),
                _ => serde_saphyr::from_str_with_options_valid::<GardeDoc>(&c.text, o).err(),
            }
        }
        Target::Validator => {
            let o = c.opts.build();
            match c.entry {
                Entry::Reader1 | Entry::Reader7 | Entry::Reader8192 | Entry::ReadIter => {
                    let chunk = if c.entry == Entry::Reader1 { 1 } else { 8192 };
                    let r = ChunkReader { data: c.text.as_bytes(), pos: 0, chunk, eof_reads: 0 };
                    serde_saphyr::from_reader_with_options_validate::<_, ValidatorDoc>(r, o).err()
                }
                Entry::Multi => serde_saphyr::from_multiple_with_options_validate::<ValidatorDoc>(&c.text, o).err(),
                _ => serde_saphyr::from_str_with_options_validate::<ValidatorDoc>(&c.text, o).err(),
            }
        }
    }
}

fn is_reader(e: Entry) -> bool {
    matches!(e, Entry::Reader1 | Entry::Reader7 | Entry::Reader8192 | Entry::ReadIter)
}

// ------------------------------------------------------------------------------------------
// formatters (the custom ones are written so that they never emit a control character themselves)

struct HarnessLocalizer;
impl Localizer for HarnessLocalizer {
    fn attach_location<'a>(&self, base: Cow<'a, str>, loc: Location) -> Cow<'a, str> {
        if loc == Location::UNKNOWN {
            base
        } else {
            Cow::Owned(format!("{base} [zeile {} spalte {}]", loc.line(), loc.column()))
        }
    }
    fn root_path_label(&self) -> Cow<'static, str> {
        Cow::Borrowed("<wurzel>")
    }
    fn alias_defined_at(&self, d: Location) -> String {
        format!(" (definiert in zeile {} spalte {})", d.line(), d.column())
    }
    fn defined(&self) -> Cow<'static, str> {
        Cow::Borrowed("(definiert)")
    }
    fn defined_here(&self) -> Cow<'static, str> {
        Cow::Borrowed("(hier definiert)")
    }
    fn value_used_here(&self) -> Cow<'static, str> {
        Cow::Borrowed("wert hier benutzt")
    }
    fn defined_window(&self) -> Cow<'static, str> {
        Cow::Borrowed("hier definiert")
    }
    fn snippet_location_prefix(&self, loc: Location) -> String {
        if loc == Location::UNKNOWN {
            String::new()
        } else {
            format!("zeile {} spalte {}", loc.line(), loc.column())
        }
    }
    fn override_external_message<'a>(&self, m: ExternalMessage<'a>) -> Option<Cow<'a, str>> {
        // a fixed, clean replacement for parser messages; validator/garde texts are kept
        match m.source {
            serde_saphyr::localizer::ExternalMessageSource::SaphyrParser => Some(Cow::Borrowed("syntaxfehler")),
            _ => None,
        }
    }
}
static HARNESS_L10N: HarnessLocalizer = HarnessLocalizer;

struct HarnessFormatter;
impl MessageFormatter for HarnessFormatter {
    fn localizer(&self) -> &dyn Localizer {
        &HARNESS_L10N
    }
    fn format_message<'a>(&self, err: &'a Error) -> Cow<'a, str> {
        match err {
            Error::Eof { .. } => Cow::Borrowed("dokument fehlt"),
            Error::UnknownAnchor { .. } => Cow::Borrowed("unbekannte referenz"),
            Error::InvalidScalar { ty, .. } => Cow::Owned(format!("kein gueltiger wert fuer {ty}")),
            _ => UserMessageFormatter.format_message(err),
        }
    }
}

#[derive(Clone, Copy, Debug, PartialEq, Eq)]
enum Fm {
    Display,
    Dev,
    User,
    Custom,
    DevL10n,
}
const FM_ALL: [Fm; 5] = [Fm::Display, Fm::Dev, Fm::User, Fm::Custom, Fm::DevL10n];

fn with_formatter<R>(fm: Fm, f: impl FnOnce(&dyn MessageFormatter) -> R) -> R {
    match fm {
        Fm::Display | Fm::Dev => f(&DefaultMessageFormatter),
        Fm::User => f(&UserMessageFormatter),
        Fm::Custom => f(&HarnessFormatter),
        Fm::DevL10n => f(&DefaultMessageFormatter.with_localizer(&HARNESS_L10N)),
    }
}

fn render(err: &Error, fm: Fm, mode: SnippetMode) -> String {
    if fm == Fm::Display && mode == SnippetMode::Auto {
        return err.to_string();
    }
    with_formatter(fm, |f| {
        let mut ro = serde_saphyr::RenderOptions::new(f);
        ro.snippets = mode;
        err.render_with_options(ro)
    })
}

/// byte offset in `text` of 1-based (line, column-in-characters); a leading BOM is not counted in
/// the coordinates but is part of the text; None when the position is not inside the text
fn byte_offset_of(text: &str, line: usize, col: usize) -> Option<usize> {
    let start = if text.starts_with('\u{feff}') { '\u{feff}'.len_utf8() } else { 0 };
    let (mut l, mut c) = (1usize, 1usize);
    for (i, ch) in text[start..].char_indices() {
        if l == line && c == col {
            return Some(start + i);
        }
        if ch == '\n' {
            l += 1;
            c = 1;
        } else {
            c += 1;
        }
    }
    if l == line && c == col { Some(text.len()) } else { None }
}

struct MietteOut {
    message: String,
    labels: Vec<String>,
    /// byte offsets of the labels of the top-level diagnostic
    label_offsets: Vec<usize>,
    source: Option<String>,
    graphical: Result<String, ()>,
    narrated: Result<String, ()>,
}

fn collect_diag(d: &dyn miette::Diagnostic, message: &mut String, labels: &mut Vec<String>) {
    message.push_str(&d.to_string());
    message.push('\n');
    if let Some(ls) = d.labels() {
        for l in ls {
            if let Some(t) = l.label() {
                labels.push(t.to_string());
            }
        }
    }
    if let Some(h) = d.help() {
        message.push_str(&h.to_string());
    }
    if let Some(rel) = d.related() {
        for r in rel {
            collect_diag(r, message, labels);
        }
    }
}

fn render_miette(err: &Error, text: &str, fm: Fm) -> MietteOut {
    use miette::{GraphicalReportHandler, GraphicalTheme, NarratableReportHandler};
    let report = with_formatter(fm, |f| serde_saphyr::miette::to_miette_report_with_formatter(err, text, "input.yaml", f));
    let d: &dyn miette::Diagnostic = report.as_ref();
    let mut message = String::new();
    let mut labels = vec![];
    collect_diag(d, &mut message, &mut labels);
    let label_offsets: Vec<usize> = d.labels().map(|ls| ls.map(|l| l.offset()).collect()).unwrap_or_default();
    let source = d.source_code().and_then(|sc| {
        let total = text.len();
        sc.read_span(&miette::SourceSpan::new(0.into(), total), 0, 0)
            .ok()
            .map(|c| String::from_utf8_lossy(c.data()).into_owned())
    });
    let mut g = String::new();
    let gh = GraphicalReportHandler::new_themed(GraphicalTheme::unicode_nocolor()).with_width(100);
    // (miette's own graphical handler pads its marker lines with a run-time format width, which
    // panics above u16::MAX - third-party code, nothing the adapter could hand over differently:
    // with a line that long only what the adapter itself produces is judged)
    let graphical = if text.lines().any(|l| l.len() > 60_000) { Ok(String::new()) } else { gh.render_report(&mut g, d).map(|_| g).map_err(|_| ()) };
    let mut n = String::new();
    let narrated = NarratableReportHandler::new().render_report(&mut n, d).map(|_| n).map_err(|_| ());
    MietteOut { message, labels, label_offsets, source, graphical, narrated }
}


// ------------------------------------------------------------------------------------------
// oracle part (2): forbidden characters

fn is_forbidden(ch: char) -> bool {
    let u = ch as u32;
    (u < 0x20 && ch != '\n' && ch != '\t') || u == 0x7f || (0x80..=0x9f).contains(&u)
}
fn first_forbidden(s: &str) -> Option<(usize, char)> {
    s.chars().enumerate().find(|(_, c)| is_forbidden(*c))
}
fn scan(what: &str, s: &str) -> Result<(), String> {
    match first_forbidden(s) {
        None => Ok(()),
        Some((i, c)) => {
            let from = i.saturating_sub(30);
            let ctx: String = s.chars().skip(from).take(60).collect();
            Err(format!("{what}: control character U+{:04X} in the output (char {i}; context {:?})", c as u32, ctx))
        }
    }
}

// ------------------------------------------------------------------------------------------
// model of the input text as the snippet code sees it

/// Width of one character as the renderer (annotate-snippets `char_width`) counts it.
fn cw(ch: char) -> usize {
    use unicode_width::UnicodeWidthChar;
    match ch {
        '\t' => 4,
        _ if is_forbidden(ch) => 1,
        '\u{202A}' | '\u{202B}' | '\u{202D}' | '\u{202E}' | '\u{2066}' | '\u{2067}' | '\u{2068}' | '\u{202C}' | '\u{2069}' => 1,
        _ => ch.width().unwrap_or(1),
    }
}
fn sw(s: &str) -> usize {
    s.chars().map(cw).sum()
}

/// What `sanitize_terminal_snippet_preserve_len` documents: C0 (except \n, \t) and DEL become a
/// space, C1 becomes NBSP.
/// What the library shows in place of a C0 / DEL character of the source line. The property
/// fixes only that no control character is shown, not the placeholder (a blank up to and
/// including the snapshot, `?` since the fix of the misplaced marker on lines that start with
/// many control characters), so it is read off one rendering; anything that is not a single
/// printable ASCII character falls back to a blank, and the comparison then fails as it should.
fn c0_placeholder() -> char {
    static P: std::sync::OnceLock<char> = std::sync::OnceLock::new();
    *P.get_or_init(|| {
        let shown = match serde_saphyr::from_str::<i32>("\u{1}zz") {
            Err(e) => e.to_string(),
            Ok(_) => String::new(),
        };
        shown
            .lines()
            .find_map(|l| l.strip_prefix("1 | "))
            .and_then(|l| l.chars().next())
            .filter(|c| c.is_ascii_graphic() || *c == ' ')
            .unwrap_or(' ')
    })
}

fn sanitize_char(ch: char) -> char {
    let u = ch as u32;
    if (u < 0x20 && ch != '\n' && ch != '\t') || u == 0x7f {
        c0_placeholder()
    } else if (0x80..=0x9f).contains(&u) {
        '\u{a0}'
    } else {
        ch
    }
}

/// One input line prepared for matching: `pieces[k]` is what source character k looks like in
/// the rendering.
struct LineModel {
    nchars: usize,
    full: String,
    /// byte offset of piece k in `full` (len = nchars + 1)
    starts: Vec<usize>,
    widths: Vec<usize>,
}
impl LineModel {
    /// `annotate`: apply the replacements of the annotate-snippets renderer (tab = 4 spaces, ZWJ
    /// removed, bidi controls shown as U+FFFD) on top of the library's sanitisation.
    fn new(line: &str, annotate: bool) -> LineModel {
        let mut full = String::new();
        let mut starts = vec![];
        let mut widths = vec![];
        for ch in line.chars() {
            starts.push(full.len());
            let c = sanitize_char(ch);
            let before = full.len();
            if annotate {
                match c {
                    '\t' => full.push_str("    "),
                    '\u{200d}' => {}
                    '\u{202A}' | '\u{202B}' | '\u{202C}' | '\u{202D}' | '\u{202E}' | '\u{2066}' | '\u{2067}' | '\u{2068}' | '\u{2069}' => {
                        full.push('\u{fffd}')
                    }
                    c => full.push(c),
                }
            } else {
                full.push(c);
            }
            widths.push(sw(&full[before..]));
        }
        starts.push(full.len());
        LineModel { nchars: widths.len(), full, starts, widths }
    }
}

struct Model {
    /// lines as the snippet code splits them: at '\n', one trailing '\r' removed, leading BOM dropped;
    /// a text ending in '\n' has a final empty line
    lines: Vec<String>,
    /// a '\r' that is not part of "\r\n": the parser counts it as a line break, the snippet code
    /// does not; layout checks are not applied to such inputs
    lone_cr: bool,
    /// U+FEFF somewhere after the start of the text (the parser gives it special treatment in
    /// places; nothing is documented about its column): layout checks are not applied
    bom_inside: bool,
    ends_with_newline: bool,
}
impl Model {
    fn new(text: &str) -> Model {
        let t = text.strip_prefix('\u{feff}').unwrap_or(text);
        let mut lone_cr = false;
        let lines: Vec<String> = if t.is_empty() {
            vec![]
        } else {
            t.split('\n')
                .map(|l| {
                    let l = l.strip_suffix('\r').unwrap_or(l);
                    if l.contains('\r') {
                        lone_cr = true;
                    }
                    l.to_string()
                })
                .collect()
        };
        // a '\r' at the very end of the text (no '\n' after it) is also a lone CR
        if t.ends_with('\r') {
            lone_cr = true;
        }
        // (a second mark right at the start is an ordinary counted character of line 1: the
        // parser ignores exactly one leading mark)
        // (nor is a mark at the very start of a later line special: the parser counts it as the
        // first character of that line - what a reader's window of recent bytes may begin with)
        let bom_inside = {
            let rest = t.strip_prefix('\u{feff}').unwrap_or(t);
            rest.char_indices().any(|(i, ch)| ch == '\u{feff}' && i > 0 && !rest[..i].ends_with('\n'))
        };
        Model { lines, lone_cr, bom_inside, ends_with_newline: t.ends_with('\n') }
    }
    fn line(&self, n: usize) -> Option<&str> {
        if n == 0 { None } else { self.lines.get(n - 1).map(|s| s.as_str()) }
    }
}

// ------------------------------------------------------------------------------------------
// layout parser

#[derive(Debug, Clone)]
enum GLine {
    /// `N | text`: (number, text, display column where the text starts)
    Src(usize, String, usize),
    /// `  | rest`: (rest, display column where rest starts)
    Mark(String, usize),
}

/// Split a gutter line. `None` when the line does not have the gutter form.
fn gutter(line: &str) -> Option<GLine> {
    let bar = line.find('|')?;
    let head = &line[..bar];
    if !head.ends_with(' ') {
        return None;
    }
    let num = head.trim();
    if !num.chars().all(|c| c.is_ascii_digit()) || !head.chars().all(|c| c == ' ' || c.is_ascii_digit()) {
        return None;
    }
    let after = &line[bar + 1..];
    let (rest, col) = if after.is_empty() {
        ("", bar + 2)
    } else if let Some(r) = after.strip_prefix(' ') {
        (r, bar + 2)
    } else {
        return None;
    };
    if num.is_empty() {
        Some(GLine::Mark(rest.to_string(), col))
    } else {
        // digits must be contiguous and right-aligned against " |"
        if head.trim_start().len() != num.len() + 1 {
            return None;
        }
        Some(GLine::Src(num.parse().ok()?, rest.to_string(), col))
    }
}

#[derive(Debug)]
struct Window {
    /// (line, column) this window is about
    loc: (usize, usize),
    /// line number in the ` --> path:L:C` line, when present
    arrow_line: Option<usize>,
    lines: Vec<GLine>,
    secondary: bool,
}

/// `line L column C` / `zeile L spalte C` (the harness' localizer) at the start of `s`
fn parse_prefix(s: &str) -> Option<(usize, usize, &str)> {
    for (a, b) in [("line ", " column "), ("zeile ", " spalte ")] {
        if let Some(r) = s.strip_prefix(a) {
            let n1 = r.find(|c: char| !c.is_ascii_digit())?;
            let l: usize = r[..n1].parse().ok()?;
            let r2 = r[n1..].strip_prefix(b)?;
            let n2 = r2.find(|c: char| !c.is_ascii_digit()).unwrap_or(r2.len());
            let c: usize = r2[..n2].parse().ok()?;
            return Some((l, c, &r2[n2..]));
        }
    }
    None
}

const ANCHOR_INTRO: &str = "  | This value comes indirectly from the anchor at ";

/// Find the snippet windows of a rendering. Returns `None` when the rendering is not in the
/// snippet form at all (plain one-line form), `Err` when it looks like the snippet form but the
/// parser cannot make sense of it (counted, never a violation).
fn parse_windows(out: &str) -> Result<Option<Vec<Window>>, String> {
    let ls: Vec<&str> = out.split('\n').collect();
    let mut wins: Vec<Window> = vec![];
    let mut i = 0;
    while i < ls.len() {
        let l = ls[i];
        if let Some(rest) = l.strip_prefix("error: ") {
            if let Some((line, col, _)) = parse_prefix(rest) {
                // expect the arrow line next
                let Some(arrow) = ls.get(i + 1) else { return Err("title without arrow line".into()) };
                let at = arrow.trim_start();
                let Some(path) = at.strip_prefix("--> ") else {
                    return Err("title not followed by an arrow line".into());
                };
                // path:L:C – take the last two ':'-separated fields
                let mut it = path.rsplitn(3, ':');
                let _c = it.next();
                let al = it.next().and_then(|x| x.parse::<usize>().ok());
                let mut w = Window { loc: (line, col), arrow_line: al, lines: vec![], secondary: false };
                i += 2;
                while i < ls.len() {
                    if ls[i].starts_with(ANCHOR_INTRO) {
                        break;
                    }
                    match gutter(ls[i]) {
                        Some(g) => w.lines.push(g),
                        None => break,
                    }
                    i += 1;
                }
                wins.push(w);
                continue;
            }
        }
        if let Some(rest) = l.strip_prefix(ANCHOR_INTRO) {
            let Some((line, col, tail)) = parse_prefix(rest).or_else(|| {
                // "line L column C:" is produced by the default localizer
                None
            }) else {
                return Err("anchor intro without location".into());
            };
            if tail != ":" {
                return Err("anchor intro with unexpected tail".into());
            }
            let mut w = Window { loc: (line, col), arrow_line: None, lines: vec![], secondary: true };
            i += 1;
            while i < ls.len() {
                match gutter(ls[i]) {
                    Some(g) => w.lines.push(g),
                    None => break,
                }
                i += 1;
            }
            wins.push(w);
            continue;
        }
        i += 1;
    }
    if wins.is_empty() { Ok(None) } else { Ok(Some(wins)) }
}

// ------------------------------------------------------------------------------------------
// oracle parts (3), (4), (5)

struct Align {
    /// source character range shown (innermost reading: characters that render as nothing, like
    /// ZWJ, at the edges are not counted)
    i: usize,
    j: usize,
    /// outermost reading of the same occurrence
    i_out: usize,
    j_out: usize,
    /// display width of the left marker
    lead: usize,
    right_marker: bool,
}

const ALIGN_CAP: usize = 2048;

/// All ways in which `shown` can be read as `["…"] + fragment of the line + ["…"]`.
fn alignments(lm: &LineModel, shown: &str) -> Vec<Align> {
    let mut out = vec![];
    for left in [false, true] {
        for right in [false, true] {
            let mut core = shown;
            if left {
                match core.strip_prefix('…') {
                    Some(c) => core = c,
                    None => continue,
                }
            }
            if right {
                match core.strip_suffix('…') {
                    Some(c) => core = c,
                    None => continue,
                }
            }
            if core.is_empty() {
                // nothing of the line is shown: any empty range; report the most favourable one
                let all_empty = lm.full.is_empty();
                out.push(Align { i: 0, j: 0, i_out: 0, j_out: if all_empty { lm.nchars } else { 0 }, lead: usize::from(left), right_marker: right });
                if lm.nchars > 0 {
                    out.push(Align { i: lm.nchars, j: lm.nchars, i_out: if all_empty { 0 } else { lm.nchars }, j_out: lm.nchars, lead: usize::from(left), right_marker: right });
                }
                continue;
            }
            // every occurrence (overlapping ones included) that starts and ends at a piece boundary
            let mut last = usize::MAX;
            for &pos in &lm.starts {
                if pos == last {
                    continue;
                }
                last = pos;
                if !lm.full[pos..].starts_with(core) {
                    continue;
                }
                let end = pos + core.len();
                let Ok(_) = lm.starts.binary_search(&end) else { continue };
                // with empty pieces several indices share an offset: take the innermost ones
                let i = lm.starts.partition_point(|&s| s <= pos) - 1; // last index with start == pos
                let j = lm.starts.partition_point(|&s| s < end); // first index with start == end
                let (i, j) = if i > j { (j, j) } else { (i, j) };
                let i_out = lm.starts.partition_point(|&s| s < pos);
                let j_out = (lm.starts.partition_point(|&s| s <= end) - 1).min(lm.nchars);
                out.push(Align { i, j, i_out, j_out, lead: usize::from(left), right_marker: right });
                if out.len() >= ALIGN_CAP {
                    return out;
                }
            }
        }
    }
    out
}

/// source indices whose rendering starts at display column `d` of the shown text
fn indices_at(lm: &LineModel, a: &Align, d: usize) -> (Vec<usize>, usize) {
    let mut col = a.lead;
    let mut v = vec![];
    for k in a.i..a.j {
        if col == d {
            v.push(k);
        }
        col += lm.widths[k];
    }
    (v, col) // col = display column just after the last shown character
}

#[derive(Default)]
struct Notes {
    snippet_form: bool,
    windows: usize,
    cropped_shown: bool,
    trimmed_by_renderer: bool,
    caret_checked: usize,
    caret_skipped: Vec<&'static str>,
    unparsed: Option<String>,
}

struct Ctx17<'a> {
    model: &'a Model,
    radius: usize,
    reader: bool,
}

fn check_window(cx: &Ctx17, w: &Window, notes: &mut Notes) -> Result<(), String> {
    let (l, c) = w.loc;
    let m = cx.model;
    let nlines = m.lines.len();
    let srcs: Vec<(usize, &str, usize)> = w
        .lines
        .iter()
        .filter_map(|g| if let GLine::Src(n, t, col) = g { Some((*n, t.as_str(), *col)) } else { None })
        .collect();
    // (3) vertical window
    if srcs.len() > 5 {
        return Err(format!("{} source lines shown (at most 5 documented)", srcs.len()));
    }
    for (n, _, _) in &srcs {
        if *n + 2 < l || *n > l + 2 {
            return Err(format!("line {n} shown, outside [L-2, L+2] for L = {l}"));
        }
    }
    for pair in srcs.windows(2) {
        if pair[1].0 != pair[0].0 + 1 {
            return Err(format!("line numbers not consecutive: {} then {}", pair[0].0, pair[1].0));
        }
    }
    if let Some(al) = w.arrow_line {
        // the implicit empty line after a final '\n' is not displayed by the renderer; it attaches
        // the marker to the end of the previous line (Free, see assumptions)
        let implicit_last = l == nlines && m.ends_with_newline;
        if al != l && !implicit_last {
            return Err(format!("arrow line names line {al}, the location is line {l}"));
        }
    }
    // every shown line is a fragment of the input line with that number, within the crop bound
    let two_r1 = cx.radius.saturating_mul(2).saturating_add(1);
    let mut err_line: Option<(usize, &str, usize, LineModel, Vec<Align>)> = None;
    for (n, shown, tcol) in &srcs {
        let Some(src) = m.line(*n) else {
            return Err(format!("line {n} shown but the input has only {nlines} lines"));
        };
        let lm = LineModel::new(src, !w.secondary);
        let al = alignments(&lm, shown);
        if al.is_empty() {
            // (or, on a line wide enough for the renderer's own trimming, a `...` that the input
            // line does not contain: the marker, wherever the cut put it among wide and
            // zero-width characters)
            let trimmed = !w.secondary && (renderer_trimmed(shown) || (sw(&lm.full) >= 120 && shown.contains("...") && !lm.full.contains("...")));
            if trimmed {
                notes.trimmed_by_renderer = true;
                if *n == l {
                    err_line = Some((*n, shown, *tcol, lm, al));
                }
                continue;
            }
            return Err(format!(
                "line {n} is shown as {:?}, which is not a fragment of input line {n} ({:?})",
                clip(shown, 80),
                clip(&lm.full, 80)
            ));
        }
        if lm.nchars > two_r1 {
            notes.cropped_shown = true;
        }
        // width bound. Documented: crop_radius = "Horizontal crop radius (in character columns)";
        // "crops all displayed lines (including the context lines) to the same column window around
        // the reported error column"; internal: "Maximum number of columns to keep on each side of
        // the error column"; "Very short context lines that would otherwise crop to empty are left
        // intact".
        let ok = al.iter().any(|a| {
            let count = a.j - a.i;
            if *n == l {
                // per side, around column c (0-based index c-1)
                let left_ok = (c - 1).saturating_sub(a.i) <= cx.radius || a.i >= c - 1;
                let right_ok = a.j.saturating_sub(c) <= cx.radius;
                count <= two_r1 && left_ok && right_ok
            } else {
                // (a reader's ring may hold only the head of its last line or the tail of its first
                // line: what the snippet code sees as the whole line is then a part of the input line)
                let intact = a.lead == 0
                    && !a.right_marker
                    && if cx.reader { a.i_out == 0 || a.j_out == lm.nchars } else { a.i_out == 0 && a.j_out == lm.nchars };
                let left_of_window = count.saturating_add(cx.radius) < c; // len <= c - r - 1
                // (a short line left of the window is shown whole instead of as a lone ellipsis;
                // "short" = no wider than the window, or the width bound would mean nothing)
                let _ = (intact, left_of_window);
                count <= two_r1
            }
        });
        if !ok && al.len() >= ALIGN_CAP {
            notes.caret_skipped.push("too many ways to align a repetitive line");
            continue;
        }
        if !ok && !w.secondary && sw(&lm.full) >= 100 && shown.contains("...") {
            // (an over-wide line that the renderer may have trimmed itself and that contains
            // `...` of its own: the alignment found need not be the real one - libFuzzer artifact)
            notes.trimmed_by_renderer = true;
            if *n == l {
                err_line = Some((*n, shown, *tcol, lm, vec![]));
            }
            continue;
        }
        if !ok {
            let a = &al[0];
            return Err(format!(
                "line {n}: {} characters shown (columns {}..={}) with crop_radius {} around column {c}",
                a.j - a.i,
                a.i + 1,
                a.j,
                cx.radius
            ));
        }
        if *n == l {
            err_line = Some((*n, shown, *tcol, lm, al));
        }
    }
    // (3) the window contains line L
    let implicit_last = l == nlines && m.ends_with_newline && m.lines.last().is_some_and(|s| s.is_empty());
    let Some((_, shown, tcol, lm, al)) = err_line else {
        if implicit_last {
            notes.caret_skipped.push("location on the implicit empty last line");
            return Ok(());
        }
        // (the parser's end-of-input position for an omitted node at the very end of a text
        // without final line break: one line past the last one - there is no such line to show;
        // what that location should be is C16's matter)
        if l > nlines {
            notes.caret_skipped.push("location beyond the last line (end of input)");
            return Ok(());
        }
        if cx.reader && srcs.is_empty() {
            return Ok(());
        }
        return Err(format!("the window does not contain line {l} (shown: {:?})", srcs.iter().map(|s| s.0).collect::<Vec<_>>()));
    };
    // (4) marker line: the gutter line directly after line L
    let pos = w.lines.iter().position(|g| matches!(g, GLine::Src(n, _, _) if *n == l)).unwrap();
    let Some(GLine::Mark(mtext, mcol)) = w.lines.get(pos + 1) else {
        return Err(format!("no marker line under line {l}"));
    };
    let Some(caret) = mtext.find('^') else {
        return Err(format!("marker line under line {l} has no '^': {:?}", clip(mtext, 60)));
    };
    if !mtext[..caret].chars().all(|ch| ch == ' ') {
        notes.caret_skipped.push("marker line has text before the caret");
        return Ok(());
    }
    let caret_abs = mcol + caret; // spaces are one column each
    if caret_abs < tcol {
        return Err(format!("the caret is left of the text of line {l}"));
    }
    let d = caret_abs - tcol;
    // the renderer trimmed the line itself ("..."): only the character above the caret is compared
    let weak = |notes: &mut Notes| -> Result<(), String> {
        // the renderer trimmed the line itself ("..."): only compare the character above the caret
        // (every character that starts at display column d: zero-width ones - combining marks -
        // share the column of the character that follows them)
        let mut col = 0;
        let mut above_all: Vec<char> = vec![];
        for ch in shown.chars() {
            if col == d {
                above_all.push(ch);
            }
            col += cw(ch);
            if col > d {
                break;
            }
        }
        let above = above_all.first().copied();
        let left_trim = shown.starts_with("...");
        let right_trim = !left_trim || shown.chars().rev().take(12).collect::<String>().contains("...");
        let width = sw(shown);
        if (left_trim && d < 4) || (right_trim && d + 14 >= width) {
            notes.caret_skipped.push("caret on a trim marker");
            return Ok(());
        }
        if c - 1 < lm.nchars {
            let piece = &lm.full[lm.starts[c - 1]..lm.starts[c]];
            match (above, piece.chars().next()) {
                (Some(a), Some(e)) => {
                    if !above_all.contains(&e) {
                        return Err(format!("the character above the caret is {a:?}, input ({l},{c}) is {e:?} (renderer-trimmed line)"));
                    }
                    notes.caret_checked += 1;
                }
                _ => notes.caret_skipped.push("renderer-trimmed line, no comparable character"),
            }
        } else {
            notes.caret_skipped.push("renderer-trimmed line, column past the text");
        }
        return Ok(());
    };
    if al.is_empty() {
        return weak(notes);
    }
    if w.secondary {
        // hand-written window: the caret offset is counted in characters; only comparable with the
        // display column when everything before it is one column wide
        let prefix: String = shown.chars().take(d).collect();
        if prefix.chars().any(|ch| cw(ch) != 1) {
            notes.caret_skipped.push("secondary window with wide/zero-width/tab before the caret");
            return Ok(());
        }
    }
    let want = c - 1;
    if want < lm.nchars && lm.starts[want] == lm.starts[want + 1] {
        notes.caret_skipped.push("the character at the location is not displayed (ZWJ)");
        return Ok(());
    }
    let mut ok = false;
    let mut seen = vec![];
    for a in &al {
        let (idx, end_col) = indices_at(&lm, a, d);
        if want < lm.nchars {
            if idx.contains(&want) {
                ok = true;
                break;
            }
        } else {
            // column past the text: caret at the end of the line
            let rest_blank = lm.full[lm.starts[a.j]..].chars().all(|ch| ch == ' ' || ch == '\u{a0}');
            if (a.j_out == lm.nchars || rest_blank) && !a.right_marker && d >= end_col {
                ok = true;
                break;
            }
        }
        seen.push((idx, end_col));
    }
    if !ok && al.len() >= ALIGN_CAP {
        notes.caret_skipped.push("too many ways to align a repetitive line");
        return Ok(());
    }
    if !ok && !w.secondary && (renderer_trimmed(shown) || shown.contains("...")) && sw(&lm.full) >= 100 {
        // the shown text also occurs elsewhere in a line that is wide enough for the renderer's
        // own trimming: its `...` marker cannot be told from dots of the input (libFuzzer
        // artifact of a thorough sweep), so the line is judged like a trimmed one
        notes.trimmed_by_renderer = true;
        return weak(notes);
    }
    if !ok {
        let above: String = {
            let mut col = 0;
            let mut s = String::new();
            for ch in shown.chars() {
                if col == d {
                    s.push(ch);
                    break;
                }
                col += cw(ch);
            }
            s
        };
        let expect = if want < lm.nchars { lm.full[lm.starts[want]..lm.starts[want + 1]].to_string() } else { "<end of line>".to_string() };
        return Err(format!(
            "caret at display column {d} of line {l} is above {:?}; the location says column {c} = {:?} (line shown as {:?})",
            above,
            expect,
            clip(shown, 60)
        ));
    }
    notes.caret_checked += 1;
    Ok(())
}

/// annotate-snippets cut the line itself (lines wider than its 140-column budget): `...` at the
/// start and / or at the end (zero-width characters may trail the end marker)
fn renderer_trimmed(shown: &str) -> bool {
    // (wide or zero-width characters at the cut can leave stray characters after the end marker:
    // up to 4 were seen, two of them combining marks - libFuzzer artifact)
    let tail: String = shown.chars().rev().take(12).collect::<Vec<_>>().into_iter().rev().collect();
    shown.starts_with("...") || (sw(shown) >= 100 && tail.contains("..."))
}

fn clip(s: &str, n: usize) -> String {
    if s.chars().count() <= n {
        s.to_string()
    } else {
        let h: String = s.chars().take(n / 2).collect();
        let t: String = s.chars().rev().take(n / 2).collect::<Vec<_>>().into_iter().rev().collect();
        format!("{h}<..>{t}")
    }
}

// ------------------------------------------------------------------------------------------
// the check

fn variant_name(e: &Error) -> String {
    let d = format!("{:?}", e.without_snippet());
    d.split(|c: char| !c.is_alphanumeric()).next().unwrap_or("?").to_string()
}
fn is_validation(e: &Error) -> bool {
    matches!(variant_name(e).as_str(), "ValidationError" | "ValidationErrors" | "ValidatorError" | "ValidatorErrors")
}

fn guarded<T>(what: &str, f: impl FnOnce() -> T) -> Result<T, String> {
    match engine::catch(f) {
        engine::Caught::Ok(v) => Ok(v),
        engine::Caught::Panic(m, l) => Err(format!("{what}: panic at {l}: {m}")),
    }
}

/// Facts about a case shared by the oracle, the known-finding signatures and the evidence classes.
struct Facts {
    err: Option<Error>,
    model: Model,
    /// message texts of the built-in formatters
    messages: Vec<String>,
    loc: Option<(usize, usize)>,
}
fn collect_messages(e: &Error, out: &mut Vec<String>) {
    let inner = e.without_snippet();
    out.push(DefaultMessageFormatter.format_message(inner).into_owned());
    out.push(UserMessageFormatter.format_message(inner).into_owned());
    match inner {
        Error::ValidationErrors { errors } | Error::ValidatorErrors { errors } => {
            for x in errors {
                collect_messages(x, out);
            }
        }
        _ => {}
    }
}
fn facts(c: &Case) -> Facts {
    let err = parse_case(c);
    let model = Model::new(&c.text);
    let mut messages = vec![];
    let mut loc = None;
    if let Some(e) = &err {
        collect_messages(e, &mut messages);
        loc = e.location().map(|l| (l.line() as usize, l.column() as usize));
    }
    Facts { err, model, messages, loc }
}

/// Known finding 1: text reflected from the input (keys, variant names, duplicate keys, messages of
/// user types) reaches the report unsanitised. Predicate: the message the formatters produce for
/// this case contains a control character.
fn sig_reflected_control(f: &Facts) -> bool {
    f.messages.iter().any(|m| first_forbidden(m).is_some())
}

const RING: usize = 3072;

/// Known finding 2: the reader's ring snapshot can begin in the middle of the line the error is on;
/// the fragment is then treated as the whole line. Predicate: reader entry point and more than a
/// ring's worth of input follows the start of the reported line (so that its start can have been
/// evicted at the time the snapshot is taken).
fn sig_reader_partial_line(c: &Case, f: &Facts) -> bool {
    if !is_reader(c.entry) {
        return false;
    }
    let Some((l, _)) = f.loc else { return false };
    // byte offset of the start of line l (lines split at '\n')
    let mut off = 0usize;
    let mut n = 1usize;
    for (i, b) in c.text.bytes().enumerate() {
        if n == l {
            break;
        }
        if b == b'\n' {
            n += 1;
            off = i + 1;
        }
    }
    if n != l {
        return false;
    }
    c.text.len() > off + RING - 8
}

/// Known finding 3: in the hand-written secondary ("defined here") window the marker line has a
/// fixed two-column gutter, so with line numbers of two or more digits the caret is shifted.
/// Predicate: the error carries two distinct locations and the secondary window reaches line 10.
fn sig_secondary_gutter(c: &Case, f: &Facts) -> bool {
    let Some(e) = &f.err else { return false };
    if is_validation(e) {
        // several issues, each with its own pair of locations (not all reachable through the public
        // API): any alias in a document of ten or more lines
        return c.text.contains('*') && f.model.lines.len() >= 10;
    }
    let Some(ls) = e.locations() else { return false };
    let (r, d) = (ls.reference_location, ls.defined_location);
    if r == Location::UNKNOWN || d == Location::UNKNOWN || r == d {
        return false;
    }
    let last = (d.line() as usize + 2).min(f.model.lines.len());
    last >= 10
}

/// Open finding `c17-second-window-from-cropped-region`: the error keeps horizontally cropped
/// copies of the source regions it may have to show; once a line of a region is longer than
/// 4 KiB it is cropped around the column of the *first* location, and a second location on the
/// same lines (the "defined here" window, a later validation issue) is rendered from that text:
/// the window is empty or shows the wrong part of the line.
/// Predicate: two distinct locations (or a validation report with an alias), and a line longer
/// than 4000 bytes within two lines of either.
fn sig_second_window_cropped_region(c: &Case, f: &Facts) -> bool {
    let Some(e) = &f.err else { return false };
    let lines = &f.model.lines;
    let long_near = |l: usize| (l.saturating_sub(3)..(l + 2).min(lines.len())).any(|i| lines[i].len() > 4000);
    if is_validation(e) {
        return lines.iter().any(|l| l.len() > 4000);
    }
    let Some(ls) = e.locations() else { return false };
    let (r, d) = (ls.reference_location, ls.defined_location);
    if r == Location::UNKNOWN || d == Location::UNKNOWN || r == d {
        return false;
    }
    let _ = c;
    long_near(r.line() as usize) || long_near(d.line() as usize)
}

/// Open finding `c17-marker-left-of-trimmed-margin`: the located column lies inside the leading
/// blanks / tabs of its line while some line of the window is wider than the renderer's 140
/// display columns once tabs are expanded to 4 (cropping counts a tab as one column): the renderer
/// then trims the left margin of every line and the marker, which is left of the new margin, is
/// printed in the gutter.
fn sig_marker_in_trimmed_margin(c: &Case, f: &Facts) -> bool {
    let Some((l, col)) = f.loc else { return false };
    let lines = &f.model.lines;
    if l == 0 || l > lines.len() {
        return false;
    }
    let line: Vec<char> = lines[l - 1].chars().collect();
    let in_blanks = line.iter().take(col.saturating_sub(1).min(line.len())).all(|ch| *ch == ' ' || *ch == '\t')
        && line.get(col.saturating_sub(1)).is_none_or(|ch| *ch == ' ' || *ch == '\t');
    if !in_blanks {
        return false;
    }
    let r = c.opts.crop;
    let (lo, hi) = (col.saturating_sub(r).max(1), col.saturating_add(r));
    let from = l.saturating_sub(2).max(1);
    let to = (l + 2).min(lines.len());
    let wide = (from..=to).any(|k| {
        let cs: Vec<char> = lines[k - 1].chars().collect();
        let shown: Vec<char> = cs.iter().enumerate().filter(|(i, _)| r == 0 || (i + 1 >= lo && i + 1 <= hi)).map(|(_, ch)| *ch).collect();
        let width: usize = shown.iter().map(|ch| if *ch == '\t' { 4 } else { 1 }).sum();
        // (the renderer's limit of 140 columns includes the label text after the marker)
        width > 100
    });
    // (the renderer also trims the margin when every line that shows anything starts with a long
    // run of blanks - 7 tabs were enough in a libFuzzer document)
    let indents: Vec<usize> = (from..=to)
        .filter_map(|k| {
            let l = &lines[k - 1];
            let lead: usize = l.chars().take_while(|ch| *ch == ' ' || *ch == '\t').map(|ch| if ch == '\t' { 4 } else { 1 }).sum();
            if l.chars().all(|ch| ch == ' ' || ch == '\t') { None } else { Some(lead) }
        })
        .collect();
    let deep_margin = !indents.is_empty() && indents.iter().all(|w| *w >= 16);
    wide || deep_margin
}

fn check_case(c: &Case) -> Result<Notes, String> {
    let f = facts(c);
    check_with(c, &f)
}

fn check_with(c: &Case, f: &Facts) -> Result<Notes, String> {
    let mut notes = Notes::default();
    let Some(err) = &f.err else { return Ok(notes) };
    let reader = is_reader(c.entry);
    let cx = Ctx17 { model: &f.model, radius: c.opts.crop, reader };
    let validation = is_validation(err);
    let dev_msg = &f.messages[0];
    // a message with line breaks of its own (reflected "\n", several validation issues) makes the
    // report ambiguous to parse: layout checks are skipped, (1) and (2) still apply
    let multi_line_msg = if validation {
        let issues = dev_msg.matches("validation error").count().max(1);
        dev_msg.matches('\n').count() + 1 > issues || f.messages.iter().any(|m| m.contains('\r'))
    } else {
        f.messages.iter().any(|m| m.contains('\n'))
    };
    let layout_ok = !f.model.lone_cr && !f.model.bom_inside && !multi_line_msg;
    if f.model.bom_inside {
        notes.caret_skipped.push("input has U+FEFF after the start");
    }
    if f.model.lone_cr {
        notes.caret_skipped.push("input has a lone CR line break");
    }
    if multi_line_msg {
        notes.caret_skipped.push("message spans several lines");
    }
    // is the snippet form promised? (string entry points, options as documented)
    let snippet_expected = matches!(c.entry, Entry::Str | Entry::Slice | Entry::Multi)
        && layout_ok
        && !validation
        && c.opts.snippet
        && c.opts.crop > 0
        && match f.loc {
            Some((l, col)) => f.model.line(l).is_some_and(|s| col >= 1 && col - 1 <= s.chars().count()),
            None => false,
        };
    // (`with_snippet = false`: "public APIs that have access to the original YAML input will
    // wrap returned errors with a snippet" only if true - the reader entry points included)
    let plain_expected = layout_ok && (!c.opts.snippet || (!reader && c.opts.crop == 0) || f.loc.is_none());

    let large = c.text.len() > 4000;
    for fm in FM_ALL {
        for mode in [SnippetMode::Auto, SnippetMode::Off] {
            let tag = format!("[{fm:?}/{mode:?}]");
            let out = guarded(&tag, || render(err, fm, mode))?;
            scan(&tag, &out)?;
            if f.model.lone_cr && !f.model.bom_inside && !multi_line_msg && !validation && mode == SnippetMode::Auto {
                // a lone CR is a line break for the parser: the line shown under the located
                // line number must be (a fragment of) the line the parser counted, not the
                // LF-delimited physical line with that number
                if let Some((l, _)) = f.loc {
                    let true_lines: Vec<&str> = {
                        let t = c.text.strip_prefix('\u{feff}').unwrap_or(&c.text);
                        let mut v = vec![];
                        let mut start = 0;
                        let b = t.as_bytes();
                        let mut i = 0;
                        while i < b.len() {
                            if b[i] == b'\n' || b[i] == b'\r' {
                                v.push(&t[start..i]);
                                if b[i] == b'\r' && b.get(i + 1) == Some(&b'\n') {
                                    i += 1;
                                }
                                start = i + 1;
                            }
                            i += 1;
                        }
                        v.push(&t[start..]);
                        v
                    };
                    let prefix = format!("{l} | ");
                    if let (Some(shown), Some(want)) = (out.lines().find_map(|x| x.trim_start().strip_prefix(prefix.as_str())), true_lines.get(l - 1)) {
                        let norm = |x: &str| -> String { x.chars().map(sanitize_char).filter(|ch| *ch != '…').collect::<String>().trim().to_string() };
                        let (sh, wa) = (norm(shown), norm(want));
                        if !sh.is_empty() && !wa.contains(&sh) && !sh.contains(&wa) {
                            return Err(format!("{tag} lone CR line breaks: the line shown as line {l} is {shown:?}, the parser's line {l} is {want:?}"));
                        }
                    }
                }
            }
            if !layout_ok {
                continue;
            }
            match parse_windows(&out) {
                Err(e) => {
                    if notes.unparsed.is_none() {
                        notes.unparsed = Some(e);
                    }
                }
                Ok(None) => {
                    if mode == SnippetMode::Auto && snippet_expected {
                        return Err(format!("{tag} no snippet in the report although the location {:?} is inside the input (report: {:?})", f.loc, clip(&out, 120)));
                    }
                }
                Ok(Some(wins)) => {
                    if mode == SnippetMode::Off {
                        return Err(format!("{tag} SnippetMode::Off rendered a snippet"));
                    }
                    if plain_expected {
                        return Err(format!("{tag} a snippet is rendered although snippets are disabled by the options / no location is known"));
                    }
                    notes.snippet_form = true;
                    notes.windows = notes.windows.max(wins.len());
                    if !validation {
                        if let (Some(first), Some(loc)) = (wins.first(), f.loc) {
                            if !first.secondary && first.loc != loc {
                                return Err(format!("{tag} the report is about line {} column {}, Error::location() is {:?}", first.loc.0, first.loc.1, loc));
                            }
                        }
                    }
                    for w in &wins {
                        check_window(&cx, w, &mut notes).map_err(|e| {
                            format!("{tag} {}window: {e}", if w.secondary { "secondary " } else { "" })
                        })?;
                    }
                }
            }
        }
    }
    // miette adapter
    let fms: &[Fm] = if large { &[Fm::Dev, Fm::Custom] } else { &[Fm::Dev, Fm::User, Fm::Custom, Fm::DevL10n] };
    for &fm in fms {
        let tag = format!("[miette/{fm:?}]");
        let m = guarded(&tag, || render_miette(err, &c.text, fm))?;
        scan(&format!("{tag} message"), &m.message)?;
        for l in &m.labels {
            scan(&format!("{tag} label"), l)?;
        }
        if let Some(s) = &m.source {
            scan(&format!("{tag} source code"), s)?;
            // "show the right line": the text handed to miette is, line by line, the input (control
            // characters replaced one for one); the CR of a CRLF line break belongs to the break,
            // not to the line, and must not show up as a visible character at the end of it
            let pieces = c.text.split('\n').count();
            for (n, (shown, orig)) in s.split('\n').zip(c.text.split('\n')).enumerate() {
                // (only a CR that is followed by LF: a CR at the very end of the input is a lone CR,
                // a control character like any other - libFuzzer artifact of a thorough sweep)
                let orig = if n + 1 < pieces { orig.strip_suffix('\r').unwrap_or(orig) } else { orig };
                let (sh, og): (Vec<char>, Vec<char>) = (shown.trim_end().chars().collect(), orig.chars().collect());
                let same = sh.len() <= og.len() && sh.iter().zip(og.iter()).all(|(a, b)| a == b || is_forbidden(*b));
                if !same {
                    return Err(format!(
                        "{tag} source code: line {} is exposed as {:?}, the input line is {:?}",
                        n + 1,
                        clip(shown, 80),
                        clip(orig, 80)
                    ));
                }
            }
        }
        // the label marks the reported position: some label of the top-level diagnostic starts at
        // the byte of the source text (as handed to the adapter) that (line, column) denotes
        // (not judged: text with a NUL, which ends the input for the parser and gives odd
        // end-of-input coordinates; reader input with a multi-byte character inside a comment,
        // where the parser dependency's streaming input counts bytes - open C09 finding)
        let comment_mb = c.text.lines().any(|ln| ln.find('#').is_some_and(|i| !ln[i..].is_ascii()));
        // (nor: a directive line with multi-byte text - open C16 finding, in-memory input too -
        // and the other Unicode line breaks NEL / LS / PS, which the model does not split at)
        let directive_mb = c.text.lines().any(|ln| ln.trim_start().starts_with('%') && !ln.is_ascii());
        let other_breaks = c.text.contains(['\u{85}', '\u{2028}', '\u{2029}']);
        if layout_ok && !validation && !c.text.contains('\0') && !(reader && comment_mb) && !directive_mb && !other_breaks {
            if let Some((l, col)) = f.loc {
                if let Some(want) = byte_offset_of(&c.text, l, col) {
                    // (the position just after the last character included: an error at the end
                    // of the input has a place in the report like any other)
                    if !m.label_offsets.contains(&want) {
                        return Err(format!("{tag} no label starts at byte {want} = line {l} column {col} of the source; labels start at {:?}", m.label_offsets));
                    }
                }
            }
        }
        match &m.graphical {
            Ok(s) => scan(&format!("{tag} graphical report"), s)?,
            Err(()) => return Err(format!("{tag} GraphicalReportHandler returned a formatting error (Debug of the report would panic)")),
        }
        match &m.narrated {
            Ok(s) => scan(&format!("{tag} narrated report"), s)?,
            Err(()) => return Err(format!("{tag} NarratableReportHandler returned a formatting error")),
        }
    }
    Ok(notes)
}

fn vis(s: &str) -> String {
    let mut o = String::new();
    for ch in s.chars() {
        match ch {
            '\n' => o.push('\n'),
            c if is_forbidden(c) => o.push_str(&format!("<{:02X}>", c as u32)),
            c => o.push(c),
        }
    }
    o
}

fn show(path: &str) {
    let s = std::fs::read_to_string(path).expect("read");
    let v: serde_json::Value = serde_json::from_str(&s).expect("json");
    let cv = if v.get("case").is_some() { v["case"].clone() } else { v };
    let c: Case = serde_json::from_value(cv).expect("case");
    println!("text: {:?}", clip(&c.text, 300));
    println!("target {:?} entry {:?} crop {} snippet {}", c.target, c.entry, c.opts.crop, c.opts.snippet);
    let Some(err) = parse_case(&c) else {
        println!("no error");
        return;
    };
    println!("location: {:?}", err.location());
    println!("debug: {}", clip(&format!("{:?}", err.without_snippet()), 400));
    let only = std::env::var("FM").ok();
    for fm in FM_ALL {
        if only.as_ref().is_some_and(|o| format!("{fm:?}") != *o) {
            continue;
        }
        for mode in [SnippetMode::Auto, SnippetMode::Off] {
            println!("===== {fm:?} {mode:?}");
            for l in vis(&render(&err, fm, mode)).lines() {
                println!("{}", clip(l, 300));
            }
        }
    }
    if only.is_none() {
        let m = render_miette(&err, &c.text, Fm::Dev);
        println!("===== miette message\n{}", clip(&vis(&m.message), 300));
        println!("===== miette labels\n{:?}", m.labels);
        println!("===== miette graphical");
        for l in vis(&m.graphical.unwrap_or("<fmt error>".into())).lines() {
            println!("{}", clip(l, 300));
        }
    }
    println!("===== verdict: {:?}", check_case(&c).map(|n| (n.snippet_form, n.windows, n.caret_checked, n.caret_skipped, n.unparsed)));
    println!("signatures: {:?}", C17::signatures(&c));
}

// ------------------------------------------------------------------------------------------
// generators

const RADII: [usize; 6] = [0, 1, 5, 64, 1_000_000, usize::MAX];
const ENTRIES: [Entry; 7] = [Entry::Str, Entry::Reader1, Entry::Reader8192, Entry::Slice, Entry::Multi, Entry::Reader7, Entry::ReadIter];

/// YAML escapes (to be written inside double quotes) that decode to something interesting
const ESC_PAYLOADS: [&str; 22] = [
    r"\e[31mX", r"\x9b31m", r"\u009b", r"\x7f", r"\a", r"\0", r"\b", r"\e]0;t\a", r"\N", r"\L", r"\P", r"\_", r"\r",
    r"\n", r"\t", r"\x1b[2J", r"\U0000009b", r"\v", r"\f", r"\x80", r"\x9f", r"ok\x01",
];
/// raw text (plain / single-quoted scalars, comments)
const RAW_PAYLOADS: [&str; 16] = [
    "\u{7f}", "\u{9b}31m", "\u{85}", "\u{1b}[31m", "\u{7}", "\u{2028}", "世界", "😀", "e\u{301}", "\u{202e}abc",
    "a\u{200d}b", "\u{a0}", "x\u{feff}y", "\u{80}", "\u{9f}z", "plain",
];

fn opts_with(crop: usize, snippet: bool) -> DeOpts {
    DeOpts { crop, snippet, ..DeOpts::default() }
}

/// documents in which the scalar token `q` (already in YAML syntax) is reflected into a message
fn reflect_docs(q: &str) -> Vec<(String, Target)> {
    vec![
        (format!("a: 1\n{q}: 1\n"), Target::Strict),
        (format!("{q}\n"), Target::Enum),
        (format!("{q}: 1\n"), Target::Enum),
        (format!("{q}: 1\nb: 2\n{q}: 3\n"), Target::MapI32),
        (format!("- {q}: 1\n  b: 2\n  {q}: 3\n"), Target::Untyped),
        (format!("a: {q}\n"), Target::Strict),
        (format!("- 1\n- {q}\n- 3\n"), Target::VecI32),
        (format!("{q}\n"), Target::Bool),
        (format!("{q}\n"), Target::Char),
        (format!("{q}\n"), Target::I32),
        (format!("e: {q}\n"), Target::Wrap),
        (format!("m:\n  {q}: 1\n  zz: 0\n  {q}: 2\n"), Target::Wrap),
        (format!("s:\n  a: 1\n  {q}: 1\n"), Target::Wrap),
        (format!("f: {q}\n"), Target::Wrap),
        (format!("t: [1, {q}]\n"), Target::Wrap),
        (format!("ch: {q}\n"), Target::Wrap),
        (format!("items:\n  {q}:\n    name: x\n    n: 5\n"), Target::Garde),
        (format!("list:\n  - name: {q}\n    n: 50\n"), Target::Garde),
        (format!("items:\n  {q}:\n    name: x\n    n: 5\n"), Target::Validator),
        (format!("list:\n  - name: {q}\n    n: 50\n"), Target::Validator),
        (format!("count: &v {q}\nflag: *v\n"), Target::Alias),
        (format!("count: 1\nflag: &v {q}\nother: *v\n"), Target::Alias),
    ]
}

fn reflect_leaf_docs(payload_in_quotes: &str) -> Vec<(String, Target)> {
    let mut v = vec![];
    for kind in ["custom:", "value:", "char:", "other:"] {
        v.push((format!("r: \"{kind}{payload_in_quotes}\"\n"), Target::Reflect));
        v.push((format!("l:\n  - ok\n  - \"{kind}{payload_in_quotes}\"\n"), Target::Reflect));
    }
    v
}

fn wrap_doc(doc: &str, lead: usize, trail: usize, crlf: bool, filler: &str) -> String {
    let mut s = String::new();
    for i in 0..lead {
        s.push_str(&format!("# lead {i} {filler}\n"));
    }
    s.push_str(doc);
    if !s.ends_with('\n') {
        s.push('\n');
    }
    for i in 0..trail {
        s.push_str(&format!("# trail {i} {filler}\n"));
    }
    if crlf { s.replace('\n', "\r\n") } else { s }
}

/// an aperiodic word for position i (so that a fragment of a long line has a unique position)
fn word(i: usize, flavour: usize) -> String {
    let h = engine::splitmix(i as u64 ^ 0x5eed);
    let base = format!("{:x}", h & 0xffffff);
    match flavour % 8 {
        0 => base,
        1 => format!("世{base}界"),
        2 => format!("é{base}ü"),
        3 => format!("{base}\t{}", h % 7),
        4 => format!("{base}\u{7f}\u{9b}{}", h % 5),
        5 => format!("e\u{301}{base}😀"),
        6 => format!("{}\u{1b}[3{}m", base, h % 8),
        _ => {
            // mixed: choose by position
            return word(i, (h >> 32) as usize % 7);
        }
    }
}

#[derive(Clone, Copy, Debug)]
enum LongKind {
    IntSeq,
    AliasSeq,
    PlainValue,
    DupFlowMap,
    Unterminated,
}

/// One long line of roughly `total` characters with the error roughly at character `at`.
fn long_line(kind: LongKind, total: usize, at: usize, flavour: usize) -> (String, Target) {
    let mut s = String::new();
    match kind {
        LongKind::IntSeq => {
            s.push('[');
            let mut i = 0usize;
            let mut placed = false;
            while s.chars().count() < total {
                if !placed && s.chars().count() >= at {
                    s.push_str("x7, ");
                    placed = true;
                }
                s.push_str(&format!("{}, ", 100000 + (engine::splitmix(i as u64) % 800000)));
                i += 1;
            }
            if !placed {
                s.push_str("x7, ");
            }
            s.push_str("1]");
            (s, Target::VecI32)
        }
        LongKind::AliasSeq => {
            s.push_str("k: [");
            let mut i = 0usize;
            let mut placed = false;
            let mut n = 4usize;
            while n < total {
                if !placed && n >= at {
                    s.push_str("*zz, ");
                    n += 5;
                    placed = true;
                }
                let w = word(i, flavour);
                n += w.chars().count() + 4;
                s.push('"');
                s.push_str(&w);
                s.push_str("\", ");
                i += 1;
            }
            if !placed {
                s.push_str("*zz, ");
            }
            s.push_str("0]");
            (s, Target::Untyped)
        }
        LongKind::PlainValue => {
            s.push_str("a: ");
            let mut i = 0usize;
            let mut n = 3usize;
            while n < total {
                let w = word(i, flavour);
                n += w.chars().count() + 1;
                s.push_str(&w);
                s.push(' ');
                i += 1;
            }
            s.push('z');
            (s, Target::Strict)
        }
        LongKind::DupFlowMap => {
            s.push('{');
            let mut i = 0usize;
            let mut placed = false;
            let mut n = 1usize;
            while n < total {
                if !placed && n >= at && i > 0 {
                    s.push_str("k0: 9, ");
                    n += 7;
                    placed = true;
                }
                let w = format!("k{i}: {}, ", engine::splitmix(i as u64) % 1000);
                n += w.len();
                s.push_str(&w);
                i += 1;
            }
            if !placed {
                s.push_str("k0: 9, ");
            }
            s.push_str("end: 0}");
            (s, Target::MapI32)
        }
        LongKind::Unterminated => {
            s.push_str("k: \"");
            let mut i = 0usize;
            let mut n = 4usize;
            while n < total {
                let w = word(i, flavour);
                n += w.chars().count() + 1;
                s.push_str(&w);
                s.push(' ');
                i += 1;
            }
            (s, Target::Untyped)
        }
    }
}

/// a comment line of about `len` characters
fn comment_line(len: usize, flavour: usize, salt: usize) -> String {
    let mut s = String::from("# ");
    let mut i = salt * 1000;
    while s.chars().count() < len {
        s.push_str(&word(i, flavour));
        s.push(' ');
        i += 1;
    }
    s
}

fn pick<T: Copy>(v: &[T], h: u64) -> T {
    v[(h % v.len() as u64) as usize]
}

/// reader entries must not see the known hang input; fall back to the string entry point
fn safe_entry(text: &str, e: Entry) -> (Entry, bool) {
    if is_reader(e) && reader_hang_risk(text) { (Entry::Str, true) } else { (e, false) }
}

const TOKENS: [&str; 60] = [
    "a", "b", "k", "zz", "1", "-2", "3.5", "true", "null", "~", ": ", ":", " ", "  ", "\n", "\n", "\n  ", "\n    ", "\r\n", "- ", "-",
    "[", "]", "{", "}", ",", ", ", "\"", "'", "&a ", "*a", "*b", "!t ", "!!str ", "!!binary ", "| ", ">\n", "#", " # c", "%", "?", "? ",
    "---\n", "...\n", "\t", "世界", "😀", "é", "\u{7f}", "\u{9b}", "\u{1b}[1m", "\u{85}", "\u{2028}", "\\e", "\\x9b", "\\\"", "<<: ",
    "\u{200d}", "e\u{301}", "\u{0}",
];

#[derive(Default)]
struct Tally(std::cell::RefCell<BTreeMap<String, u64>>);
impl Tally {
    fn add(&self, k: &str) {
        *self.0.borrow_mut().entry(k.to_string()).or_insert(0) += 1;
    }
    fn flush<P: Property>(&self, ctx: &mut Ctx<P>) {
        for (k, v) in self.0.borrow().iter() {
            ctx.class_n(k, *v);
        }
        self.0.borrow_mut().clear();
    }
}

/// classify a case for the evidence (and decide non-triviality)
fn classify(c: &Case, t: &Tally) -> bool {
    if is_reader(c.entry) && reader_hang_risk(&c.text) {
        return false;
    }
    let f = facts(c);
    let Some(err) = &f.err else {
        t.add("input accepted (no error)");
        return false;
    };
    t.add(&format!("error {}", variant_name(err)));
    t.add(if is_reader(c.entry) { "entry reader" } else { "entry string" });
    t.add(&format!("crop_radius {}", if c.opts.crop == usize::MAX { "usize::MAX".to_string() } else { c.opts.crop.to_string() }));
    let Some((l, col)) = f.loc else {
        t.add("no location");
        return false;
    };
    let mut nt = false;
    let reflected_special = f.messages.iter().any(|m| m.chars().any(|ch| !ch.is_ascii() || is_forbidden(ch)));
    if reflected_special {
        t.add("message reflects non-ASCII / control text");
        nt = true;
    }
    if sig_reflected_control(&f) {
        t.add("message reflects a control character (finding 1 domain)");
    }
    if let Some(line) = f.model.line(l) {
        let n = line.chars().count();
        let r = c.opts.crop;
        if r > 0 && n > r.saturating_mul(2).saturating_add(1) {
            t.add("error line longer than 2r+1 (cropping)");
            nt = true;
        }
        let lo = col.saturating_sub(r.saturating_add(1));
        let hi = col.saturating_add(r);
        let mut ctrl = false;
        let mut multi = false;
        let mut wide = false;
        let mut tab = false;
        for (k, ch) in line.chars().enumerate() {
            if k < lo || k >= hi {
                continue;
            }
            if is_forbidden(ch) {
                ctrl = true;
            }
            if ch.len_utf8() > 1 {
                multi = true;
            }
            if cw(ch) != 1 {
                wide = true;
            }
            if ch == '\t' {
                tab = true;
            }
        }
        if ctrl {
            t.add("control character inside the window of the error line");
            nt = true;
        }
        if multi {
            t.add("multi-byte character inside the window");
            nt = true;
        }
        if wide {
            t.add("wide / zero-width character or tab inside the window");
        }
        if tab {
            t.add("tab inside the window");
        }
        if l == 1 {
            t.add("error on the first line");
        }
        if l + 1 >= f.model.lines.len() {
            t.add("error on the last line");
        }
    }
    if c.text.contains("\r\n") {
        t.add("CRLF input");
    }
    nt
}

thread_local! {
    /// evidence bookkeeping only (what the layout checks could do on each evaluated case); never
    /// influences a verdict
    static NOTE_TALLY: Tally = Tally::default();
}
fn tally_notes(c: &Case, notes: &Notes) {
    NOTE_TALLY.with(|t| {
        if notes.snippet_form {
            t.add("snippet form rendered");
            if is_reader(c.entry) {
                t.add("snippet form rendered (reader)");
                if c.text.len() > RING {
                    t.add("snippet form rendered (reader, input larger than the ring)");
                }
            }
        } else {
            t.add("plain form only");
        }
        if notes.windows > 1 {
            t.add("two windows (reference + definition)");
        }
        if notes.cropped_shown {
            t.add("a cropped line was shown and matched");
        }
        if notes.trimmed_by_renderer {
            t.add("line trimmed by annotate-snippets (weak caret check)");
        }
        if notes.caret_checked > 0 {
            t.add("caret position checked");
        }
        for s in notes.caret_skipped.iter().collect::<std::collections::BTreeSet<_>>() {
            t.add(&format!("layout check skipped: {s}"));
        }
        if let Some(u) = &notes.unparsed {
            t.add(&format!("layout not understood: {u}"));
        }
    })
}

// ------------------------------------------------------------------------------------------

struct C17;

const SELFCHECK_TEXT: &str = "a: 1\nb: [\"\t世界xy\u{202e}z\u{200d}e\u{301}\", *zz, q]\nc: 2\n";

fn emit(ctx: &mut Ctx<C17>, t: &Tally, sub: &str, text: String, target: Target, entry: Entry, opts: DeOpts) {
    let (entry, switched) = safe_entry(&text, entry);
    if switched {
        t.add("reader entry replaced by from_str (known %-at-end reader hang excluded by construction)");
    }
    let c = Case { text, target, entry, opts };
    let nt = classify(&c, t);
    ctx.case(sub, &c, nt);
}

impl Property for C17 {
    const ID: &'static str = "C17";
    type Case = Case;
    fn rule() -> String {
        "case = (input text, target type, entry point {from_str, from_slice, from_multiple, from_reader with chunk 1 / 7 / 8192, read iterator}, options {crop_radius in {0,1,5,64,10^6,usize::MAX}, with_snippet, no_schema, angle conversions, duplicate-key policy}); every case is rendered through Display, render_with_options with the developer / user / a custom formatter (custom Localizer) / developer formatter with custom Localizer x SnippetMode {Auto, Off}, and through the miette adapter (GraphicalReportHandler unicode_nocolor, NarratableReportHandler; message, labels and exposed source). Inputs: documents reflecting YAML escapes and raw control / wide / bidi text into messages (unknown field, unknown variant, duplicate key, invalid type/value, custom serde messages, tags, validation paths, alias errors); lines of 10-20 k characters with the error at swept columns, with long and short context lines; an exhaustive cube of (prefix length, suffix length, character class, radius, context shape) around the error column; CRLF; tabs; errors on first / last line; two-window reports whose definition site lies beyond column 65535; many-line inputs larger than the 3 KiB reader ring; two-window (anchor) reports; random token documents and mutated seeds. Oracle: no panic; no C0 (except \\n, \\t) / DEL / C1 in any output; snippet layout parsed: <= 5 consecutive source lines inside [L-2, L+2] containing L, every shown line is a fragment of the input line with that number, <= 2r+1 characters (per side <= r on the error line; a context line entirely left of the window shows its head), caret above the character at (L, C) in display columns or at end of line; SnippetMode::Off / crop_radius 0 / with_snippet false (reader entry points included) render no snippet. Non-trivial: the error has a location and (the error line is longer than 2r+1, or a control / multi-byte character lies inside the window, or the message reflects non-ASCII or control text). distinct = distinct cases.".into()
    }
    fn assumptions() -> Vec<String> {
        vec![
            "inputs with U+FEFF anywhere after the start of the text get only the no-panic and no-control-character checks".into(),
            "inputs containing a lone CR line break (not part of CRLF): the parser counts CR as a line break, the snippet code splits at LF only - besides no-panic and no-control-characters only 'the line shown under the located number is the parser's line' is judged (open finding c17-lone-cr-line-numbering)".into(),
            "reports whose message text itself contains line breaks (reflected \"\\n\", several validation issues) get only the no-panic and no-control-character checks (the layout is ambiguous to parse)".into(),
            "a location on the implicit empty line after a final line break: annotate-snippets does not display that line and attaches the marker to the end of the previous line; accepted".into(),
            "lines wider than 140 columns are additionally trimmed by annotate-snippets itself ('...'); for those only the character above the caret is compared".into(),
            "in the secondary (anchor definition) window the caret is only checked when every character before it is one column wide (that window counts characters, not display columns; undocumented)".into(),
            "whether a reader-based report contains a snippet at all is not asserted (depends on what the 3 KiB ring still holds); from_reader ignoring with_snippet=false is not asserted either".into(),
            "reader entry points are never given an input whose last, unterminated line contains '%' (known hang in the parser dependency)".into(),
            "context lines are only checked for being fragments of the right input line and for the length bound, not for column alignment with the error line".into(),
        ]
    }
    fn check(c: &Case) -> Outcome {
        if is_reader(c.entry) && reader_hang_risk(&c.text) {
            return Outcome::Discard("reader entry with '%' in the last unterminated line (known hang)");
        }
        match check_case(c) {
            Ok(notes) => {
                tally_notes(c, &notes);
                Outcome::Pass
            }
            Err(m) => Outcome::Fail(m),
        }
    }
    fn signatures(c: &Case) -> Vec<&'static str> {
        if is_reader(c.entry) && reader_hang_risk(&c.text) {
            return vec![];
        }
        let f = facts(c);
        let mut v = vec![];
        if sig_reflected_control(&f) {
            v.push("reflected_control_in_message");
        }
        if sig_reader_partial_line(c, &f) {
            v.push("reader_ring_starts_inside_error_line");
        }
        if sig_secondary_gutter(c, &f) {
            v.push("secondary_window_gutter");
        }
        if sig_marker_in_trimmed_margin(c, &f) {
            v.push("marker_in_trimmed_margin");
        }
        if f.model.lone_cr && f.loc.is_some() {
            v.push("lone_cr_line_break");
        }

        v
    }
    fn failure_signature(c: &Case, msg: &str) -> Option<&'static str> {
        // (keyed on the failure as well: the same cases must still be judged for panics and
        // control characters)
        if msg.contains("window") && !msg.contains("panic") && !(is_reader(c.entry) && reader_hang_risk(&c.text)) && sig_second_window_cropped_region(c, &facts(c)) {
            return Some("second_window_from_cropped_region");
        }
        None
    }
    fn shrink(c: &Case) -> Vec<Case> {
        let mut out = vec![];
        let d = opts_with(c.opts.crop, c.opts.snippet);
        if c.opts != d {
            out.push(Case { opts: d, ..c.clone() });
        }
        if c.entry != Entry::Str && c.entry != Entry::Reader1 {
            out.push(Case { entry: if is_reader(c.entry) { Entry::Reader1 } else { Entry::Str }, ..c.clone() });
        }
        if c.entry == Entry::Reader1 {
            out.push(Case { entry: Entry::Str, ..c.clone() });
        }
        let with = |t: String| Case { text: t, ..c.clone() };
        // drop whole lines
        let lines: Vec<&str> = c.text.split_inclusive('\n').collect();
        if lines.len() > 1 {
            if lines.len() > 8 {
                let h = lines.len() / 2;
                out.push(with(lines[h..].concat()));
                out.push(with(lines[..h].concat()));
            }
            if lines.len() <= 60 {
                for i in 0..lines.len() {
                    let mut v = lines.clone();
                    v.remove(i);
                    out.push(with(v.concat()));
                }
            }
        }
        // cut chunks out of long lines, then single characters
        let chars: Vec<char> = c.text.chars().collect();
        let n = chars.len();
        if n > 40 {
            for parts in [2usize, 4, 8, 16, 32] {
                let step = n / parts;
                if step == 0 {
                    break;
                }
                for k in 0..parts {
                    let (a, b) = (k * step, ((k + 1) * step).min(n));
                    let t: String = chars[..a].iter().chain(chars[b..].iter()).collect();
                    out.push(with(t));
                }
            }
        } else {
            for i in 0..n {
                let mut v = chars.clone();
                v.remove(i);
                out.push(with(v.into_iter().collect()));
            }
            for i in 0..n {
                if !chars[i].is_ascii() {
                    let mut v = chars.clone();
                    v[i] = 'a';
                    out.push(with(v.into_iter().collect()));
                }
            }
        }
        out
    }
    fn selfcheck() -> Result<(), String> {
        // the harness' own formatter / localizer must be clean
        let probe = Error::Eof { location: Location::UNKNOWN };
        for s in [
            HarnessFormatter.format_message(&probe).into_owned(),
            HARNESS_L10N.root_path_label().into_owned(),
            HARNESS_L10N.defined().into_owned(),
            HARNESS_L10N.defined_here().into_owned(),
            HARNESS_L10N.value_used_here().into_owned(),
            HARNESS_L10N.defined_window().into_owned(),
        ] {
            if first_forbidden(&s).is_some() {
                return Err("harness formatter emits a control character".into());
            }
        }
        // the line model must reproduce what the renderer (annotate-snippets) prints for a line with
        // tabs, wide, bidi and zero-width characters (otherwise the layout oracle would raise false
        // alarms); control characters are deliberately absent: sanitising them is the library's job
        let text = SELFCHECK_TEXT;
        let c = Case { text: text.to_string(), target: Target::Untyped, entry: Entry::Str, opts: DeOpts::default() };
        let Some(err) = parse_case(&c) else { return Err("self-check document unexpectedly parses".into()) };
        let out = err.to_string();
        let Ok(Some(w)) = parse_windows(&out) else { return Err(format!("self-check: cannot parse the reference report:\n{out}")) };
        let m = Model::new(text);
        let lm = LineModel::new(m.line(2).unwrap(), true);
        let shown = w[0].lines.iter().find_map(|g| if let GLine::Src(2, t, _) = g { Some(t.clone()) } else { None });
        if shown.as_deref() != Some(lm.full.as_str()) {
            return Err(format!("self-check: line model {:?} differs from the rendering {:?}", lm.full, shown));
        }
        Ok(())
    }
    /// libFuzzer input: target, entry point, options, then the input text (lossy UTF-8, <= 400 bytes)
    fn fuzz_decode(data: &[u8]) -> Option<(&'static str, Case, bool)> {
        let mut b = engine::Bytes::new(data);
        const TARGETS: [Target; 14] = [
            Target::Strict, Target::Enum, Target::MapI32, Target::VecI32, Target::I32, Target::Bool, Target::Str, Target::Char,
            Target::Wrap, Target::Reflect, Target::Untyped, Target::Alias, Target::Garde, Target::Validator,
        ];
        let target = b.pick(&TARGETS);
        let entry = b.pick(&ENTRIES);
        let flags = b.u8();
        let mut opts = opts_with(b.pick(&RADII), flags & 7 != 0);
        opts.no_schema = flags & 8 != 0;
        opts.angle = flags & 16 != 0;
        opts.dup = [vcheck::opts::Dup::Error, vcheck::opts::Dup::First, vcheck::opts::Dup::Last][(flags >> 5) as usize % 3];
        let text = String::from_utf8_lossy(b.take(400)).into_owned();
        // Lines of 100 display columns or more are left to the enumerated and random families
        // (`long-lines`, the cube, `two-windows-far-column`): there annotate-snippets trims the
        // line itself, by rules of its own (margins, `...` markers placed between wide and
        // zero-width characters) that the layout parser follows for the shapes those families
        // produce, but not for arbitrary byte soup - six artifacts of this tier were all of that
        // kind (DESIGN.md section 3, C17 Corr.).
        if text.split('\n').any(|l| sw(l) >= 100) {
            return None;
        }
        let (entry, _) = safe_entry(&text, entry);
        let c = Case { text, target, entry, opts };
        let nt = classify(&c, &Tally::default());
        Some(("fuzz-text", c, nt))
    }
    fn generate(ctx: &mut Ctx<Self>) {
        gen_all(ctx)
    }
}

fn gen_all(ctx: &mut Ctx<C17>) {
    use proptest::prelude::*;
    let t = Tally::default();
    let seed = ctx.seed;
    let mix = |a: u64, b: u64| engine::splitmix(seed ^ engine::splitmix(a ^ engine::splitmix(b)));

    // --- 0. the reference document of the start-up self check, as an ordinary case -----------------------
    if ctx.worker == 0 {
        for entry in [Entry::Str, Entry::Reader1] {
            emit(ctx, &t, "reference", SELFCHECK_TEXT.to_string(), Target::Untyped, entry, DeOpts::default());
        }
    }

    // --- 1. reflected text ----------------------------------------------------------------------
    {
        let mut scalars: Vec<String> = vec![];
        for p in ESC_PAYLOADS {
            scalars.push(format!("\"{p}\""));
            scalars.push(format!("\"pre {p} post\""));
        }
        for p in RAW_PAYLOADS {
            scalars.push(p.to_string());
            scalars.push(format!("'{p}'"));
            scalars.push(format!("\"{p}\""));
        }
        let mut docs: Vec<(String, Target, bool, bool)> = vec![];
        for q in &scalars {
            for (d, tg) in reflect_docs(q) {
                docs.push((d, tg, false, false));
            }
        }
        for p in ESC_PAYLOADS {
            for (d, tg) in reflect_leaf_docs(p) {
                docs.push((d, tg, false, false));
            }
        }
        for p in RAW_PAYLOADS {
            for (d, tg) in reflect_leaf_docs(p) {
                docs.push((d, tg, false, false));
            }
        }
        for tag in ["!E%1B%5B31m Alpha", "!Foo Alpha", "!<E%9B> Alpha", "!!E\u{7f} Alpha", "!E\u{9b}x Alpha", "!Other {x: 1}"] {
            docs.push((format!("{tag}\n"), Target::Enum, false, false));
            docs.push((format!("e: {tag}\n"), Target::Wrap, false, false));
        }
        for v in ["123", "true", "~", "0x1F", ".inf", "1e3", "null", "-.INF", "0o17", "yes"] {
            docs.push((format!("{v}\n"), Target::Str, true, false));
            docs.push((format!("v: [a, {v}]\n"), Target::Wrap, true, false));
        }
        for v in ["deg(1\u{7f})", "\"deg(\\e[31m)\"", "deg(世)", "1 + \u{9b}", "rad(x)"] {
            docs.push((format!("f: {v}\n"), Target::Wrap, false, true));
        }
        let combos = ctx.tier.pick(16u64, 240u64);
        let mut idx = 0u64;
        for (d, tg, no_schema, angle) in &docs {
            for j in 0..combos {
                idx += 1;
                if !ctx.mine(idx) {
                    continue;
                }
                let h = mix(idx, j);
                let lead = (h % 4) as usize;
                let trail = ((h >> 4) % 4) as usize;
                let crlf = (h >> 8) % 4 == 0;
                let filler = pick(&["", "x", "世界", "\u{7f}\u{1b}[0m"], h >> 10);
                let text = wrap_doc(d, lead, trail, crlf, filler);
                let entry = pick(&ENTRIES, h >> 16);
                let crop = pick(&RADII, h >> 24);
                let snippet = (h >> 32) % 5 != 0;
                let mut o = opts_with(crop, snippet);
                o.no_schema = *no_schema;
                o.angle = *angle;
                emit(ctx, &t, "reflected-text", text, *tg, entry, o);
            }
        }
        ctx.subspace("reflecting documents (every document, each with a sample of the wrap / entry / radius / snippet combinations)", docs.len() as u64, false);
    }

    // --- 2. exhaustive small cube around the error column --------------------------------------------
    {
        // character classes for the text left and right of the error token
        let classes: [&[char]; 6] = [
            &['a', 'b', 'c', 'd', 'e', 'f', 'g', 'h', 'i', 'j', 'k'],
            &['世', '界', '語', '漢', '字', '日', '本', '中', '文', '韓', '国'],
            &['é', 'ü', 'ß', 'ø', 'ñ', 'ç', 'å', 'æ', 'ð', 'þ', 'ï'],
            &['a', '\t', 'b', '\t', 'c', 'd', '\t', 'e', 'f', '\t', 'g'],
            &['a', '\u{7f}', 'b', '\u{9b}', 'c', '\u{1b}', 'd', '\u{85}', 'e', '\u{7}', 'f'],
            &['e', '\u{301}', '😀', 'a', '\u{200d}', 'b', '\u{202e}', 'c', '世', '\t', '\u{a0}'],
        ];
        let radii: [usize; 4] = [1, 2, 3, 5];
        let maxlen = ctx.tier.pick(10usize, 11usize); // (the classes have 11 characters)
        let mut idx = 0u64;
        let mut total = 0u64;
        for (ci, cl) in classes.iter().enumerate() {
            for p in 1..=maxlen {
                for s in 0..=maxlen {
                    for &r in &radii {
                        for shape in 0..6usize {
                            total += 1;
                            idx += 1;
                            if !ctx.mine(idx) {
                                continue;
                            }
                            let prefix: String = cl.iter().take(p).collect();
                            let suffix: String = cl.iter().rev().take(s).collect();
                            // `prefix: *zz # suffix` – unknown alias right after the prefix
                            let err_line = if s == 0 { format!("{prefix}: *zz") } else { format!("{prefix}: *zz #{suffix}") };
                            let long: String = cl.iter().cycle().take(30).collect();
                            let (before, after): (Vec<String>, Vec<String>) = match shape {
                                0 => (vec![], vec![]),
                                1 => (vec!["x: 1".into()], vec!["y: 2".into()]),
                                2 => (vec![format!("# {long}"), "x: 1".into()], vec![format!("# {long}")]),
                                3 => (vec![format!("# {long}"), format!("# {long}"), format!("# {long}")], vec![]),
                                4 => (vec![], vec![format!("# {long}"), "y: 2".into(), "z: 3".into()]),
                                _ => (vec!["".into(), format!("# {prefix}")], vec!["".into()]),
                            };
                            let mut text = String::new();
                            for l in &before {
                                text.push_str(l);
                                text.push('\n');
                            }
                            text.push_str(&err_line);
                            text.push('\n');
                            for l in &after {
                                text.push_str(l);
                                text.push('\n');
                            }
                            let h = mix(idx, 77);
                            if h % 7 == 0 {
                                text = text.replace('\n', "\r\n");
                            }
                            if h % 11 == 0 {
                                text.pop(); // no final line break
                                if text.ends_with('\r') {
                                    text.pop();
                                }
                            }
                            let entry = pick(&[Entry::Str, Entry::Str, Entry::Reader1, Entry::Reader8192], h >> 8);
                            let _ = ci;
                            emit(ctx, &t, "window-cube", text, Target::Untyped, entry, opts_with(r, true));
                        }
                    }
                }
            }
        }
        ctx.subspace("(class, prefix length, suffix length, radius, context shape) cube around the error column", total, true);
    }

    // --- 3. long lines -------------------------------------------------------------------------------
    {
        let kinds = [LongKind::IntSeq, LongKind::AliasSeq, LongKind::PlainValue, LongKind::DupFlowMap, LongKind::Unterminated];
        let totals = [10_000usize, 14_000, 20_000, 4_200, 300];
        let reps = ctx.tier.pick(4u64, 40u64);
        let mut idx = 0u64;
        for (ki, kind) in kinds.iter().enumerate() {
            for &total in &totals {
                // error positions: start, around r, middle, near the end
                let ats = [0usize, 3, 64, 70, 129, 200, total / 2, total - 200, total - 70, total - 10, total];
                for (ai, &at) in ats.iter().enumerate() {
                    for &crop in &RADII {
                        for rep in 0..reps {
                            idx += 1;
                            if !ctx.mine(idx) {
                                continue;
                            }
                            let h = mix(idx, 1000 + rep);
                            let flavour = (h % 8) as usize;
                            let (line, target) = long_line(*kind, total, at.min(total), flavour);
                            let ctx_shape = (h >> 8) % 6;
                            let cf = ((h >> 12) % 8) as usize;
                            let (before, after): (Vec<String>, Vec<String>) = match ctx_shape {
                                0 => (vec![], vec![]),
                                1 => (vec![comment_line(12_000, cf, 1)], vec![comment_line(9_000, cf, 2)]),
                                2 => (vec!["# short".into(), comment_line(5_000, cf, 3)], vec!["# s".into(), comment_line(300, cf, 4)]),
                                3 => (vec![comment_line(100, cf, 5), comment_line(150, cf, 6), comment_line(200, cf, 7)], vec![]),
                                4 => (vec![], vec![comment_line(20_000, cf, 8), "# x".into(), comment_line(50, cf, 9)]),
                                _ => (vec![comment_line(at.min(total) / 2 + 1, cf, 10)], vec![comment_line(at.min(total) + 40, cf, 11)]),
                            };
                            let mut text = String::new();
                            for l in &before {
                                text.push_str(l);
                                text.push('\n');
                            }
                            text.push_str(&line);
                            text.push('\n');
                            for l in &after {
                                text.push_str(l);
                                text.push('\n');
                            }
                            if (h >> 20) % 6 == 0 {
                                text = text.replace('\n', "\r\n");
                            }
                            let entry = pick(&[Entry::Str, Entry::Str, Entry::Str, Entry::Reader1, Entry::Reader8192, Entry::Slice, Entry::Multi], h >> 24);
                            let snippet = (h >> 32) % 9 != 0;
                            let _ = (ki, ai);
                            emit(ctx, &t, "long-lines", text, target, entry, opts_with(crop, snippet));
                        }
                    }
                }
            }
        }
    }

    // --- 4. many lines: reader ring window, first / last line, line numbers >= 10 ------------------------
    {
        let reps = ctx.tier.pick(8u64, 100u64);
        let mut idx = 0u64;
        for &nlines in &[1usize, 2, 3, 5, 9, 12, 100, 400, 1500] {
            for &linelen in &[4usize, 40, 300, 1100] {
                if nlines * linelen > 400_000 {
                    continue;
                }
                for pos in 0..6usize {
                    for rep in 0..reps {
                        idx += 1;
                        if !ctx.mine(idx) {
                            continue;
                        }
                        let h = mix(idx, 2000 + rep);
                        let flavour = (h % 8) as usize;
                        let bad = match pos {
                            0 => 0,
                            1 => nlines - 1,
                            2 => nlines / 2,
                            3 => nlines.saturating_sub(2),
                            4 => (nlines.saturating_sub(1)).min(1),
                            _ => ((h >> 40) % nlines as u64) as usize,
                        };
                        let kind = (h >> 8) % 3;
                        let mut text = String::new();
                        let mut target = Target::Untyped;
                        for i in 0..nlines {
                            let mut filler = String::new();
                            let mut w = i * 50;
                            while filler.chars().count() + 8 < linelen {
                                filler.push_str(&word(w, flavour));
                                filler.push(' ');
                                w += 1;
                            }
                            match kind {
                                0 => {
                                    // mapping with an unknown alias on the bad line
                                    if i == bad {
                                        text.push_str(&format!("k{i}: *zz # {filler}\n"));
                                    } else {
                                        text.push_str(&format!("k{i}: \"{filler}\"\n"));
                                    }
                                }
                                1 => {
                                    target = Target::VecI32;
                                    if i == bad {
                                        text.push_str(&format!("- x{i} # {filler}\n"));
                                    } else {
                                        text.push_str(&format!("- {i} # {filler}\n"));
                                    }
                                }
                                _ => {
                                    // duplicate key: the bad line repeats key 0
                                    if i == bad && i > 0 {
                                        text.push_str(&format!("k0: 1 # {filler}\n"));
                                    } else {
                                        text.push_str(&format!("k{i}: 1 # {filler}\n"));
                                    }
                                }
                            }
                        }
                        if (h >> 16) % 5 == 0 {
                            text = text.replace('\n', "\r\n");
                        }
                        if (h >> 20) % 7 == 0 {
                            text.pop();
                            if text.ends_with('\r') {
                                text.pop();
                            }
                        }
                        let entry = pick(&[Entry::Reader1, Entry::Reader8192, Entry::Reader7, Entry::ReadIter, Entry::Str, Entry::Multi], h >> 24);
                        let crop = pick(&RADII, h >> 32);
                        emit(ctx, &t, "many-lines", text, target, entry, opts_with(crop, true));
                    }
                }
            }
        }
    }

    // --- 5. two-window reports (alias used at another place than the anchor) ---------------------------
    {
        let reps = ctx.tier.pick(4u64, 40u64);
        let mut idx = 0u64;
        for lead in [0usize, 1, 3, 7, 9, 12] {
            for gap in [0usize, 1, 2, 3, 4, 5, 8, 20] {
                for flavour in 0..8usize {
                    for shape in 0..4usize {
                        for rep in 0..reps {
                            idx += 1;
                            if !ctx.mine(idx) {
                                continue;
                            }
                            let h = mix(idx, 3000 + rep);
                            let mut text = String::new();
                            for i in 0..lead {
                                text.push_str(&format!("# lead {i}\n"));
                            }
                            let w = word(idx as usize, flavour);
                            let (target, anchor_line, use_line) = match shape {
                                0 => (Target::Alias, "count: &val 42".to_string(), "flag: *val".to_string()),
                                1 => (Target::Alias, format!("count: &val 42 # {w} {}", comment_line(((h >> 8) % 300) as usize, flavour, 1)), format!("flag: *val # {w}")),
                                2 => (Target::Garde, format!("items: {{\"{w}\": &a {{name: x, n: 5}}}}"), "list: [*a]".to_string()),
                                _ => (Target::Validator, format!("items: {{\"{w}\": &a {{name: x, n: 5}}}}"), "list: [*a]".to_string()),
                            };
                            text.push_str(&anchor_line);
                            text.push('\n');
                            for i in 0..gap {
                                text.push_str(&format!("# gap {i} {}\n", if i % 2 == 0 { w.as_str() } else { "" }));
                            }
                            text.push_str(&use_line);
                            text.push('\n');
                            for i in 0..((h >> 20) % 4) {
                                text.push_str(&format!("# trail {i}\n"));
                            }
                            let entry = pick(&[Entry::Str, Entry::Str, Entry::Reader1, Entry::Reader8192, Entry::Multi], h >> 24);
                            let crop = pick(&[1usize, 5, 64, 64, 1_000_000, usize::MAX, 0], h >> 32);
                            emit(ctx, &t, "two-windows", text, target, entry, opts_with(crop, true));
                        }
                    }
                }
            }
        }
    }
    // --- 5a. two-window reports whose definition site lies at a very large column ------------------
    // (a sub-agent observation: the hand-written "defined here" window padded the marker line with
    // a run-time format width, which panics above u16::MAX)
    {
        let mut idx = 0u64;
        for n in [65_520usize, 65_534, 65_535, 65_536, 70_000, 140_000] {
            for gap in [0usize, 3, 8] {
                for crop in [64usize, 100_000, 1_000_000, usize::MAX] {
                    for entry in [Entry::Str, Entry::Reader8192] {
                        for multibyte in [false, true] {
                            idx += 1;
                            if !ctx.mine(idx) {
                                continue;
                            }
                            let fill: String = if multibyte { "\u{e9}".repeat(n) } else { "a".repeat(n) };
                            // one flow mapping over several lines: unknown field `pad` is ignored,
                            // `count` is defined far to the right, `flag` uses it as a bool
                            let mut text = format!("{{pad: \"{fill}\", count: &val 42,\n");
                            for i in 0..gap {
                                text.push_str(&format!("# gap {i}\n"));
                            }
                            text.push_str("flag: *val}\n");
                            emit(ctx, &t, "two-windows-far-column", text, Target::Alias, entry, opts_with(crop, true));
                        }
                    }
                }
            }
        }
        ctx.subspace("definition site at columns 65520..140000 x gap {0,3,8} x radius {64, 1e5, 1e6, max} x 2 entry points x ASCII / multi-byte fill", idx, true);
    }
    t.flush(ctx);

    // --- 5b. error line that starts with a run of control characters / blanks -------------------------
    // (found by the libFuzzer tier: control characters are shown by a placeholder; when that was
    // a blank, the renderer's trimming of more than 20 leading blanks moved the marker into the gutter)
    {
        let mut idx = 0u64;
        for filler in ['\u{e}', '\u{1}', '\u{7f}', '\u{1b}'] {
            for n in [1usize, 19, 20, 21, 22, 40, 65, 66, 200] {
                for tail in ["", " x", "  ", "\u{0}", ": [", "\nnext: 1\n"] {
                    for target in [Target::I32, Target::MapI32, Target::Strict, Target::Garde] {
                        for (entry, crop) in [(Entry::Str, 64usize), (Entry::Str, 5), (Entry::Reader7, 64), (Entry::Slice, usize::MAX)] {
                            idx += 1;
                            if !ctx.mine(idx) {
                                continue;
                            }
                            let text: String = std::iter::repeat_n(filler, n).chain(tail.chars()).collect();
                            emit(ctx, &t, "control-run-at-line-start", text, target, entry, opts_with(crop, true));
                        }
                    }
                }
            }
        }
        ctx.subspace("4 control characters x 9 run lengths x 6 tails x 4 targets x 4 (entry, radius)", idx, true);
    }
    t.flush(ctx);

    // --- 5c. byte order mark in front of the text (locations do not count it, the text handed to the
    // miette adapter still has it) ------------------------------------------------------------------
    {
        let mut idx = 0u64;
        for body in ["a: 1\nb: xyz\n", "a: x\n", "- 1\n- [2, zz]\n", "k: \u{e9}\u{4e16} v\nb: [1, 2\n", "\n\n  a: {b: q}\n", "zz: 3\na: 1\n"] {
            for target in [Target::MapI32, Target::Strict, Target::VecI32, Target::I32, Target::Enum] {
                for (entry, crop) in [(Entry::Str, 64usize), (Entry::Slice, 5), (Entry::Reader7, 64), (Entry::Reader1, 64), (Entry::Multi, 64)] {
                    idx += 1;
                    if !ctx.mine(idx) {
                        continue;
                    }
                    emit(ctx, &t, "bom-prefixed", format!("\u{feff}{body}"), target, entry, opts_with(crop, true));
                    // (of two leading marks the parser ignores one and counts the other as a
                    // character: the snippet must not drop both)
                    if entry != Entry::Multi {
                        emit(ctx, &t, "bom-prefixed", format!("\u{feff}\u{feff}{body}"), target, entry, opts_with(crop, true));
                    }
                    // (a mark at the start of a later line, beyond what a reader keeps of the
                    // beginning of the stream: the window of recent bytes begins with it)
                    if entry != Entry::Multi {
                        emit(ctx, &t, "bom-prefixed", format!("# {}\n\u{feff}{body}", "c".repeat(4000)), target, entry, opts_with(crop, true));
                    }
                }
            }
        }
        ctx.subspace("6 documents behind a BOM x 5 targets x 5 (entry, radius)", idx, true);
    }
    t.flush(ctx);

    // --- 6. random token documents and mutated seeds ------------------------------------------------
    {
        let targets = vec![
            Target::Strict, Target::Enum, Target::MapI32, Target::VecI32, Target::I32, Target::Bool, Target::Str, Target::Char,
            Target::Wrap, Target::Reflect, Target::Untyped, Target::Untyped, Target::Alias, Target::Garde, Target::Validator,
        ];
        let opt_s = (prop::sample::select(RADII.to_vec()), 0u8..8, any::<bool>(), any::<bool>(), 0u8..3).prop_map(|(crop, sn, ns, angle, dup)| {
            let mut o = opts_with(crop, sn != 0);
            o.no_schema = ns;
            o.angle = angle;
            o.dup = [vcheck::opts::Dup::Error, vcheck::opts::Dup::First, vcheck::opts::Dup::Last][dup as usize];
            o
        });
        let soup = prop::collection::vec(prop::sample::select(TOKENS.to_vec()), 1..40).prop_map(|v| v.concat());
        let strat = (soup, prop::sample::select(targets.clone()), prop::sample::select(ENTRIES.to_vec()), opt_s.clone()).prop_map(
            |(text, target, entry, opts)| {
                let (entry, _) = safe_entry(&text, entry);
                Case { text, target, entry, opts }
            },
        );
        let tally = std::rc::Rc::new(Tally::default());
        ctx.run_strategy("token-soup", 1, ctx.tier.pick(22_000, 400_000), &strat, { let t = tally.clone(); move |c| classify(c, &t) });
        tally.flush(ctx);

        // mutated seeds: a reflecting or structured document with a few token-level edits
        let seeds: Vec<(String, Target)> = {
            let mut v = vec![];
            for q in ["\"\\e[31mX\"", "\"\\x9b\"", "世界", "'\u{7f}'", "plain", "\"a\\tb\""] {
                v.extend(reflect_docs(q));
            }
            v.push(("count: &val 42\nx: 1\ny: 2\nz: 3\nflag: *val\n".into(), Target::Alias));
            v.push(("items:\n  k: &a {name: x, n: 5}\nlist:\n  - *a\n  - {name: abcd, n: 3}\ntitle: t\n".into(), Target::Garde));
            v.push(("items:\n  k: &a {name: x, n: 5}\nlist:\n  - *a\n  - {name: abcd, n: 3}\ntitle: t\n".into(), Target::Validator));
            v.push(("e: {Gamma: {x: 1}}\nm: {a: 1, b: 2}\ns: {a: 1, b: text, c: [1, 2]}\nv: [a, b]\nch: x\nf: 1.5\nt: [1, true]\n".into(), Target::Wrap));
            v
        };
        let nseeds = seeds.len();
        let edit = (0usize..1000, 0u8..4, prop::sample::select(TOKENS.to_vec()));
        let strat = (0..nseeds, prop::collection::vec(edit, 1..5), prop::sample::select(ENTRIES.to_vec()), opt_s.clone(), 0usize..4, any::<bool>()).prop_map(
            move |(si, edits, entry, opts, lead, crlf)| {
                let (doc, target) = &seeds[si];
                let mut chars: Vec<char> = doc.chars().collect();
                for (pos, op, tok) in edits {
                    if chars.is_empty() {
                        break;
                    }
                    let p = pos % chars.len();
                    match op {
                        0 => {
                            chars.remove(p);
                        }
                        1 => {
                            let c = chars[p];
                            chars.insert(p, c);
                        }
                        2 => {
                            for (k, ch) in tok.chars().enumerate() {
                                chars.insert(p + k, ch);
                            }
                        }
                        _ => {
                            let q = (p * 7 + 3) % chars.len();
                            chars.swap(p, q);
                        }
                    }
                }
                let doc: String = chars.into_iter().collect();
                let text = wrap_doc(&doc, lead, lead / 2, crlf, "f");
                let (entry, _) = safe_entry(&text, entry);
                Case { text, target: *target, entry, opts }
            },
        );
        ctx.run_strategy("mutated-seeds", 2, ctx.tier.pick(22_000, 400_000), &strat, { let t = tally.clone(); move |c| classify(c, &t) });
        tally.flush(ctx);

        // random long line: position, length, radius all random (complements the fixed sweep)
        let strat = (0usize..5, 300usize..6000, 0usize..6000, 0usize..8, prop::sample::select(vec![1usize, 2, 5, 17, 64, 100, 1000]), prop::sample::select(vec![Entry::Str, Entry::Str, Entry::Reader1, Entry::Reader8192]), 0usize..3)
            .prop_map(|(k, total, at, flavour, crop, entry, ctxl)| {
                let kind = [LongKind::IntSeq, LongKind::AliasSeq, LongKind::PlainValue, LongKind::DupFlowMap, LongKind::Unterminated][k];
                let (line, target) = long_line(kind, total, at.min(total), flavour);
                let mut text = String::new();
                for i in 0..ctxl {
                    text.push_str(&comment_line(total / (i + 1), flavour, i));
                    text.push('\n');
                }
                text.push_str(&line);
                text.push('\n');
                for i in 0..ctxl {
                    text.push_str(&comment_line(at / (i + 1) + 3, flavour, i + 5));
                    text.push('\n');
                }
                let (entry, _) = safe_entry(&text, entry);
                Case { text, target, entry, opts: opts_with(crop, true) }
            });
        ctx.run_strategy("long-lines-random", 3, ctx.tier.pick(6_000, 100_000), &strat, { let t = tally.clone(); move |c| classify(c, &t) });
        tally.flush(ctx);
    }
    NOTE_TALLY.with(|n| n.flush(ctx));
    let pp = PARSE_PANICS.with(|p| p.get());
    if pp > 0 {
        ctx.class_n("parse itself panicked (not rendered; C01/C19 domain), evaluations incl. classification", pp);
    }
}

fn main() {
    let args: Vec<String> = std::env::args().collect();
    if args.get(1).map(|s| s.as_str()) == Some("show") {
        engine::install_panic_hook();
        show(&args[2]);
        return;
    }
    engine::main::<C17>()
}

/// entry point of the libFuzzer target `fuzz/fuzz_targets/c17.rs`
#[allow(dead_code)]
pub fn fuzz(data: &[u8]) {
    engine::fuzz_one::<C17>(data)
}
