//! C10 – I/O faults and the input-size cap are never swallowed (reader and writer).
//!
//! Fault enumeration: every document of a fixed list x every fault position (byte k and k-th
//! read call) x error kinds x post-fault behaviour x chunking x reader entry point; end of
//! input inside a code point; input caps around the input length (also against an endless
//! reader); writers failing at every call / after every byte.
use proptest::prelude::*;
use serde::de::DeserializeOwned;
use serde::{Deserialize, Serialize};
use std::cell::RefCell;
use std::collections::BTreeMap;
use vcheck::engine::{self, Caught, Ctx, Outcome, Property};
use vcheck::iofault::{
    self, After, FaultAt, FaultyReader, FaultyWriter, Kind, ReadFault, Sched, WFaultAt, WMode, WriteFault,
};
use vcheck::opts::SerOpts;
use vcheck::untyped::U;

/// Fixed buffering allowance of the cap claim: 8 KiB `BufReader` + decoder buffer / ring
/// read-ahead + slack.
const ALLOWANCE: usize = 16 * 1024;

// ------------------------------------------------------------------------------------------
// case description

#[derive(Clone, Copy, Debug, Serialize, Deserialize, PartialEq, Eq, Hash)]
enum Entry {
    FromReader,
    WithDeserializer,
    ReadIter,
    /// the garde / validator twins (separate copies of the code; target `Rec` only)
    FromReaderValid,
    ReadValid,
    FromReaderValidate,
    ReadValidate,
}
const ENTRIES: [Entry; 3] = [Entry::FromReader, Entry::WithDeserializer, Entry::ReadIter];
const TWINS: [Entry; 4] = [Entry::FromReaderValid, Entry::ReadValid, Entry::FromReaderValidate, Entry::ReadValidate];
impl Entry {
    fn is_iter(self) -> bool {
        matches!(self, Entry::ReadIter | Entry::ReadValid | Entry::ReadValidate)
    }
    fn is_twin(self) -> bool {
        TWINS.contains(&self)
    }
    fn for_target(t: Target) -> Vec<Entry> {
        let mut v = ENTRIES.to_vec();
        if t == Target::Rec {
            v.extend(TWINS);
        }
        v
    }
}

#[derive(Clone, Copy, Debug, Serialize, Deserialize, PartialEq, Eq, Hash)]
enum Target {
    /// the harness' untyped tree
    U,
    /// struct { a: i64, b: Option<i64> (default) }
    Rec,
    VecI,
    Str,
    MapSS,
}

#[derive(Clone, Debug, Serialize, Deserialize)]
enum Case {
    /// the reader fails
    Read { doc: String, target: Target, entry: Entry, sched: Sched, fault: ReadFault },
    /// the reader ends cleanly after `cut` bytes, `cut` lying inside a multi-byte character
    MidChar { doc: String, cut: usize, target: Target, entry: Entry, sched: Sched },
    /// `max_reader_input_bytes = cap`
    Cap { doc: String, cap: usize, target: Target, entry: Entry, sched: Sched },
    /// cap against a reader that never ends: `head` followed by `unit` forever
    Endless { head: String, unit: String, cap: usize, entry: Entry, sched: Sched },
    /// the writer fails
    Write { val: V, opts: SerOpts, with_options: bool, short: usize, fault: WriteFault },
}

#[derive(Debug, Deserialize, PartialEq, garde::Validate, validator::Validate)]
#[garde(allow_unvalidated)]
#[allow(dead_code)]
struct Rec {
    a: i64,
    #[serde(default)]
    b: Option<i64>,
}

// ------------------------------------------------------------------------------------------
// values for the writer side: a description that is JSON-able plus an emitter that drives the
// serializer through every kind of serde call

#[derive(Clone, Debug, Serialize, Deserialize, PartialEq)]
enum V {
    Null,
    Bool(bool),
    Int(i64),
    F64(u64),
    Str(String),
    Bytes(Vec<u8>),
    Seq(Vec<V>),
    Map(Vec<(V, V)>),
    Tuple(Vec<V>),
    Some(Box<V>),
    None,
    UnitVariant,
    Newtype(Box<V>),
    TupleVariant(Vec<V>),
    StructVariant(Vec<V>),
    Struct(Vec<V>),
    NewtypeStruct(Box<V>),
    FlowSeq(Vec<V>),
    FlowMap(Vec<(V, V)>),
    Lit(String),
    Fold(String),
    Commented(Box<V>, String),
    SpaceAfter(Box<V>),
    /// the same Rc emitted twice: `&a1 x` and `*a1`
    Shared(Box<V>),
}
const FIELDS: [&str; 8] = ["f0", "f1", "f2", "f3", "f4", "f5", "f6", "f7"];

struct E<'a>(&'a V);
struct ESeq<'a>(&'a [V]);
struct EMap<'a>(&'a [(V, V)]);
impl Serialize for ESeq<'_> {
    fn serialize<S: serde::Serializer>(&self, s: S) -> Result<S::Ok, S::Error> {
        use serde::ser::SerializeSeq;
        let mut q = s.serialize_seq(Some(self.0.len()))?;
        for x in self.0 {
            q.serialize_element(&E(x))?;
        }
        q.end()
    }
}
impl Serialize for EMap<'_> {
    fn serialize<S: serde::Serializer>(&self, s: S) -> Result<S::Ok, S::Error> {
        use serde::ser::SerializeMap;
        let mut m = s.serialize_map(Some(self.0.len()))?;
        for (k, v) in self.0 {
            m.serialize_entry(&E(k), &E(v))?;
        }
        m.end()
    }
}
impl Serialize for E<'_> {
    fn serialize<S: serde::Serializer>(&self, s: S) -> Result<S::Ok, S::Error> {
        use serde::ser::{SerializeStruct, SerializeStructVariant, SerializeTuple, SerializeTupleVariant};
        match self.0 {
            V::Null => s.serialize_unit(),
            V::Bool(b) => s.serialize_bool(*b),
            V::Int(i) => s.serialize_i64(*i),
            V::F64(b) => s.serialize_f64(f64::from_bits(*b)),
            V::Str(x) => s.serialize_str(x),
            V::Bytes(b) => s.serialize_bytes(b),
            V::Seq(v) => ESeq(v).serialize(s),
            V::Map(m) => EMap(m).serialize(s),
            V::Tuple(v) => {
                let mut t = s.serialize_tuple(v.len())?;
                for x in v {
                    t.serialize_element(&E(x))?;
                }
                t.end()
            }
            V::Some(x) => s.serialize_some(&E(x)),
            V::None => s.serialize_none(),
            V::UnitVariant => s.serialize_unit_variant("En", 0, "Unit"),
            V::Newtype(x) => s.serialize_newtype_variant("En", 1, "Nt", &E(x)),
            V::TupleVariant(v) => {
                let mut t = s.serialize_tuple_variant("En", 2, "Tv", v.len())?;
                for x in v {
                    t.serialize_field(&E(x))?;
                }
                t.end()
            }
            V::StructVariant(v) => {
                let mut t = s.serialize_struct_variant("En", 3, "Sv", v.len())?;
                for (i, x) in v.iter().enumerate() {
                    t.serialize_field(FIELDS[i % 8], &E(x))?;
                }
                t.end()
            }
            V::Struct(v) => {
                let mut t = s.serialize_struct("St", v.len())?;
                for (i, x) in v.iter().enumerate() {
                    t.serialize_field(FIELDS[i % 8], &E(x))?;
                }
                t.end()
            }
            V::NewtypeStruct(x) => s.serialize_newtype_struct("Ns", &E(x)),
            V::FlowSeq(v) => serde_saphyr::FlowSeq(ESeq(v)).serialize(s),
            V::FlowMap(m) => serde_saphyr::FlowMap(EMap(m)).serialize(s),
            V::Lit(x) => serde_saphyr::LitStr(x).serialize(s),
            V::Fold(x) => serde_saphyr::FoldStr(x).serialize(s),
            V::Commented(x, c) => serde_saphyr::Commented(E(x), c.clone()).serialize(s),
            V::SpaceAfter(x) => serde_saphyr::SpaceAfter(E(x)).serialize(s),
            V::Shared(x) => {
                let rc = std::rc::Rc::new(E(x));
                let pair = (serde_saphyr::RcAnchor(rc.clone()), serde_saphyr::RcAnchor(rc));
                pair.serialize(s)
            }
        }
    }
}

// ------------------------------------------------------------------------------------------
// running the entry points

#[derive(Clone, Debug, PartialEq)]
struct ErrSum {
    variant: String,
    io_kind: Option<std::io::ErrorKind>,
}
fn sum_err(e: &serde_saphyr::Error) -> ErrSum {
    let inner = e.without_snippet();
    let dbg = format!("{:?}", inner);
    let variant: String = dbg.chars().take_while(|c| c.is_ascii_alphanumeric()).collect();
    let io_kind = match inner {
        serde_saphyr::Error::IOError { cause } => Some(cause.kind()),
        _ => None,
    };
    ErrSum { variant, io_kind }
}

type Item = Result<String, ErrSum>;

#[derive(Clone, Debug, PartialEq)]
enum Res {
    One(Item),
    /// items of the iterator; `runaway`: it was still yielding after more items than the input has bytes
    Many { items: Vec<Item>, runaway: bool },
    /// the instrumented reader was polled > 10 000 times after it ended
    Spin,
    /// panic inside the library
    Panic(String),
}

#[derive(Clone, Copy, Debug, Default)]
struct Stats {
    calls: usize,
    handed: usize,
    fault_hits: usize,
    overrun: bool,
    split_inside_char: bool,
}

fn item<T: std::fmt::Debug>(r: Result<T, serde_saphyr::Error>) -> Item {
    match r {
        Ok(v) => Ok(format!("{:?}", v)),
        Err(e) => Err(sum_err(&e)),
    }
}

fn cap_options(cap: Option<usize>) -> serde_saphyr::Options {
    // the same defaults as `read` / `from_reader`, with the cap replaced
    let mut b = vcheck::opts::BudgetD::default_budget();
    b.max_reader_input_bytes = cap;
    let mut o = vcheck::opts::DeOpts::default();
    o.budget = vcheck::opts::BudgetSel::Explicit(b);
    o.build()
}

/// `cap`: None = the plain entry point (`from_reader`, `with_deserializer_from_reader`,
/// `read`); Some(c) = the `_with_options` twin with `max_reader_input_bytes = c`.
fn collect<T: std::fmt::Debug>(it: &mut dyn Iterator<Item = Result<T, serde_saphyr::Error>>, max_items: usize) -> Res {
    let mut items = vec![];
    let mut runaway = false;
    while let Some(x) = it.next() {
        items.push(item(x));
        if items.len() > max_items {
            runaway = true;
            break;
        }
    }
    Res::Many { items, runaway }
}

/// the validating twins exist for `Rec` only
fn run_twin(entry: Entry, rd: &mut FaultyReader, cap: Option<Option<usize>>, max_items: usize) -> Res {
    match (entry, cap) {
        (Entry::FromReaderValid, None) => Res::One(item(serde_saphyr::from_reader_valid::<_, Rec>(&mut *rd))),
        (Entry::FromReaderValid, Some(c)) => Res::One(item(serde_saphyr::from_reader_with_options_valid::<_, Rec>(&mut *rd, cap_options(c)))),
        (Entry::FromReaderValidate, None) => Res::One(item(serde_saphyr::from_reader_validate::<_, Rec>(&mut *rd))),
        (Entry::FromReaderValidate, Some(c)) => Res::One(item(serde_saphyr::from_reader_with_options_validate::<_, Rec>(&mut *rd, cap_options(c)))),
        (Entry::ReadValid, None) => collect(&mut serde_saphyr::read_valid::<_, Rec>(rd), max_items),
        (Entry::ReadValid, Some(c)) => collect(&mut serde_saphyr::read_with_options_valid::<_, Rec>(rd, cap_options(c)), max_items),
        (Entry::ReadValidate, None) => collect(&mut serde_saphyr::read_validate::<_, Rec>(rd), max_items),
        (Entry::ReadValidate, Some(c)) => collect(&mut serde_saphyr::read_with_options_validate::<_, Rec>(rd, cap_options(c)), max_items),
        _ => unreachable!(),
    }
}

fn run_typed<T: DeserializeOwned + std::fmt::Debug>(
    entry: Entry,
    rd: &mut FaultyReader,
    cap: Option<Option<usize>>,
    max_items: usize,
    twin_hook: fn(Entry, &mut FaultyReader, Option<Option<usize>>, usize) -> Res,
) -> Res {
    let r = engine::catch(|| match entry {
        Entry::FromReader => Res::One(item(match cap {
            None => serde_saphyr::from_reader::<_, T>(&mut *rd),
            Some(c) => serde_saphyr::from_reader_with_options::<_, T>(&mut *rd, cap_options(c)),
        })),
        Entry::WithDeserializer => Res::One(item(match cap {
            None => serde_saphyr::with_deserializer_from_reader(&mut *rd, |de| T::deserialize(de)),
            Some(c) => serde_saphyr::with_deserializer_from_reader_with_options(&mut *rd, cap_options(c), |de| T::deserialize(de)),
        })),
        Entry::ReadIter => {
            let mut items = vec![];
            let mut runaway = false;
            let mut it: Box<dyn Iterator<Item = Result<T, serde_saphyr::Error>>> = match cap {
                None => serde_saphyr::read::<_, T>(rd),
                Some(c) => Box::new(serde_saphyr::read_with_options::<_, T>(rd, cap_options(c))),
            };
            while let Some(x) = it.next() {
                items.push(item(x));
                if items.len() > max_items {
                    runaway = true;
                    break;
                }
            }
            Res::Many { items, runaway }
        }
        twin => twin_hook(twin, rd, cap, max_items),
    });
    match r {
        Caught::Ok(r) => r,
        Caught::Panic(m, l) => {
            if m.starts_with(iofault::SENTINEL) {
                Res::Spin
            } else if engine::panic_in_library(&l) {
                Res::Panic(format!("panic at {l}: {m}"))
            } else {
                panic!("harness panic at {l}: {m}")
            }
        }
    }
}

fn run(target: Target, entry: Entry, rd: &mut FaultyReader, cap: Option<Option<usize>>, max_items: usize) -> (Res, Stats) {
    fn no_twin(_: Entry, _: &mut FaultyReader, _: Option<Option<usize>>, _: usize) -> Res {
        panic!("validating twins are only run with target Rec")
    }
    let res = match target {
        Target::U => run_typed::<U>(entry, rd, cap, max_items, no_twin),
        Target::Rec => run_typed::<Rec>(entry, rd, cap, max_items, run_twin),
        Target::VecI => run_typed::<Vec<i64>>(entry, rd, cap, max_items, no_twin),
        Target::Str => run_typed::<String>(entry, rd, cap, max_items, no_twin),
        Target::MapSS => run_typed::<BTreeMap<String, String>>(entry, rd, cap, max_items, no_twin),
    };
    let st = Stats {
        calls: rd.calls,
        handed: rd.handed,
        fault_hits: rd.fault_hits,
        overrun: rd.overrun,
        split_inside_char: rd.split_inside_char,
    };
    (res, st)
}

/// Fault-free run over exactly these bytes.
fn clean(bytes: &[u8], target: Target, entry: Entry, sched: &Sched) -> (Res, Stats, Vec<usize>) {
    let mut rd = FaultyReader::new(bytes, sched);
    let (r, st) = run(target, entry, &mut rd, None, bytes.len() + 8);
    (r, st, std::mem::take(&mut rd.pos_at_call))
}

fn oks(items: &[Item]) -> Vec<&String> {
    items.iter().filter_map(|i| i.as_ref().ok()).collect()
}

/// Is `r` a success (single value / only Ok items)?  Used for "the truncated prefix is itself
/// a complete document".
fn is_success(r: &Res) -> bool {
    match r {
        Res::One(Ok(_)) => true,
        Res::Many { items, runaway } => !runaway && items.iter().all(|i| i.is_ok()),
        _ => false,
    }
}

/// The oracle for "the input was cut short / failed and the library noticed": single document
/// entry points must return Err (any variant); the iterator's Ok items must be a prefix of
/// the fault-free Ok items and it must yield an Err.
fn must_report(r: &Res, f: &Res, what: &str) -> Result<(), String> {
    match (r, f) {
        (Res::Spin, _) => Err(format!("{what}: the reader was polled more than 10000 times after it ended (spins at end of input)")),
        (Res::Panic(m), _) => Err(format!("{what}: {m}")),
        (Res::One(Err(_)), _) => Ok(()),
        (Res::One(Ok(v)), _) => Err(format!("{what}, but the call returned Ok({v}) [fault-free result: {}]", show(f))),
        (Res::Many { items, runaway }, Res::Many { items: fi, .. }) => {
            if *runaway {
                return Err(format!("{what}: the iterator does not end: {}", show(r)));
            }
            if !items.iter().any(|i| i.is_err()) {
                return Err(format!("{what}, but the iterator yielded no Err: {} [fault-free: {}]", show(r), show(f)));
            }
            // an error item that the intact input produces as well (a document that fails at the
            // type level) is not a report of the fault: a result that is a proper prefix of the
            // fault-free items has silently lost the documents behind it
            if items.len() < fi.len() && items.iter().zip(fi).all(|(a, b)| a == b) {
                return Err(format!("{what}, but the iterator ended early without an Err for it: {} [fault-free: {}]", show(r), show(f)));
            }
            let (a, b) = (oks(items), oks(fi));
            if a.len() > b.len() || a.iter().zip(&b).any(|(x, y)| x != y) {
                return Err(format!(
                    "{what}: the iterator yielded a value that the intact input does not contain: {} [fault-free: {}]",
                    show(r),
                    show(f)
                ));
            }
            Ok(())
        }
        _ => Err(format!("internal: result kinds differ: {r:?} vs {f:?}")),
    }
}

fn show(r: &Res) -> String {
    fn it(i: &Item) -> String {
        match i {
            Ok(v) => format!("Ok({v})"),
            Err(e) => match e.io_kind {
                Some(k) => format!("Err({}:{:?})", e.variant, k),
                None => format!("Err({})", e.variant),
            },
        }
    }
    match r {
        Res::One(i) => it(i),
        Res::Many { items, runaway } => {
            let v: Vec<String> = items.iter().take(6).map(it).collect();
            format!("[{}{}]{}", v.join(", "), if items.len() > 6 { ", ..." } else { "" }, if *runaway { " (still yielding)" } else { "" })
        }
        Res::Spin => "<reader polled >10000 times after its end>".into(),
        Res::Panic(m) => format!("<{m}>"),
    }
}

// ------------------------------------------------------------------------------------------
// side channel from `check` to `generate` for evidence bookkeeping (never influences verdicts)

#[derive(Clone, Copy, Default, Debug)]
struct Info {
    fault_invoked: bool,
    overshoot: i64,
    split_inside_char: bool,
}
thread_local! {
    static INFO: RefCell<Info> = const { RefCell::new(Info { fault_invoked: false, overshoot: 0, split_inside_char: false }) };
}
fn set_info(i: Info) {
    INFO.with(|c| *c.borrow_mut() = i);
}
fn get_info() -> Info {
    INFO.with(|c| *c.borrow())
}

// ------------------------------------------------------------------------------------------
// the checks

/// Bytes the faulting reader delivers before the fault (None: the fault is not reachable).
fn delivered_prefix_len(doc: &str, fault: &ReadFault, pos_at_call: &[usize], calls: usize) -> Option<usize> {
    match fault.at {
        FaultAt::Byte(k) => (k <= doc.len()).then_some(k),
        FaultAt::Call(n) => {
            if n < calls {
                pos_at_call.get(n).copied()
            } else {
                None
            }
        }
    }
}

fn check_read(doc: &str, target: Target, entry: Entry, sched: &Sched, fault: &ReadFault) -> Outcome {
    let bytes = doc.as_bytes();
    if iofault::percent_tail(bytes) {
        return Outcome::Discard("reader_percent_eof (open C01 finding): not fed to a reader");
    }
    let (f, fst, pos_at_call) = clean(bytes, target, entry, sched);
    if matches!(f, Res::Spin | Res::Panic(_)) {
        return Outcome::Fail(format!("fault-free run: {}", show(&f)));
    }
    // which prefix will the library have seen when the fault strikes?  (the run is deterministic
    // up to the fault, so the fault-free run tells)
    let plen = delivered_prefix_len(doc, fault, &pos_at_call, fst.calls);
    if let Some(p) = plen {
        if iofault::percent_tail(&bytes[..p]) {
            return Outcome::Discard("reader_percent_eof (open C01 finding): not fed to a reader");
        }
    }
    let mut rd = FaultyReader::new(bytes, sched).with_fault(*fault);
    let (r, st) = run(target, entry, &mut rd, None, bytes.len() + 8);
    set_info(Info { fault_invoked: st.fault_hits > 0, split_inside_char: st.split_inside_char, ..Info::default() });
    if st.fault_hits == 0 {
        // the faulting read was never invoked: nothing may change
        if r != f {
            return Outcome::Fail(format!(
                "the faulting read was never invoked, yet the result differs: {} vs fault-free {}",
                show(&r),
                show(&f)
            ));
        }
        return Outcome::Pass;
    }
    let what = format!(
        "the reader failed with {:?} after delivering {} of {} bytes",
        fault.kind,
        plen.map(|p| p.to_string()).unwrap_or("?".into()),
        bytes.len()
    );
    match must_report(&r, &f, &what) {
        Ok(()) => Outcome::Pass,
        Err(m) => Outcome::Fail(m),
    }
}

fn check_midchar(doc: &str, cut: usize, target: Target, entry: Entry, sched: &Sched) -> Outcome {
    let bytes = doc.as_bytes();
    if cut == 0 || cut >= bytes.len() || doc.is_char_boundary(cut) {
        return Outcome::Discard("cut is not inside a character");
    }
    let mut b = cut;
    while !doc.is_char_boundary(b) {
        b -= 1;
    }
    if iofault::percent_tail(bytes) || iofault::percent_tail(&bytes[..b]) {
        return Outcome::Discard("reader_percent_eof (open C01 finding): not fed to a reader");
    }
    let (f, _, _) = clean(bytes, target, entry, sched);
    let (r, _, _) = clean(&bytes[..cut], target, entry, sched);
    set_info(Info { fault_invoked: true, ..Info::default() });
    let what = format!("the input ended after {cut} bytes, inside a {}-byte character", doc[b..].chars().next().map(|c| c.len_utf8()).unwrap_or(0));
    match must_report(&r, &f, &what) {
        Ok(()) => Outcome::Pass,
        Err(m) => Outcome::Fail(m),
    }
}

/// The cap counts decoded bytes; a leading BOM is removed by the decoder before counting, so
/// for such documents the three values below the length are not decided by the documentation.
fn counted_len(doc: &str) -> usize {
    doc.strip_prefix('\u{FEFF}').unwrap_or(doc).len()
}

fn check_cap(doc: &str, cap: usize, target: Target, entry: Entry, sched: &Sched) -> Outcome {
    let bytes = doc.as_bytes();
    if iofault::percent_tail(bytes) {
        return Outcome::Discard("reader_percent_eof (open C01 finding): not fed to a reader");
    }
    if cap < bytes.len() {
        // the parser sees a char-aligned prefix of at most `cap` counted bytes
        let skip = bytes.len() - counted_len(doc);
        let mut p = (cap + skip).min(bytes.len());
        while !doc.is_char_boundary(p) {
            p -= 1;
        }
        if iofault::percent_tail(&bytes[..p]) {
            return Outcome::Discard("reader_percent_eof (open C01 finding): not fed to a reader");
        }
    }
    let max_items = bytes.len() + 8;
    let mut rd0 = FaultyReader::new(bytes, sched);
    let (f, _) = run(target, entry, &mut rd0, Some(None), max_items);
    let mut rd = FaultyReader::new(bytes, sched);
    let (r, st) = run(target, entry, &mut rd, Some(Some(cap)), max_items);
    let overshoot = st.handed as i64 - cap as i64;
    set_info(Info { fault_invoked: cap < counted_len(doc), overshoot, ..Info::default() });
    if matches!(r, Res::Spin | Res::Panic(_)) {
        return Outcome::Fail(format!("cap {cap} on {} bytes: {}", bytes.len(), show(&r)));
    }
    if st.handed > cap + ALLOWANCE {
        return Outcome::Fail(format!("cap {cap}: {} bytes were pulled from the reader (allowance {ALLOWANCE})", st.handed));
    }
    if cap >= bytes.len() {
        // documented: "Hard cap on the size of the input in bytes" – inputs within it are unaffected
        if r != f {
            return Outcome::Fail(format!("cap {cap} >= input length {}: result {} differs from the uncapped result {}", bytes.len(), show(&r), show(&f)));
        }
        return Outcome::Pass;
    }
    if cap < counted_len(doc) {
        let what = format!("input of {} bytes exceeds the cap of {cap}", bytes.len());
        return match must_report(&r, &f, &what) {
            Ok(()) => Outcome::Pass,
            Err(m) => Outcome::Fail(m),
        };
    }
    // BOM window: either the uncapped result or a report
    if r == f || must_report(&r, &f, "").is_ok() {
        Outcome::Pass
    } else {
        Outcome::Fail(format!("cap {cap} (BOM window): result {} is neither the uncapped result {} nor an error", show(&r), show(&f)))
    }
}

fn check_endless(head: &str, unit: &str, cap: usize, entry: Entry, sched: &Sched) -> Outcome {
    if unit.is_empty() || unit.contains('%') || head.contains('%') {
        return Outcome::Discard("endless unit must be non-empty and free of '%'");
    }
    if cap > 8 << 20 {
        return Outcome::Discard("cap too large for the endless reader");
    }
    let hard = cap + ALLOWANCE + (64 << 10);
    let mut rd = FaultyReader::new(head.as_bytes(), sched).endless(unit.as_bytes(), hard);
    let (r, st) = run(Target::U, entry, &mut rd, Some(Some(cap)), cap / unit.len().max(1) + cap + 64);
    set_info(Info { fault_invoked: true, overshoot: st.handed as i64 - cap as i64, ..Info::default() });
    if st.overrun || st.handed > cap + ALLOWANCE {
        return Outcome::Fail(format!(
            "endless reader, cap {cap}: {} bytes were pulled (allowance {ALLOWANCE}){}; result {}",
            st.handed,
            if st.overrun { ", the harness had to end the stream" } else { "" },
            show(&r)
        ));
    }
    let ok = match &r {
        Res::One(Err(_)) => true,
        Res::Many { items, runaway } => !runaway && items.iter().any(|i| i.is_err()),
        _ => false,
    };
    if !ok {
        return Outcome::Fail(format!("endless reader, cap {cap}: no error reported: {}", show(&r)));
    }
    Outcome::Pass
}

fn write_with(val: &V, opts: &SerOpts, with_options: bool, w: &mut FaultyWriter) -> Result<Result<(), serde_saphyr::ser_error::Error>, String> {
    let r = engine::catch(|| {
        if with_options {
            serde_saphyr::to_io_writer_with_options(w, &E(val), opts.build())
        } else {
            serde_saphyr::to_io_writer(w, &E(val))
        }
    });
    match r {
        Caught::Ok(r) => Ok(r),
        Caught::Panic(m, l) => {
            if m.starts_with(iofault::SENTINEL) {
                Err("the writer was called more than 10000 times after it failed".into())
            } else if engine::panic_in_library(&l) {
                Err(format!("panic at {l}: {m}"))
            } else {
                panic!("harness panic at {l}: {m}")
            }
        }
    }
}

fn check_write(val: &V, opts: &SerOpts, with_options: bool, short: usize, fault: &WriteFault) -> Outcome {
    // fault-free output through the same entry point
    let mut w0 = FaultyWriter::new(0, None);
    let full = match write_with(val, opts, with_options, &mut w0) {
        Ok(Ok(())) => w0.accepted.clone(),
        Ok(Err(_)) => return Outcome::Discard("value not serializable under these options"),
        Err(m) => return Outcome::Fail(format!("fault-free serialization: {m}")),
    };
    // short writes alone must not change anything
    let mut w1 = FaultyWriter::new(short, None);
    match write_with(val, opts, with_options, &mut w1) {
        Ok(Ok(())) if w1.accepted == full => {}
        other => return Outcome::Fail(format!("short writes ({short} bytes per call) change the outcome: {:?}, {} bytes", other.map(|r| r.is_ok()), w1.accepted.len())),
    }
    let mut w = FaultyWriter::new(short, Some(*fault));
    let r = match write_with(val, opts, with_options, &mut w) {
        Ok(r) => r,
        Err(m) => return Outcome::Fail(m),
    };
    set_info(Info { fault_invoked: w.fault_hits > 0, ..Info::default() });
    if !full.starts_with(&w.accepted) {
        return Outcome::Fail(format!(
            "bytes accepted by the writer are not a prefix of the fault-free output: {:?} vs {:?}",
            String::from_utf8_lossy(&w.accepted),
            String::from_utf8_lossy(&full)
        ));
    }
    if w.fault_hits == 0 {
        return match r {
            Ok(()) if w.accepted == full => Outcome::Pass,
            Ok(()) => Outcome::Fail("fault never reached but the output differs".into()),
            Err(e) => Outcome::Fail(format!("fault never reached but serialization failed: {e}")),
        };
    }
    match r {
        Ok(()) => Outcome::Fail(format!(
            "the writer failed ({:?}) after accepting {} of {} bytes, but serialization returned Ok",
            fault.mode,
            w.accepted.len(),
            full.len()
        )),
        Err(serde_saphyr::ser_error::Error::IO { error }) => {
            if error.kind() == fault.expected_kind() {
                Outcome::Pass
            } else {
                Outcome::Fail(format!("I/O error kind {:?} returned instead of the writer's {:?}", error.kind(), fault.expected_kind()))
            }
        }
        Err(other) => Outcome::Fail(format!(
            "the writer failed ({:?}) but serialization returned a non-I/O error: {:?}",
            fault.mode, other
        )),
    }
}

// ------------------------------------------------------------------------------------------
// known-finding signatures (predicates over the case; lexical, the library is not consulted)

#[derive(Clone, Copy, PartialEq, Debug)]
enum Opener {
    /// beginning of the stream
    Start,
    /// `---`
    Dashes,
    /// `...`
    Dots,
}
/// Lexical split of a (truncated) stream at `---` / `...` marker lines: (opener, text).
fn pieces(prefix: &str) -> Vec<(Opener, String)> {
    let mut out = vec![(Opener::Start, String::new())];
    for line in prefix.split_inclusive('\n') {
        let l = line.trim_end_matches(['\n', '\r']);
        let (marker, rest) = if l == "---" {
            (Some(Opener::Dashes), "")
        } else if l == "..." {
            (Some(Opener::Dots), "")
        } else if let Some(r) = l.strip_prefix("--- ") {
            (Some(Opener::Dashes), r)
        } else if let Some(r) = l.strip_prefix("... ") {
            (Some(Opener::Dots), r)
        } else {
            (None, "")
        };
        match marker {
            Some(m) => {
                let mut t = rest.to_string();
                if !t.is_empty() {
                    t.push('\n');
                }
                out.push((m, t));
            }
            None => out.last_mut().unwrap().1.push_str(line),
        }
    }
    out
}
/// The documents a parser finds in the pieces: text after `---` is always a document (possibly
/// empty = null); text at the start of the stream or after `...` is one only if it has content
/// (an entirely empty stream counts as one empty document: the library synthesises a null).
fn documents_of(prefix: &str) -> Vec<String> {
    let ps = pieces(prefix);
    let mut v: Vec<String> = ps
        .into_iter()
        .filter(|(o, t)| *o == Opener::Dashes || !strip_comments(t.strip_prefix('\u{FEFF}').unwrap_or(t)).is_empty())
        .map(|(_, t)| t)
        .collect();
    if v.is_empty() {
        // a stream without any content: the library synthesises one null document
        v.push(String::new());
    }
    v
}
/// Text of the last document of a (truncated) stream.
fn last_document(prefix: &str) -> String {
    documents_of(prefix).pop().unwrap_or_default()
}
fn strip_comments(doc: &str) -> String {
    let mut out = String::new();
    for line in doc.lines() {
        let l = line.trim();
        let l = if l.starts_with('#') {
            ""
        } else if let Some(i) = l.find(" #") {
            l[..i].trim()
        } else {
            l
        };
        if !l.is_empty() {
            if !out.is_empty() {
                out.push(' ');
            }
            out.push_str(l);
        }
    }
    out
}
fn nullish_text(doc: &str) -> bool {
    let t = strip_comments(doc.strip_prefix('\u{FEFF}').unwrap_or(doc));
    matches!(t.as_str(), "" | "~" | "null" | "Null" | "NULL")
}
/// Number of documents with content (not null-like) in the text.
fn content_documents(prefix: &str) -> usize {
    documents_of(prefix).iter().filter(|d| !nullish_text(d)).count()
}

struct C10;

/// Texts the parser may have received when the error / cap breach / early end strikes, for the
/// iterator entry point (empty list: no such event in this case).
fn seen_prefixes(c: &Case) -> Vec<String> {
    fn aligned(doc: &str, mut k: usize) -> &str {
        k = k.min(doc.len());
        while !doc.is_char_boundary(k) {
            k -= 1;
        }
        &doc[..k]
    }
    match c {
        Case::Read { doc, fault, .. } => match fault.at {
            FaultAt::Byte(k) => {
                let mut v = vec![aligned(doc, k).to_string()];
                if k < 3 {
                    // an error during the decoder's 3-byte BOM probe loses the probed bytes
                    v.push(String::new());
                }
                v
            }
            // the position of a call-indexed fault depends on the library's buffer sizes: take
            // it from the fault-free run of the same entry point (deterministic up to the fault)
            FaultAt::Call(_) => {
                let Case::Read { target, entry, sched, .. } = c else { unreachable!() };
                if iofault::percent_tail(doc.as_bytes()) {
                    return vec![];
                }
                let (_, st, pos) = clean(doc.as_bytes(), *target, *entry, sched);
                match delivered_prefix_len(doc, fault, &pos, st.calls) {
                    Some(k) => {
                        let mut v = vec![aligned(doc, k).to_string()];
                        if k < 3 {
                            v.push(String::new());
                        }
                        v
                    }
                    None => vec![],
                }
            }
        },
        Case::MidChar { doc, cut, .. } => vec![aligned(doc, *cut).to_string()],
        Case::Cap { doc, cap, .. } => {
            let body = doc.strip_prefix('\u{FEFF}').unwrap_or(doc);
            if *cap < body.len() { vec![aligned(body, *cap).to_string()] } else { vec![] }
        }
        Case::Endless { head, unit, cap, .. } => {
            let mut t = head.strip_prefix('\u{FEFF}').unwrap_or(head).to_string();
            while t.len() <= *cap && !unit.is_empty() {
                t.push_str(unit);
            }
            vec![aligned(&t, *cap).to_string()]
        }
        Case::Write { .. } => vec![],
    }
}

fn case_signatures(c: &Case) -> Vec<&'static str> {
    let mut v = vec![];
    let entry = match c {
        Case::Read { entry, .. } | Case::MidChar { entry, .. } | Case::Cap { entry, .. } | Case::Endless { entry, .. } => *entry,
        Case::Write { .. } => return v,
    };
    if let Case::Read { fault, .. } = c {
        // (i) ChunkedChars reads the first byte of a character with read_exact and takes
        // UnexpectedEof for the end of input
        if fault.kind == Kind::UnexpectedEof {
            v.push("reader_unexpected_eof_kind");
        }
    }
    if let Case::MidChar { doc, .. } = c {
        // (iv) behind a BOM the decoder transcodes lossily: a character cut short by the end of
        // input becomes U+FFFD instead of an error
        if doc.starts_with('\u{FEFF}') {
            v.push("bom_truncated_char_replaced");
        }
    }
    if entry.is_iter() {
        let prefixes = seen_prefixes(c);
        // (ii) the error is already pending while the iterator skips a null-like / empty
        // document.  The scanner runs several tokens (even documents) ahead of the iterator, so
        // the distance between the null document and the fault is not bounded in bytes: any
        // null-like document in what was delivered puts the case into this finding's domain.
        if prefixes.iter().any(|p| documents_of(p).iter().any(|d| nullish_text(d))) {
            v.push("iter_error_while_skipping_null");
        }
        // (iii) the iterator resynchronises after an I/O error raised inside a document and
        // yields a later one: needs two documents with content in what was delivered
        if prefixes.iter().any(|p| content_documents(p) >= 2) {
            v.push("iter_resync_after_io_error");
        }
    }
    v
}

// ------------------------------------------------------------------------------------------
// domain

fn documents() -> Vec<(String, Vec<Target>)> {
    use Target::*;
    let mut d: Vec<(String, Vec<Target>)> = vec![];
    let mut add = |s: &str, t: &[Target]| d.push((s.to_string(), t.to_vec()));
    // mappings whose prefixes are complete documents
    add("a: 1\nb: 2\n", &[U, Rec]);
    add("a: 1\nb: 2", &[U, Rec]);
    add("a: 1\n\nb: 2\n\n", &[U, Rec]);
    add("a: 1 # one\nb: 2 # two\n", &[U, Rec]);
    add("# head\na: 1\n# tail\n", &[U, Rec]);
    add("a: 10\nb: 20\nc: 30\nd: 40\n", &[U]);
    add("a: x\nb: y\nc: z\n", &[U, MapSS]);
    add("{a: 1, b: 2}\n", &[U, Rec]);
    add("{a: 1, b: 2}", &[U, Rec]);
    add("a: 1\r\nb: 2\r\n", &[U, Rec]);
    add("\u{FEFF}a: 1\nb: 2\n", &[U, Rec]);
    add("a:\n  b:\n    c: 1\n  d: 2\ne: 3\n", &[U]);
    add("k: [1, 2]\nm: {x: 1}\nn: 3\n", &[U]);
    add("a: [1,\n  2]\nb: 3\n", &[U]);
    add("k: |\n  line1\n  line2\nz: 1\n", &[U, MapSS]);
    add("k: >\n  folded\n  text\n\nz: end\n", &[U, MapSS]);
    add("s: \"q\\n\\u00e9\"\nt: 'it''s'\n", &[U, MapSS]);
    add("a: &A [1, 2]\nb: *A\nc: *A\n", &[U]);
    add("base: &b {x: 1}\nder:\n  <<: *b\n  y: 2\n", &[U]);
    add("? a\n: 1\n? b\n: 2\n", &[U]);
    add("a: !!str 5\nb: !!int \"7\"\n", &[U]);
    add("x: 1\nx: 2\n", &[U]);
    add("a: 1\nb: [\n", &[U]);
    add("a: 1\n  b: 2\n", &[U]);
    // sequences
    add("- 1\n- 2\n- 3\n", &[U, VecI]);
    add("- 1\n- 2\n- 3", &[U, VecI]);
    add("[1, 2, 3]\n", &[U, VecI]);
    add("[1, 2, 3]", &[U, VecI]);
    add("- - 1\n  - 2\n- - 3\n", &[U]);
    add("- a: 1\n  b: 2\n- a: 3\n", &[U]);
    add("- 10\n-\n- 30\n", &[U]);
    add("-  1\n-  22\n-  333\n", &[U, VecI]);
    // scalars
    add("abc", &[U, Str]);
    add("abc\n", &[U, Str]);
    add("\"abc\"", &[U, Str]);
    add("'abc'\n", &[U, Str]);
    add("word1 word2\n  word3\nword4\n", &[U, Str]);
    add("123", &[U]);
    add("12345\n", &[U]);
    add("true\n", &[U]);
    add("|\n  lit\n  eral\n", &[U, Str]);
    add("\"multi\n  line\"\n", &[U, Str]);
    // empty / null-like
    add("", &[U]);
    add("\n", &[U]);
    add("~", &[U]);
    add("null\n", &[U]);
    add("# only a comment\n", &[U]);
    add("---\n", &[U]);
    add("---\n...\n", &[U]);
    // document markers and streams
    add("x\n...\ny", &[U, Str]);
    add("x\n...\ny: [", &[U, Str]);
    add("a: 1\n...\n", &[U, Rec]);
    add("a: 1\n...\nb: 2\n", &[U, Rec]);
    // content-free text after the document end: only the final finish() sees a fault there
    add("a: 1\n...\n# trailing\n", &[U, Rec]);
    add("a: 1\nb: 2\n...\n\n\n", &[U, Rec]);
    add("- 1\n...\n   \n# c\n", &[U, VecI]);
    add("x\n...\n#\n#\n", &[U, Str]);
    add("---\na: 1\n...\n# one\n---\na: 2\n...\n# two\n", &[U, Rec]);
    add("---\na: 1\n", &[U, Rec]);
    add("--- a\n--- b\n", &[U, Str]);
    add("x\n---\ny\n---\nz\n", &[U, Str]);
    add("---\na: 1\n---\na: 2\n", &[U, Rec]);
    add("a: 1\n---\na: 2\nb: 3\n---\na: 4\n", &[U, Rec]);
    add("~\n---\na\n", &[U]);
    add("a\n---\n~\n---\nb\n", &[U]);
    add("a\n---\n---\nb\n", &[U]);
    add("- 1\n- 2\n---\n- 3\n", &[U, VecI]);
    // a document that fails at the type level near its start: the iterator skips the rest of it
    // (a fault met while skipping must surface as well)
    add("a: x\nb: 2\nc: 3\nd: 4\n---\na: 2\n---\na: 3\n", &[Rec]);
    add("- x\n- 2\n- 3\n---\n- 4\n", &[VecI]);
    add("a: 1\n---\na: [1]\nb: 2\nc: 3\n---\na: 5\n", &[Rec]);
    add("x: 1\nx: 2\n---\ny: 3\n", &[U]);
    add("a: 1\n---\n]\n---\nc: 3\n", &[U]);
    add("%YAML 1.2\n---\na: 1\n", &[U, Rec]);
    // multi-byte text
    add("a: é\nb: 😀\n", &[U, MapSS]);
    add("é: 1\nü: 2\n", &[U]);
    add("- é\n- 😀\n- 日本\n", &[U]);
    add("日本語", &[U, Str]);
    add("\"é😀\"\n", &[U, Str]);
    add("\u{FEFF}é: ü\n", &[U, MapSS]);
    add("a: 'ß'\n---\nb: \"€\"\n", &[U, MapSS]);
    add("# ü comment\nk: v\n", &[U, MapSS]);
    add("k: |\n  日本\n  語\n", &[U, MapSS]);
    add("é\n---\n😀\n", &[U, Str]);
    add("x: \u{85}y\n", &[U]);
    add("a: \u{2028}b\n", &[U]);
    d
}

/// All sequences of 1..=3 lines (quick: 1..=2 plus two thirds of the triples) over a small line
/// alphabet: valid and invalid documents, streams, null-like documents, multi-byte text.
fn generated_documents(thorough: bool) -> Vec<(String, Vec<Target>)> {
    const LINES: [&str; 12] = ["a: 1\n", "b: 2\n", "- x\n", "k:\n  n: 2\n", "---\n", "...\n", "# c\n", "é: ü\n", "~\n", "x\n", "[1, 2]\n", "\n"];
    let mut out = vec![];
    let mut push = |s: String, i: usize| {
        let targets = if s.starts_with("a: 1\n") || s.contains("\na: 1\n") { vec![Target::U, Target::Rec] } else { vec![Target::U] };
        // every other document loses its final line break
        let s = if i % 2 == 1 { s.trim_end_matches('\n').to_string() } else { s };
        out.push((s, targets));
    };
    let n = LINES.len();
    let mut i = 0;
    for a in 0..n {
        push(LINES[a].to_string(), i);
        i += 1;
        for b in 0..n {
            push(format!("{}{}", LINES[a], LINES[b]), i);
            i += 1;
            for c in 0..n {
                i += 1;
                if thorough || (a + 2 * b + 3 * c) % 3 != 1 {
                    push(format!("{}{}{}", LINES[a], LINES[b], LINES[c]), i);
                }
            }
        }
    }
    out
}

/// A document larger than the 8 KiB buffers in front of the parser (faults are placed on a
/// stride and around the buffer boundary).
fn big_document() -> String {
    let mut s = String::new();
    let mut i = 0;
    while s.len() < 20_000 {
        s.push_str(&format!("k{i}: value{i}é\n"));
        i += 1;
    }
    s
}

fn writer_values() -> Vec<V> {
    let s = |x: &str| V::Str(x.to_string());
    let long = "lorem ipsum dolor sit amet ".repeat(8);
    let kv = |k: &str, v: V| (V::Str(k.to_string()), v);
    vec![
        V::Null,
        V::Bool(true),
        V::Int(-42),
        V::F64(1.5f64.to_bits()),
        V::F64(f64::NAN.to_bits()),
        s(""),
        s("plain"),
        s("needs: quoting"),
        s("é😀 multi-byte"),
        s("line1\nline2\n"),
        s("trailing space "),
        s(&long),
        s("tab\there \"q\" \\ \u{7}"),
        V::Bytes(vec![0, 1, 2, 250, 251, 252]),
        V::Seq(vec![]),
        V::Map(vec![]),
        V::Seq(vec![V::Int(1), V::Int(2), V::Int(3)]),
        V::Seq(vec![s("a"), V::Null, V::Bool(false), V::F64(0.25f64.to_bits())]),
        V::Seq(vec![V::Seq(vec![V::Int(1), V::Int(2)]), V::Seq(vec![]), V::Seq(vec![V::Seq(vec![V::Int(3)])])]),
        V::Map(vec![kv("a", V::Int(1)), kv("b", V::Int(2))]),
        V::Map(vec![kv("k", V::Seq(vec![V::Int(1), V::Int(2)])), kv("m", V::Map(vec![kv("x", V::Int(1))])), kv("e", V::Map(vec![]))]),
        V::Map(vec![(V::Int(1), s("int key")), (V::Bool(true), s("bool key")), (V::Null, s("null key"))]),
        V::Map(vec![(V::Seq(vec![V::Int(1), V::Int(2)]), s("seq key")), (V::Map(vec![kv("a", V::Int(1))]), s("map key"))]),
        V::Seq(vec![V::Map(vec![kv("a", V::Int(1)), kv("b", V::Int(2))]), V::Map(vec![kv("a", V::Int(3))])]),
        V::Map(vec![kv("text", s("line1\nline2\n")), kv("long", s(&long)), kv("z", V::Int(0))]),
        V::Tuple(vec![V::Int(1), s("two"), V::Bool(true)]),
        V::Tuple(vec![]),
        V::Some(Box::new(V::Int(5))),
        V::None,
        V::Seq(vec![V::Some(Box::new(s("x"))), V::None]),
        V::UnitVariant,
        V::Newtype(Box::new(V::Int(7))),
        V::Newtype(Box::new(V::Seq(vec![V::Int(1), V::Int(2)]))),
        V::Newtype(Box::new(V::Map(vec![kv("a", V::Int(1))]))),
        V::TupleVariant(vec![V::Int(1), s("b")]),
        V::StructVariant(vec![V::Int(1), s("b"), V::Seq(vec![V::Int(2)])]),
        V::Seq(vec![V::UnitVariant, V::Newtype(Box::new(s("n"))), V::TupleVariant(vec![V::Int(1)]), V::StructVariant(vec![V::Int(2)])]),
        V::Map(vec![kv("u", V::UnitVariant), kv("n", V::Newtype(Box::new(V::Int(1)))), kv("t", V::TupleVariant(vec![V::Int(1), V::Int(2)])), kv("s", V::StructVariant(vec![V::Int(3)]))]),
        V::Struct(vec![V::Int(1), s("two"), V::Seq(vec![V::Int(3)]), V::Map(vec![kv("k", V::Int(4))])]),
        V::Struct(vec![V::Struct(vec![V::Struct(vec![V::Int(1)])]), V::None]),
        V::NewtypeStruct(Box::new(V::Int(9))),
        V::NewtypeStruct(Box::new(V::Seq(vec![s("a"), s("b")]))),
        V::FlowSeq(vec![V::Int(1), V::Int(2), s("three")]),
        V::FlowMap(vec![kv("a", V::Int(1)), kv("b", s("x y"))]),
        V::Map(vec![kv("f", V::FlowSeq(vec![V::Int(1), V::Int(2)])), kv("g", V::FlowMap(vec![kv("a", V::Int(1))]))]),
        V::Seq(vec![V::FlowSeq(vec![]), V::FlowMap(vec![]), V::FlowSeq(vec![V::FlowSeq(vec![V::Int(1)])])]),
        V::Lit("literal\ntext\n".into()),
        V::Fold(long.clone()),
        V::Map(vec![kv("lit", V::Lit("a\nb\n".into())), kv("fold", V::Fold("word ".repeat(30))), kv("after", V::Int(1))]),
        V::Seq(vec![V::Lit("x\n  y\n".into()), V::Lit("keep\n\n".into()), s("z")]),
        V::Commented(Box::new(V::Int(5)), "five".into()),
        V::Map(vec![kv("a", V::Commented(Box::new(V::Int(1)), "one".into())), kv("b", V::Commented(Box::new(s("x")), "ex".into()))]),
        V::Seq(vec![V::SpaceAfter(Box::new(V::Int(1))), V::SpaceAfter(Box::new(V::Map(vec![kv("a", V::Int(1))]))), V::Int(2)]),
        V::Shared(Box::new(s("shared"))),
        V::Shared(Box::new(V::Map(vec![kv("a", V::Int(1)), kv("b", V::Seq(vec![V::Int(2)]))]))),
        V::Map(vec![kv("p", V::Shared(Box::new(V::Seq(vec![V::Int(1), V::Int(2)])))), kv("q", V::Int(3))]),
        V::Seq((0..40).map(V::Int).collect()),
        V::Map((0..12).map(|i| (V::Str(format!("key{i}")), V::Seq(vec![V::Int(i), V::Str(format!("v{i}"))]))).collect()),
        V::Seq(vec![V::Bytes(vec![]), V::Bytes((0..60).collect())]),
        V::Map(vec![kv("null", s("null")), kv("true", s("true")), kv("1", s("1")), kv("~", s("~")), kv("", s(""))]),
        V::Seq(vec![s("- dash"), s("? q"), s("# hash"), s("a: b"), s("[x]"), s("{y}"), s("*z"), s("&w"), s("!t"), s("%p"), s("@a"), s("`b")]),
    ]
}

// ------------------------------------------------------------------------------------------

fn arb_doc() -> impl Strategy<Value = String> + Clone + use<> {
    // small random multi-document streams built from lines; valid and invalid
    let scalar = prop_oneof![
        4 => "[a-z]{1,6}",
        2 => "[0-9]{1,4}",
        1 => Just("~".to_string()),
        1 => Just("null".to_string()),
        1 => Just("true".to_string()),
        2 => Just("é".to_string()),
        1 => Just("😀x".to_string()),
        1 => Just("\"q\\tq\"".to_string()),
        1 => Just("'s s'".to_string()),
        1 => Just("[1, 2]".to_string()),
        1 => Just("{k: v}".to_string()),
        1 => Just("[".to_string()),
    ];
    let line = (0usize..6, "[a-z]{1,3}", scalar, 0usize..3).prop_map(|(kind, key, val, indent)| {
        let ind = "  ".repeat(indent.min(1));
        match kind {
            0 | 1 => format!("{key}: {val}\n"),
            2 => format!("- {val}\n"),
            3 => format!("{ind}{key}:\n  x: {val}\n"),
            4 => format!("{val}\n"),
            _ => format!("# {val}\n"),
        }
    });
    let doc = prop::collection::vec(line, 0..5).prop_map(|ls| ls.concat());
    (prop::collection::vec((doc, 0usize..5), 1..4), any::<bool>(), any::<bool>(), any::<bool>()).prop_map(|(docs, lead, trail_nl, crlf)| {
        let mut s = String::new();
        for (i, (d, sep)) in docs.iter().enumerate() {
            if i > 0 || lead {
                s.push_str(match sep {
                    0 | 1 | 2 => "---\n",
                    3 => "...\n---\n",
                    _ => "...\n",
                });
            }
            s.push_str(d);
        }
        if !trail_nl && s.ends_with('\n') {
            s.pop();
        }
        if crlf {
            s = s.replace('\n', "\r\n");
        }
        s
    })
}

fn arb_sched() -> impl Strategy<Value = Sched> + Clone + use<> {
    prop_oneof![
        Just(Sched::All),
        Just(Sched::Fixed(1)),
        Just(Sched::Fixed(2)),
        Just(Sched::Fixed(3)),
        Just(Sched::Fixed(7)),
        prop::collection::btree_set(1usize..120, 0..8).prop_map(|s| Sched::Cuts(s.into_iter().collect())),
    ]
}

fn arb_read_case() -> impl Strategy<Value = Case> + Clone + use<> {
    (
        arb_doc(),
        prop::sample::select(ENTRIES.to_vec()),
        arb_sched(),
        any::<u16>(),
        any::<bool>(),
        prop::sample::select(Kind::ALL.to_vec()),
        prop::sample::select(vec![After::Sticky, After::CleanEof]),
    )
        .prop_map(|(doc, entry, sched, pos, by_call, kind, after)| {
            let at = if by_call {
                FaultAt::Call(engine::pick_idx(pos, doc.len().min(40) + 2))
            } else {
                FaultAt::Byte(engine::pick_idx(pos, doc.len() + 1))
            };
            Case::Read { doc, target: Target::U, entry, sched, fault: ReadFault { at, kind, after } }
        })
}

/// generator-side twin of the exclusion inside `check`: would this case feed a hanging shape
/// to a reader?  (Byte faults: the delivered prefix is known; everything else: any prefix.)
fn hazardous(c: &Case) -> bool {
    match c {
        Case::Read { doc, fault, .. } => {
            let b = doc.as_bytes();
            iofault::percent_tail(b)
                || match fault.at {
                    FaultAt::Byte(k) => iofault::percent_tail(&b[..k.min(b.len())]),
                    FaultAt::Call(_) => iofault::any_prefix_percent_tail(b),
                }
        }
        Case::MidChar { doc, cut, .. } => iofault::percent_tail(doc.as_bytes()) || iofault::percent_tail(&doc.as_bytes()[..(*cut).min(doc.len())]),
        Case::Cap { doc, .. } => iofault::any_prefix_percent_tail(doc.as_bytes()),
        Case::Endless { head, unit, .. } => head.contains('%') || unit.contains('%'),
        Case::Write { .. } => false,
    }
}

/// Is the truncated prefix itself a complete document for this entry point?
fn prefix_complete(doc: &str, k: usize, target: Target, entry: Entry) -> bool {
    let b = &doc.as_bytes()[..k.min(doc.len())];
    if iofault::percent_tail(b) {
        return false;
    }
    let (r, _, _) = clean(b, target, entry, &Sched::All);
    is_success(&r)
}

impl C10 {
    fn submit(ctx: &mut Ctx<Self>, sub: &str, c: &Case, nontrivial: bool) {
        if hazardous(c) {
            ctx.class("skipped: reader_percent_eof (open C01 finding)");
            return;
        }
        let skipped_before: u64 = ctx.res.excluded_known.values().sum();
        let evals_before = ctx.res.evaluations;
        ctx.case(sub, c, nontrivial);
        if ctx.res.evaluations == evals_before || ctx.res.excluded_known.values().sum::<u64>() != skipped_before {
            return;
        }
        let info = get_info();
        match c {
            Case::Read { fault, entry, .. } => {
                ctx.class(if info.fault_invoked { "read: faulting read invoked" } else { "read: faulting read never invoked" });
                if nontrivial {
                    ctx.class(&format!("read: prefix is a complete document, {:?}", entry));
                }
                if info.split_inside_char {
                    ctx.class("read: a chunk ended inside a multi-byte character");
                }
                ctx.class(&format!("read: kind {:?}", fault.kind));
            }
            Case::Cap { .. } | Case::Endless { .. } => {
                ctx.maximum("bytes pulled beyond the cap", info.overshoot as f64);
            }
            Case::Write { .. } => {
                ctx.class(if info.fault_invoked { "write: fault reached" } else { "write: fault not reached" });
            }
            Case::MidChar { .. } => {}
        }
    }
}

impl Property for C10 {
    const ID: &'static str = "C10";
    const LEVEL: &'static str = "fault_enumeration";
    type Case = Case;

    fn rule() -> String {
        "Enumerated fault plans. Reader: each of ~85 crafted documents (many prefixes are complete documents; streams, null-like documents, content-free text after '...', multi-byte text, BOM, CRLF) x every fault position (the call that would deliver byte k, k in 0..=len; the n-th read call up to the call that reports EOF, plus one unreachable index) x 6 error kinds x {sticky, clean EOF afterwards} x chunking {1, 3, all} x {from_reader, with_deserializer_from_reader, read collected; for the struct target also from_reader_valid / _validate and read_valid / _validate} x fitting target types; every sequence of <= 3 lines over a 12-line alphabet (quick: all singles and pairs, two thirds of the triples, two of the three chunkings) x every position x entry points with kind / post-fault behaviour rotating; one 20 kB document with faults on a stride and around the 8 KiB / 16 KiB marks; end of input at every position inside a multi-byte character; max_reader_input_bytes in {0, 1, len-1, len, len+1, 2 len} and every value below len for documents under 200 bytes (plus len-4..len-2 for BOM inputs) with every chunking, and caps {0,1,7,100,4096,8192,8193,20000,100000} against 15 endless readers; random streams x random fault plans. Writer: each of 60 values (every serde data-model call, wrappers, anchors, block scalars) x 11 serializer option vectors x every failing write call n and every accepted byte count k x {all, 1, 3} bytes accepted per call x error kinds (and Ok(0)) x {to_io_writer, to_io_writer_with_options}. Oracle: DESIGN.md C10 (invoked fault => Err / iterator: Ok items are a prefix of the fault-free Ok items and an Err is yielded; fault never invoked => identical result; cap >= len => identical, cap < len => Err, bytes pulled <= cap + 16 KiB; writer: Err carrying the writer's error kind, accepted bytes a prefix of the fault-free output, short writes alone change nothing). Non-trivial: reader cases whose delivered prefix is itself accepted without error by the same entry point (only the deferred error check separates success from failure); cap cases with the cap within 1 of the length or whose capped prefix is a complete document; end of input inside a character; endless readers; writer cases whose fault is reached after at least one accepted call / byte. distinct = distinct case. Writer faults include a transient one (only the n-th write call fails, later calls are accepted): nothing may be written after a failed write. Iterator results that are a proper prefix of the fault-free items count as a swallowed fault (an error item that the intact input produces as well is no report of the fault).".into()
    }
    fn assumptions() -> Vec<String> {
        vec![
            "faults are sticky or followed by a clean end of input; ErrorKind::Interrupted is never injected (DESIGN.md 5b)".into(),
            "inputs whose (truncated) text ends in a line starting with '%' are never fed to a reader (open C01 finding: the parser dependency hangs); counted under classes".into(),
            "the delivered prefix of a call-indexed fault is taken from the fault-free run (the library is deterministic up to the fault)".into(),
            "a leading BOM is not counted against max_reader_input_bytes by the library; caps in [len-3, len) on BOM inputs may go either way".into(),
            "iterator oracle: Ok items must be a prefix of the fault-free Ok items and at least one Err must be yielded; which Err variant is not prescribed".into(),
            "allowance A = 16 KiB".into(),
        ]
    }
    fn selfcheck() -> Result<(), String> {
        iofault::selfcheck()?;
        // the lexical helpers used by the signatures
        for (t, want) in [("a\n---\n~\n", "~\n"), ("x\n...\ny", "y"), ("--- a\n", "a\n"), ("a: 1\n", "a: 1\n"), ("a\n---", ""), ("a: 1\n...\n# c\n", "a: 1\n"), ("", ""), ("---\na\n", "a\n"), ("a\n...\n~", "~")] {
            if last_document(t) != want {
                return Err(format!("last_document({t:?}) = {:?}", last_document(t)));
            }
        }
        if !nullish_text("# c\n~ # x\n") || nullish_text("nul") || !nullish_text("") {
            return Err("nullish_text wrong".into());
        }
        for (t, want) in [("", 0), ("a", 1), ("a\n---\n~\n---\nb", 2), ("x\n...\ny: [", 2), ("a: 1\n...\n# c\n", 1), ("---\n---\n", 0), ("---\na\n...\n---\n-", 2), ("...\n", 0)] {
            if content_documents(t) != want {
                return Err(format!("content_documents({t:?}) = {}", content_documents(t)));
            }
        }
        // every writer value must serialise, and differently shaped values differ
        for v in writer_values() {
            let mut w = FaultyWriter::new(0, None);
            if serde_saphyr::to_io_writer(&mut w, &E(&v)).is_err() {
                return Err(format!("writer value does not serialise: {v:?}"));
            }
        }
        Ok(())
    }

    fn check(c: &Case) -> Outcome {
        set_info(Info::default());
        match c {
            Case::Read { target, entry, .. } | Case::MidChar { target, entry, .. } | Case::Cap { target, entry, .. } if entry.is_twin() && *target != Target::Rec => {
                return Outcome::Discard("validating twins are only run with target Rec");
            }
            Case::Endless { entry, .. } if entry.is_twin() => return Outcome::Discard("validating twins are only run with target Rec"),
            _ => {}
        }
        match c {
            Case::Read { doc, target, entry, sched, fault } => check_read(doc, *target, *entry, sched, fault),
            Case::MidChar { doc, cut, target, entry, sched } => check_midchar(doc, *cut, *target, *entry, sched),
            Case::Cap { doc, cap, target, entry, sched } => check_cap(doc, *cap, *target, *entry, sched),
            Case::Endless { head, unit, cap, entry, sched } => check_endless(head, unit, *cap, *entry, sched),
            Case::Write { val, opts, with_options, short, fault } => check_write(val, opts, *with_options, *short, fault),
        }
    }

    fn signatures(c: &Case) -> Vec<&'static str> {
        // development aid (validation of candidate fixes in a scratch tree): judge every case
        if std::env::var_os("VCHECK_NOSIG").is_some() {
            return vec![];
        }
        case_signatures(c)
    }

    fn shrink(c: &Case) -> Vec<Case> {
        let mut out = vec![];
        match c {
            Case::Read { doc, target, entry, sched, fault } => {
                if *sched != Sched::All {
                    out.push(Case::Read { doc: doc.clone(), target: *target, entry: *entry, sched: Sched::All, fault: *fault });
                }
                if fault.kind != Kind::Other && fault.kind != Kind::UnexpectedEof {
                    out.push(Case::Read { doc: doc.clone(), target: *target, entry: *entry, sched: sched.clone(), fault: ReadFault { kind: Kind::Other, ..*fault } });
                }
                // drop whole lines (fault position moves with the text in front of it)
                if doc.len() <= 400 {
                    let lines: Vec<&str> = doc.split_inclusive('\n').collect();
                    let mut off = 0;
                    for (i, l) in lines.iter().enumerate() {
                        let mut nd = String::new();
                        for (j, m) in lines.iter().enumerate() {
                            if i != j {
                                nd.push_str(m);
                            }
                        }
                        let nf = match fault.at {
                            FaultAt::Byte(k) if k >= off + l.len() => Some(FaultAt::Byte(k - l.len())),
                            FaultAt::Byte(k) if k <= off => Some(FaultAt::Byte(k)),
                            FaultAt::Byte(_) => None,
                            FaultAt::Call(n) => Some(FaultAt::Call(n)),
                        };
                        if let Some(at) = nf {
                            out.push(Case::Read { doc: nd, target: *target, entry: *entry, sched: sched.clone(), fault: ReadFault { at, ..*fault } });
                        }
                        off += l.len();
                    }
                }
            }
            Case::Write { val, opts, with_options, short, fault } => {
                let d = SerOpts::default();
                if *opts != d {
                    out.push(Case::Write { val: val.clone(), opts: d, with_options: *with_options, short: *short, fault: *fault });
                }
                if *short != 0 {
                    out.push(Case::Write { val: val.clone(), opts: opts.clone(), with_options: *with_options, short: 0, fault: *fault });
                }
            }
            _ => {}
        }
        out
    }

    /// libFuzzer input: entry point, schedule, fault (position by byte or by call, kind,
    /// behaviour afterwards), then the stream text (lossy UTF-8, <= 200 bytes)
    fn fuzz_decode(data: &[u8]) -> Option<(&'static str, Case, bool)> {
        let mut b = engine::Bytes::new(data);
        let entry = b.pick(&ENTRIES);
        let sched = match b.below(6) {
            0 => Sched::All,
            1 => Sched::Fixed(1),
            2 => Sched::Fixed(2),
            3 => Sched::Fixed(3),
            4 => Sched::Fixed(7),
            _ => {
                let n = b.below(8);
                let mut cuts: Vec<usize> = (0..n).map(|_| 1 + b.below(119)).collect();
                cuts.sort();
                cuts.dedup();
                Sched::Cuts(cuts)
            }
        };
        let pos = b.u16();
        let by_call = b.bool();
        let kind = b.pick(&Kind::ALL);
        let after = b.pick(&[After::Sticky, After::CleanEof]);
        let doc = String::from_utf8_lossy(b.take(200)).into_owned();
        let at = if by_call { FaultAt::Call(engine::pick_idx(pos, doc.len().min(40) + 2)) } else { FaultAt::Byte(engine::pick_idx(pos, doc.len() + 1)) };
        let c = Case::Read { doc, target: Target::U, entry, sched, fault: ReadFault { at, kind, after } };
        if hazardous(&c) {
            return None; // reader hang of the parser dependency (open C01 finding)
        }
        let nt = match &c {
            Case::Read { doc, target, entry, fault: ReadFault { at: FaultAt::Byte(k), .. }, .. } => prefix_complete(doc, *k, *target, *entry),
            _ => false,
        };
        Some(("fuzz-read-fault", c, nt))
    }
    fn generate(ctx: &mut Ctx<Self>) {
        let thorough = ctx.tier == engine::Tier::Thorough;
        let scheds = [Sched::Fixed(1), Sched::Fixed(3), Sched::All];
        let afters = [After::Sticky, After::CleanEof];
        let docs = documents();
        let mut idx: u64 = 0;

        // ---- reader faults: every position ------------------------------------------------
        // crafted documents: full product; enumerated line documents: every position and entry
        // point, the other dimensions rotate
        let mut n_positions = 0u64;
        let gen_docs = generated_documents(thorough);
        let all_docs = docs.iter().map(|d| (d, true)).chain(gen_docs.iter().map(|d| (d, false)));
        for (di, ((doc, targets), full)) in all_docs.enumerate() {
            let len = doc.len();
            if iofault::percent_tail(doc.as_bytes()) {
                continue;
            }
            let sub = if full { "read-fault-sweep" } else { "read-fault-sweep-enumerated-docs" };
            for &target in targets {
                for &entry in &Entry::for_target(target) {
                    // complete-prefix table for this (doc, target, entry)
                    let complete: Vec<bool> = (0..=len).map(|k| prefix_complete(doc, k, target, entry)).collect();
                    for (si, sched) in scheds.iter().enumerate() {
                        if !full && !thorough && si == di % 3 {
                            continue;
                        }
                        let (_, st, pos_at_call) = clean(doc.as_bytes(), target, entry, sched);
                        let mut plans: Vec<(FaultAt, bool)> = vec![];
                        for k in 0..=len {
                            plans.push((FaultAt::Byte(k), complete[k]));
                        }
                        // calls up to the one that reports the end of input can fail; one later
                        // call index stands for "never invoked"
                        let eof_call = pos_at_call.iter().position(|&p| p >= len).unwrap_or(st.calls);
                        for n in 0..=eof_call + 1 {
                            let nt = n <= eof_call && pos_at_call.get(n).map(|&p| complete[p.min(len)]).unwrap_or(false);
                            plans.push((FaultAt::Call(n), nt));
                        }
                        for (pi, (at, nt)) in plans.into_iter().enumerate() {
                            n_positions += 1;
                            for (ki, &kind) in Kind::ALL.iter().enumerate() {
                                for (ai, &after) in afters.iter().enumerate() {
                                    if !full && (ki != (di + pi) % 5 || ai != (di / 5 + pi) % 2) {
                                        // (UnexpectedEof is an open finding; it is covered by the crafted documents)
                                        continue;
                                    }
                                    idx += 1;
                                    if !ctx.mine(idx) {
                                        continue;
                                    }
                                    let c = Case::Read { doc: doc.clone(), target, entry, sched: sched.clone(), fault: ReadFault { at, kind, after } };
                                    Self::submit(ctx, sub, &c, nt);
                                }
                            }
                        }
                    }
                }
            }
        }
        ctx.subspace(
            "reader fault positions: (crafted documents x 3 chunkings + enumerated line documents) x targets x entry points x every byte / call position",
            n_positions,
            true,
        );

        // ---- reader faults on a document larger than the buffers ------------------------------
        let big = big_document();
        {
            let mut ks: Vec<usize> = (0..=big.len()).step_by(if thorough { 37 } else { 401 }).collect();
            for k in [8190, 8191, 8192, 8193, 8194, 16383, 16384, 16385, big.len() - 1, big.len()] {
                ks.push(k);
            }
            for &entry in &ENTRIES {
                for sched in [Sched::All, Sched::Fixed(1000), Sched::Fixed(1)] {
                    for (j, &k) in ks.iter().enumerate() {
                        idx += 1;
                        if !ctx.mine(idx) {
                            continue;
                        }
                        let kind = Kind::ALL[j % 5]; // UnexpectedEof is finding (i); covered by the sweep
                        let after = afters[(j / 5) % 2];
                        let nt = prefix_complete(&big, k, Target::U, entry);
                        let c = Case::Read { doc: big.clone(), target: Target::U, entry, sched: sched.clone(), fault: ReadFault { at: FaultAt::Byte(k), kind, after } };
                        Self::submit(ctx, "read-fault-big", &c, nt);
                    }
                    for n in 0..6usize {
                        idx += 1;
                        if !ctx.mine(idx) {
                            continue;
                        }
                        let c = Case::Read { doc: big.clone(), target: Target::U, entry, sched: sched.clone(), fault: ReadFault { at: FaultAt::Call(n), kind: Kind::ALL[n % 5], after: afters[n % 2] } };
                        Self::submit(ctx, "read-fault-big", &c, false);
                    }
                }
            }
        }

        // ---- end of input inside a character ---------------------------------------------------
        let mut n_mid = 0u64;
        for (doc, targets) in &docs {
            for cut in 1..doc.len() {
                if doc.is_char_boundary(cut) {
                    continue;
                }
                n_mid += 1;
                for &target in targets {
                    for &entry in &Entry::for_target(target) {
                        for sched in &scheds {
                            idx += 1;
                            if !ctx.mine(idx) {
                                continue;
                            }
                            let c = Case::MidChar { doc: doc.clone(), cut, target, entry, sched: sched.clone() };
                            Self::submit(ctx, "eof-inside-character", &c, true);
                        }
                    }
                }
            }
        }
        ctx.subspace("positions inside a multi-byte character (each x targets x 3 entry points x 3 chunkings)", n_mid, true);

        // ---- caps ---------------------------------------------------------------------------------
        let mut cap_docs: Vec<(String, Vec<Target>)> = docs.clone();
        cap_docs.push((big.clone(), vec![Target::U]));
        for (doc, targets) in &cap_docs {
            let len = doc.len();
            let mut caps = vec![0, 1, len.saturating_sub(1), len, len + 1, 2 * len];
            if doc.starts_with('\u{FEFF}') {
                caps.push(len.saturating_sub(3));
                caps.push(len.saturating_sub(2));
                caps.push(len.saturating_sub(4));
            }
            if len < 200 {
                // every cap below the length as well (complete-prefix caps are the dangerous ones)
                caps.extend(2..len.saturating_sub(1));
            }
            caps.sort();
            caps.dedup();
            for &target in targets {
                for &entry in &Entry::for_target(target) {
                    for sched in &scheds {
                        for &cap in &caps {
                            idx += 1;
                            if !ctx.mine(idx) {
                                continue;
                            }
                            let c = Case::Cap { doc: doc.clone(), cap, target, entry, sched: sched.clone() };
                            if hazardous(&c) {
                                ctx.class("skipped: reader_percent_eof (open C01 finding)");
                                continue;
                            }
                            let near = cap + 1 >= len && cap <= len + 1;
                            let nt = near || (cap < len && len < 200 && {
                                let mut p = cap.min(len);
                                while !doc.is_char_boundary(p) {
                                    p -= 1;
                                }
                                prefix_complete(doc, p, target, entry)
                            });
                            Self::submit(ctx, "input-cap", &c, nt);
                        }
                    }
                }
            }
        }
        // endless readers
        for (head, unit) in [("", "- a\n"), ("a: 1\n", "k: v\n"), ("", "x"), ("", " "), ("", "\n"), ("# c", "c"), ("", "é"), ("", "😀"), ("", "x\n---\n"), ("", "---\n"), ("", "~\n---\n"), ("[", "1, "), ("\"", "q"), ("a: |\n", "  text\n"), ("\u{FEFF}", "- é\n")] {
            for cap in [0usize, 1, 7, 100, 4096, 8192, 8193, 20_000, 100_000] {
                for &entry in &ENTRIES {
                    for sched in [Sched::All, Sched::Fixed(1), Sched::Fixed(3), Sched::Fixed(5000)] {
                        idx += 1;
                        if !ctx.mine(idx) {
                            continue;
                        }
                        let c = Case::Endless { head: head.to_string(), unit: unit.to_string(), cap, entry, sched };
                        Self::submit(ctx, "input-cap-endless-reader", &c, true);
                    }
                }
            }
        }

        // ---- random streams x random fault plans -----------------------------------------------
        {
            let strat = arb_read_case().prop_filter("reader_percent_eof", |c| !hazardous(c));
            ctx.run_strategy("read-fault-random", 1, ctx.tier.pick(80_000, 2_000_000), &strat, |c| match c {
                Case::Read { doc, target, entry, fault: ReadFault { at: FaultAt::Byte(k), .. }, .. } => prefix_complete(doc, *k, *target, *entry),
                _ => false,
            });
        }

        // ---- writers ------------------------------------------------------------------------------
        let fam = SerOpts::family();
        let modes: Vec<WMode> = Kind::ALL.iter().map(|k| WMode::Err(*k)).chain([WMode::Zero]).collect();
        let mut n_wpos = 0u64;
        for (vi, val) in writer_values().iter().enumerate() {
            for (oi, opts) in fam.iter().enumerate() {
                for with_options in [false, true] {
                    if !with_options && oi != 0 {
                        continue;
                    }
                    // size of the fault-free run
                    let mut w0 = FaultyWriter::new(0, None);
                    let ok = if with_options {
                        serde_saphyr::to_io_writer_with_options(&mut w0, &E(val), opts.build()).is_ok()
                    } else {
                        serde_saphyr::to_io_writer(&mut w0, &E(val)).is_ok()
                    };
                    if !ok {
                        ctx.class("write: value not serializable under these options");
                        continue;
                    }
                    let (ncalls, nbytes) = (w0.calls, w0.accepted.len());
                    for short in [0usize, 1, 3] {
                        let ncalls_s = if short == 0 {
                            ncalls
                        } else {
                            let mut w = FaultyWriter::new(short, None);
                            let _ = serde_saphyr::to_io_writer_with_options(&mut w, &E(val), if with_options { opts.build() } else { SerOpts::default().build() });
                            w.calls
                        };
                        let mut plans: Vec<WFaultAt> = (0..=ncalls_s.min(if thorough { 4000 } else { 400 })).map(WFaultAt::Call).collect();
                        plans.extend((0..=nbytes).map(WFaultAt::Bytes));
                        plans.extend((0..=ncalls_s.min(if thorough { 4000 } else { 400 })).map(WFaultAt::CallOnce));
                        for (pi, at) in plans.iter().enumerate() {
                            n_wpos += 1;
                            // all modes for the default options, one rotating mode otherwise
                            let ms: Vec<WMode> = if oi == 0 && short == 0 { modes.clone() } else { vec![modes[(pi + vi + oi) % modes.len()]] };
                            for mode in ms {
                                idx += 1;
                                if !ctx.mine(idx) {
                                    continue;
                                }
                                let reached = match at {
                                    WFaultAt::Call(n) | WFaultAt::CallOnce(n) => *n < ncalls_s && *n > 0,
                                    WFaultAt::Bytes(k) => *k < nbytes && *k > 0,
                                };
                                let c = Case::Write { val: val.clone(), opts: opts.clone(), with_options, short, fault: WriteFault { at: *at, mode } };
                                Self::submit(ctx, "write-fault-sweep", &c, reached);
                            }
                        }
                    }
                }
            }
        }
        ctx.subspace(
            "writer fault plans: values x option vectors x entry points x {all,1,3} bytes per call x every write call / accepted byte count",
            n_wpos,
            true,
        );
    }
}

fn main() {
    // development aid: `c10 probe <text>` shows what the reader entry points do with a text
    let args: Vec<String> = std::env::args().collect();
    if args.get(1).map(|s| s.as_str()) == Some("probe") {
        engine::install_panic_hook();
        let text = args[2].replace("\\n", "\n").replace("\\r", "\r");
        for entry in ENTRIES {
            for sched in [Sched::All, Sched::Fixed(1)] {
                let (r, st, _) = clean(text.as_bytes(), Target::U, entry, &sched);
                println!("{entry:?} {sched:?}: {} calls={} handed={}", show(&r), st.calls, st.handed);
            }
        }
        return;
    }
    if args.get(1).map(|s| s.as_str()) == Some("probe-trace") {
        // c10 probe-trace <text>: when does the iterator start deserializing relative to reader progress?
        use std::io::Read;
        thread_local! { static POS: RefCell<(usize, usize)> = const { RefCell::new((0, 0)) }; }
        struct Tr<'a>(FaultyReader<'a>);
        impl Read for Tr<'_> {
            fn read(&mut self, b: &mut [u8]) -> std::io::Result<usize> {
                let r = self.0.read(b);
                POS.with(|p| *p.borrow_mut() = (self.0.handed, self.0.calls));
                println!("   read -> {:?} (handed {}, call {})", r.as_ref().map_err(|e| e.kind()), self.0.handed, self.0.calls);
                r
            }
        }
        #[derive(Debug)]
        struct Loud(#[allow(dead_code)] U);
        impl<'de> Deserialize<'de> for Loud {
            fn deserialize<D: serde::Deserializer<'de>>(d: D) -> Result<Self, D::Error> {
                println!("   deserialize starts at {:?}", POS.with(|p| *p.borrow()));
                let r = U::deserialize(d).map(Loud);
                println!("   deserialize ends at {:?}: {:?}", POS.with(|p| *p.borrow()), r.as_ref().map_err(|_| "err"));
                r
            }
        }
        let text = args[2].replace("\\n", "\n");
        let sched = Sched::Fixed(1);
        let mut rd = Tr(FaultyReader::new(text.as_bytes(), &sched));
        for it in serde_saphyr::read::<_, Loud>(&mut rd) {
            println!("item {:?}", it.map_err(|e| sum_err(&e)));
        }
        return;
    }
    if args.get(1).map(|s| s.as_str()) == Some("probe-fault") {
        // c10 probe-fault <text> : every byte fault position, iterator entry point
        engine::install_panic_hook();
        let text = args[2].replace("\\n", "\n").replace("\\r", "\r");
        let kind = if args.get(3).map(|s| s.as_str()) == Some("eof") { Kind::UnexpectedEof } else { Kind::Other };
        for entry in ENTRIES {
            for sched in [Sched::All, Sched::Fixed(1)] {
                for k in 0..=text.len() {
                    let mut rd = FaultyReader::new(text.as_bytes(), &sched).with_fault(ReadFault { at: FaultAt::Byte(k), kind, after: After::Sticky });
                    let (r, st) = run(Target::U, entry, &mut rd, None, 100);
                    println!("{entry:?} {sched:?} k={k} {:?}: {} hits={}", &text[..k], show(&r), st.fault_hits);
                }
            }
        }
        return;
    }
    engine::main::<C10>()
}

/// entry point of the libFuzzer target `fuzz/fuzz_targets/c10.rs`
#[allow(dead_code)]
pub fn fuzz(data: &[u8]) {
    engine::fuzz_one::<C10>(data)
}
