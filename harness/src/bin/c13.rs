//! C13 – every data-model shape round-trips as one well-formed YAML document.
use proptest::prelude::*;
use serde::de::{DeserializeSeed, IgnoredAny};
use serde::{Deserialize, Serialize};
use vcheck::dynschema::{self as ds, Ty, D, DV, S, VK};
use vcheck::engine::{self, Ctx, Outcome, Property};
use vcheck::opts::SerOpts;

#[derive(Clone, Debug, Serialize, Deserialize)]
struct Case {
    ty: Ty,
    val: DV,
    opts: SerOpts,
}

fn root_is_nullish(t: &Ty, v: &DV) -> bool {
    match (t, v) {
        (Ty::Unit, _) | (_, DV::None) => true,
        (Ty::NT(t), DV::NT(v)) => root_is_nullish(t, v),
        _ => false,
    }
}

fn check_case(c: &Case) -> Outcome {
    if ds::has_colliding_keys(&c.val) {
        // (not a document of the domain: two keys that are one key node for the reader)
        return Outcome::Discard("colliding-keys");
    }
    let text = match serde_saphyr::to_string_with_options(&S(&c.ty, &c.val), c.opts.build()) {
        Ok(t) => t,
        Err(e) => return Outcome::Fail(format!("serialization failed: {e}")),
    };
    if let Err(m) = judge(c, &text) {
        return Outcome::Fail(m);
    }
    // the same value through sequences and maps that announce no length (`serialize_seq(None)`:
    // what `collect_seq` over a filtering iterator or a hand-written impl does)
    let text2 = match ds::with_unknown_len(|| serde_saphyr::to_string_with_options(&S(&c.ty, &c.val), c.opts.build())) {
        Ok(t) => t,
        Err(e) => return Outcome::Fail(format!("serialization (unknown lengths) failed: {e}")),
    };
    if text2 != text {
        if let Err(m) = judge(c, &text2) {
            return Outcome::Fail(format!("collections of unknown length: {m}"));
        }
    }
    Outcome::Pass
}

fn judge(c: &Case, text: &str) -> Result<(), String> {
    // (1) a single well-formed document
    match serde_saphyr::from_multiple::<IgnoredAny>(text) {
        Ok(v) => {
            let want = if root_is_nullish(&c.ty, &c.val) { 0 } else { 1 };
            if v.len() != want && !(want == 0 && v.len() == 1) {
                return Err(format!("emitted text is {} documents, expected one (emitted {text:?})", v.len()));
            }
        }
        Err(e) => return Err(format!("emitted text is not well-formed: {} (emitted {text:?})", e.without_snippet())),
    }
    // (2) reads back as an equal value of the same type
    match serde_saphyr::with_deserializer_from_str(text, |d| D(&c.ty).deserialize(d)) {
        Ok(v) if v == c.val => Ok(()),
        Ok(v) => Err(format!("reads back as {v:?} (emitted {text:?})")),
        Err(e) => Err(format!("emitted text is rejected: {} (emitted {text:?})", e.without_snippet())),
    }
}

struct C13;

fn nontrivial(c: &Case) -> bool {
    ds::depth(&c.val) >= 2
}

fn record_matrix(ctx: &mut Ctx<C13>, c: &Case) {
    ds::walk(&c.ty, &c.val, "root", &mut |t, v, pos| {
        let _ = (t, v, pos);
    });
    let mut cells: Vec<String> = vec![];
    ds::walk(&c.ty, &c.val, "root", &mut |t, v, pos| cells.push(format!("cell {} <- {}", pos, ds::kind_name(t, v))));
    cells.sort();
    cells.dedup();
    for cell in cells {
        ctx.class(&cell);
    }
}

impl Property for C13 {
    const ID: &'static str = "C13";
    type Case = Case;
    fn rule() -> String {
        "cases = (run-time type description, value of that type, serializer options). Values cover options, sequences, tuples, tuple structs, newtype structs, maps with string / integer / bool / composite keys, structs, and unit / newtype / tuple / struct enum variants nested to depth <= 5, serialised through a run-time-schema Serialize impl that calls exactly the serde methods a derived type would call. Exhaustive: a fixed family of all trees of depth <= 2 (thorough 3) with <= 2 children per node over 9 leaf kinds (incl. empty sequence / map, empty and multi-line strings, unit variant, None) x the option family; random deeper trees x random option vectors; a block-scalar string below every chain of <= 4 (thorough 5) positions x indent x compact x wrap. Every value is serialised with and without announced collection lengths. Oracle: the emitted text parses into exactly one document and the run-time-schema DeserializeSeed returns the original value. Non-trivial: tree of depth >= 2; distinct = (type, value, options). The evidence carries the covered matrix parent-position x child-kind.".into()
    }
    fn assumptions() -> Vec<String> {
        vec![
            "Option<T> is only generated for T without a null-like encoding (Option<()> and Option<Option<T>> have no distinguishable YAML form)".into(),
            "the run-time-schema (de)serialisers are self-checked against derived types at start-up".into(),
        ]
    }
    fn check(c: &Case) -> Outcome {
        check_case(c)
    }
    fn signatures(c: &Case) -> Vec<&'static str> {
        // (development aid: VCHECK_NOSIG=1 shows what the open findings currently hide)
        if std::env::var_os("VCHECK_NOSIG").is_some() {
            return vec![];
        }
        let mut v = vec![];
        if !c.opts.braces && ds::has_empty_collection(&c.ty, &c.val) {
            v.push("empty_no_braces");
        }
        if ds::sig_complex_key_block_body(&c.ty, &c.val) || ((c.opts.compact || c.opts.indent != 2) && ds::sig_has_composite_key(&c.ty, &c.val)) {
            v.push("complex_key_block_body");
        }
        if ds::sig_complex_key_empty_key_hack(&c.ty, &c.val) {
            v.push("complex_key_empty_key_hack");
        }
        if c.opts.indent == 1 && ds::depth(&c.val) >= 2 {
            v.push("indent_step_1");
        }
        v
    }
    fn shrink(c: &Case) -> Vec<Case> {
        let mut out = vec![];
        let d = SerOpts::default();
        if c.opts != d {
            out.push(Case { opts: d, ..c.clone() });
        }
        // descend into children
        let mut kids: Vec<(Ty, DV)> = vec![];
        match (&c.ty, &c.val) {
            (Ty::Seq(t), DV::Seq(x)) => x.iter().for_each(|y| kids.push(((**t).clone(), y.clone()))),
            (Ty::Tuple(ts), DV::Seq(x)) | (Ty::TS(ts), DV::Seq(x)) => ts.iter().zip(x).for_each(|(t, y)| kids.push((t.clone(), y.clone()))),
            (Ty::Map(kt, vt), DV::Map(es)) => es.iter().for_each(|(k, y)| {
                kids.push(((**kt).clone(), k.clone()));
                kids.push(((**vt).clone(), y.clone()));
            }),
            (Ty::Struct(ts, _), DV::Struct(x)) => ts.iter().zip(x).for_each(|(t, y)| kids.push((t.clone(), y.clone()))),
            (Ty::Enum(vks), DV::Var(i, x)) => match &vks[*i] {
                VK::Unit => {}
                VK::New(t) => kids.push(((**t).clone(), x[0].clone())),
                VK::Tup(ts) | VK::St(ts) => ts.iter().zip(x).for_each(|(t, y)| kids.push((t.clone(), y.clone()))),
            },
            (Ty::Opt(t), DV::Some(y)) | (Ty::NT(t), DV::NT(y)) => kids.push(((**t).clone(), (**y).clone())),
            _ => {}
        }
        for (t, v) in kids {
            out.push(Case { ty: t, val: v, opts: c.opts.clone() });
        }
        // shrink collections by dropping one element
        match (&c.ty, &c.val) {
            (Ty::Seq(_), DV::Seq(x)) => {
                for i in 0..x.len() {
                    let mut y = x.clone();
                    y.remove(i);
                    out.push(Case { val: DV::Seq(y), ..c.clone() });
                }
            }
            (Ty::Map(..), DV::Map(x)) => {
                for i in 0..x.len() {
                    let mut y = x.clone();
                    y.remove(i);
                    out.push(Case { val: DV::Map(y), ..c.clone() });
                }
            }
            _ => {}
        }
        out
    }
    fn selfcheck() -> Result<(), String> {
        vcheck::dynschema_selfcheck::run()
    }
    /// libFuzzer input: option bits, then the type, then a value of that type
    fn fuzz_decode(data: &[u8]) -> Option<(&'static str, Case, bool)> {
        let mut b = engine::Bytes::new(data);
        let opts = SerOpts::from_bits(b.u16() as u32);
        let ty = ds::ty_from_bytes(&mut b, 4);
        let val = ds::val_from_bytes(&mut b, &ty);
        let c = Case { ty, val, opts };
        let nt = nontrivial(&c);
        Some(("fuzz-trees", c, nt))
    }
    fn generate(ctx: &mut Ctx<Self>) {
        let fam = SerOpts::family();
        let d = ctx.tier.pick(2, 3);
        let trees = ds::small_trees(d);
        let mut idx = 0u64;
        let mut total = 0u64;
        for (t, v) in &trees {
            for o in &fam {
                idx += 1;
                total += 1;
                if ctx.mine(idx) {
                    let c = Case { ty: t.clone(), val: v.clone(), opts: o.clone() };
                    let nt = nontrivial(&c);
                    if o == &fam[0] {
                        record_matrix(ctx, &c);
                    }
                    ctx.case("exhaustive-small-trees", &c, nt);
                }
            }
        }
        ctx.subspace(&format!("fixed family of trees of depth <= {d} x 11 option vectors"), total, true);
        // ---------------- a block-scalar string below every chain of positions ---------------
        // (the indentation indicator and the body column of a block scalar depend on the whole
        // chain of positions above it: dash, key, variant label, struct-variant field ...)
        {
            const LEAVES: [&str; 6] = [" lead\nsecond\n", " word word word word word word word word word word word word word word word word word w\nnext line\n", "a\nb", "line\n", "two\nlines\n\n", "  two blanks\nx"];
            fn wrap(pos: usize, t: Ty, v: DV) -> (Ty, DV) {
                fn b<T>(x: T) -> Box<T> {
                    Box::new(x)
                }
                match pos {
                    0 => (Ty::Seq(b(t)), DV::Seq(vec![v])),
                    1 => (Ty::Map(b(Ty::Str), b(t)), DV::Map(vec![(DV::Str("k".into()), v)])),
                    2 => (Ty::Struct(vec![Ty::Int, t], false), DV::Struct(vec![DV::Int(1), v])),
                    3 => (Ty::Enum(vec![VK::Unit, VK::New(b(t))]), DV::Var(1, vec![v])),
                    4 => (Ty::Enum(vec![VK::Unit, VK::St(vec![Ty::Int, t])]), DV::Var(1, vec![DV::Int(7), v])),
                    5 => (Ty::Enum(vec![VK::Unit, VK::Tup(vec![Ty::Int, t])]), DV::Var(1, vec![DV::Int(7), v])),
                    6 => (Ty::Tuple(vec![Ty::Int, t]), DV::Seq(vec![DV::Int(7), v])),
                    _ => (Ty::Opt(b(t)), DV::Some(b(v))),
                }
            }
            let mut opt_sets = vec![];
            for indent in [2usize, 3, 4, 8] {
                for compact in [false, true] {
                    for wrap_w in [80usize, 8] {
                        opt_sets.push(SerOpts { indent, compact, wrap: wrap_w, ..SerOpts::default() });
                    }
                }
            }
            let max_len = ctx.tier.pick(4u32, 5u32);
            let mut idx = 0u64;
            for len in 1..=max_len {
                for code in 0..8u32.pow(len) {
                    let chain: Vec<usize> = (0..len).map(|i| ((code / 8u32.pow(i)) % 8) as usize).collect();
                    // (Option<Option<T>> has no YAML form of its own)
                    if chain.windows(2).any(|w| w[0] == 7 && w[1] == 7) {
                        continue;
                    }
                    for (li, leaf) in LEAVES.iter().enumerate() {
                        for (oi, o) in opt_sets.iter().enumerate() {
                            idx += 1;
                            if !ctx.mine(idx) {
                                continue;
                            }
                            // quick: one leaf per (chain, option set) in rotation; thorough: all
                            if ctx.tier.pick(true, false) && len == max_len && (code as usize + oi) % LEAVES.len() != li {
                                continue;
                            }
                            let (mut t, mut v) = (Ty::Str, DV::Str(leaf.to_string()));
                            for p in &chain {
                                let (t2, v2) = wrap(*p, t, v);
                                t = t2;
                                v = v2;
                            }
                            let c = Case { ty: t, val: v, opts: o.clone() };
                            ctx.case("block-string-below-position-chains", &c, true);
                        }
                    }
                }
            }
            ctx.subspace("chains of <= 4 (thorough 5) positions from {sequence item, map value, struct field, newtype / struct / tuple variant payload, tuple item, Some} above 6 block-scalar strings x indent {2,3,4,8} x compact x wrap {80,8} (quick: the longest chains with one leaf per option set in rotation)", idx, ctx.tier.pick(false, true));
        }

        // ---------------- values of every small shape behind a key longer than 1024 characters ----
        // (YAML limits implicit keys to 1024 characters: such a key needs the explicit `? key`
        // form, and the value behind it must still be laid out correctly)
        {
            let small = ds::small_trees(2);
            let mut idx = 0u64;
            for (ti, (vt, vv)) in small.iter().enumerate() {
                if ti % ctx.tier.pick(5usize, 1usize) != 0 {
                    continue;
                }
                for klen in [1024usize, 1025, 1400] {
                    for place in 0..3 {
                        for (oi, indent) in [2usize, 3, 4, 8].into_iter().enumerate() {
                            for compact in [false, true] {
                                idx += 1;
                                if !ctx.mine(idx) || (ctx.tier.pick(true, false) && (ti + oi + place) % 2 == 1) {
                                    continue;
                                }
                                let key = DV::Str("k".repeat(klen));
                                let inner_t = Ty::Map(Box::new(Ty::Str), Box::new(vt.clone()));
                                let inner_v = DV::Map(vec![(DV::Str("a".into()), vv.clone()), (key, vv.clone()), (DV::Str("z".into()), vv.clone())]);
                                let (t, v) = match place {
                                    0 => (inner_t, inner_v),
                                    1 => (Ty::Seq(Box::new(inner_t)), DV::Seq(vec![inner_v.clone(), inner_v])),
                                    _ => (Ty::Struct(vec![Ty::Int, inner_t], false), DV::Struct(vec![DV::Int(1), inner_v])),
                                };
                                let c = Case { ty: t, val: v, opts: SerOpts { indent, compact, ..SerOpts::default() } };
                                ctx.case("long-key-values", &c, true);
                            }
                        }
                    }
                }
            }
            ctx.subspace("small trees (quick: every fifth) as values behind keys of 1024 / 1025 / 1400 characters x 3 placements x indent {2,3,4,8} x compact", idx, ctx.tier.pick(false, true));
        }

        let strat = (ds::arb_typed(4), 0u32..(1 << 14)).prop_map(|((ty, val), ob)| Case { ty, val, opts: SerOpts::from_bits(ob) });
        ctx.run_strategy("random-trees", 1, ctx.tier.pick(150_000, 1_500_000), &strat, nontrivial);
        let strat = (ds::arb_typed(5),).prop_map(|((ty, val),)| Case { ty, val, opts: SerOpts::default() });
        ctx.run_strategy("random-trees-default-options", 2, ctx.tier.pick(150_000, 1_500_000), &strat, nontrivial);
    }
}

fn main() {
    engine::main::<C13>()
}

/// entry point of the libFuzzer target `fuzz/fuzz_targets/c13.rs`
#[allow(dead_code)]
pub fn fuzz(data: &[u8]) {
    engine::fuzz_one::<C13>(data)
}
