//! ad-hoc probe (not a check): `probe de` reads YAML on stdin and prints the untyped parse;
//! `probe events` prints raw parser events.
use std::io::Read;
use vcheck::untyped::U;
fn main() {
    let mode = std::env::args().nth(1).unwrap_or_default();
    let mut s = String::new();
    std::io::stdin().read_to_string(&mut s).unwrap();
    match mode.as_str() {
        "de" => match serde_saphyr::from_multiple::<U>(&s) {
            Ok(v) => println!("{:?}", v),
            Err(e) => println!("ERR {}", e),
        },
        "events" => {
            let p = saphyr_parser::Parser::new_from_str(&s);
            for e in p {
                println!("{:?}", e);
            }
        }
        "reader" => match serde_saphyr::from_reader::<_, U>(std::io::Cursor::new(s.as_bytes())) {
            Ok(v) => println!("{:?}", v),
            Err(e) => println!("ERR {}", e),
        },
        "i32" => match serde_saphyr::from_str::<std::collections::BTreeMap<String, i32>>(&s) {
            Ok(v) => println!("{:?}", v),
            Err(e) => println!("ERR {}", e),
        },
        "ignored" => match serde_saphyr::from_str::<serde::de::IgnoredAny>(&s) {
            Ok(_) => println!("ok"),
            Err(e) => println!("ERR {}", e.without_snippet()),
        },
        "maxdoc" => {
            let n: usize = std::env::args().nth(2).and_then(|x| x.parse().ok()).unwrap_or(1);
            let mut b = vcheck::opts::BudgetD::default_budget();
            b.max_documents = n;
            let o = vcheck::opts::DeOpts { budget: vcheck::opts::BudgetSel::Explicit(b), ..Default::default() };
            println!("from_str:      {:?}", serde_saphyr::from_str_with_options::<U>(&s, o.build()).map_err(|e| e.without_snippet().to_string()));
            println!("from_reader:   {:?}", serde_saphyr::from_reader_with_options::<_, U>(std::io::Cursor::new(s.as_bytes()), o.build()).map_err(|e| e.without_snippet().to_string()));
            println!("from_multiple: {:?}", serde_saphyr::from_multiple_with_options::<U>(&s, o.build()).map_err(|e| e.without_snippet().to_string()));
        }
        _ => eprintln!("probe de|events|reader|i32|maxdoc"),
    }
}
