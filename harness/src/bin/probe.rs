//! ad-hoc probe (not a check): `probe de` reads YAML on stdin and prints the untyped parse;
//! `probe events` prints raw parser events.
use std::io::Read;
use vcheck::untyped::U;
fn main() {
    let mode = std::env::args().nth(1).unwrap_or_default();
    let mut s = String::new();
    std::io::stdin().read_to_string(&mut s).unwrap();
    match mode.as_str() {
        "de" => match serde_saphyr::from_multiple::<U>(&s) {
            Ok(v) => println!("{:?}", v),
            Err(e) => println!("ERR {}", e),
        },
        "events" => {
            let p = saphyr_parser::Parser::new_from_str(&s);
            for e in p {
                println!("{:?}", e);
            }
        }
        _ => eprintln!("probe de|events"),
    }
}
