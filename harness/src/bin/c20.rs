//! C20 – presentation wrappers and serializer options change layout only, never data.
use proptest::prelude::*;
use serde::de::DeserializeSeed;
use serde::ser::{Serialize, SerializeMap, SerializeSeq, SerializeStruct, SerializeStructVariant, SerializeTuple, SerializeTupleStruct, SerializeTupleVariant, Serializer};
use serde::{Deserialize as De, Serialize as Se};
use std::cell::Cell;
use vcheck::dynschema::{self as ds, Ty, D, DV, FIELDS, S, VARS, VK};
use vcheck::engine::{self, Ctx, Outcome, Property};
use vcheck::opts::SerOpts;
use vcheck::untyped::U;

#[derive(Clone, Debug, Se, De, PartialEq, Eq, Hash)]
enum W {
    FlowSeq,
    FlowMap,
    Lit,
    Fold,
    Commented(String),
    SpaceAfter,
}

#[derive(Clone, Debug, Se, De)]
struct Case {
    ty: Ty,
    val: DV,
    /// (pre-order node index, wrappers outermost first)
    decor: Vec<(usize, Vec<W>)>,
    opts: SerOpts,
}

// ---------------- decorated serializer ----------------------------------------------------
struct SD<'a> {
    ty: &'a Ty,
    val: &'a DV,
    decor: &'a [(usize, Vec<W>)],
    counter: &'a Cell<usize>,
}
struct Node<'a> {
    sd: &'a SD<'a>,
    ws: &'a [W],
}
impl<'a> SD<'a> {
    fn child(&self, ty: &'a Ty, val: &'a DV) -> SD<'a> {
        SD { ty, val, decor: self.decor, counter: self.counter }
    }
}
impl<'a> Serialize for SD<'a> {
    fn serialize<Z: Serializer>(&self, s: Z) -> Result<Z::Ok, Z::Error> {
        let idx = self.counter.get();
        self.counter.set(idx + 1);
        let ws: &[W] = self.decor.iter().find(|(i, _)| *i == idx).map(|(_, w)| w.as_slice()).unwrap_or(&[]);
        Node { sd: self, ws }.serialize(s)
    }
}
impl<'a> Serialize for Node<'a> {
    fn serialize<Z: Serializer>(&self, s: Z) -> Result<Z::Ok, Z::Error> {
        if let Some((w, rest)) = self.ws.split_first() {
            let inner = Node { sd: self.sd, ws: rest };
            return match w {
                W::FlowSeq => serde_saphyr::FlowSeq(inner).serialize(s),
                W::FlowMap => serde_saphyr::FlowMap(inner).serialize(s),
                W::Commented(c) => serde_saphyr::Commented(inner, c.clone()).serialize(s),
                W::SpaceAfter => serde_saphyr::SpaceAfter(inner).serialize(s),
                W::Lit => match self.sd.val {
                    DV::Str(x) => serde_saphyr::LitStr(x).serialize(s),
                    _ => inner.serialize(s),
                },
                W::Fold => match self.sd.val {
                    DV::Str(x) => serde_saphyr::FoldStr(x).serialize(s),
                    _ => inner.serialize(s),
                },
            };
        }
        let me = self.sd;
        match (me.ty, me.val) {
            (Ty::Unit, DV::Unit) => s.serialize_unit(),
            (Ty::Bool, DV::Bool(b)) => s.serialize_bool(*b),
            (Ty::Int, DV::Int(i)) => s.serialize_i64(*i),
            (Ty::Str, DV::Str(x)) => s.serialize_str(x),
            (Ty::Opt(_), DV::None) => s.serialize_none(),
            (Ty::Opt(t), DV::Some(v)) => s.serialize_some(&me.child(t, v)),
            (Ty::Seq(t), DV::Seq(v)) => {
                let mut q = s.serialize_seq(Some(v.len()))?;
                for x in v {
                    q.serialize_element(&me.child(t, x))?;
                }
                q.end()
            }
            (Ty::Tuple(ts), DV::Seq(v)) => {
                let mut q = s.serialize_tuple(v.len())?;
                for (t, x) in ts.iter().zip(v) {
                    q.serialize_element(&me.child(t, x))?;
                }
                q.end()
            }
            (Ty::TS(ts), DV::Seq(v)) => {
                let mut q = s.serialize_tuple_struct("Ts", v.len())?;
                for (t, x) in ts.iter().zip(v) {
                    q.serialize_field(&me.child(t, x))?;
                }
                q.end()
            }
            (Ty::NT(t), DV::NT(v)) => s.serialize_newtype_struct("Nt", &me.child(t, v)),
            (Ty::Map(kt, vt), DV::Map(es)) => {
                let mut m = s.serialize_map(Some(es.len()))?;
                for (k, v) in es {
                    m.serialize_entry(&me.child(kt, k), &me.child(vt, v))?;
                }
                m.end()
            }
            (Ty::Struct(ts, _), DV::Struct(vs)) => {
                let mut m = s.serialize_struct("St", vs.len())?;
                for (i, (t, v)) in ts.iter().zip(vs).enumerate() {
                    m.serialize_field(FIELDS[i], &me.child(t, v))?;
                }
                m.end()
            }
            (Ty::Enum(vks), DV::Var(i, vs)) => match &vks[*i] {
                VK::Unit => s.serialize_unit_variant("En", *i as u32, VARS[*i]),
                VK::New(t) => s.serialize_newtype_variant("En", *i as u32, VARS[*i], &me.child(t, &vs[0])),
                VK::Tup(ts) => {
                    let mut q = s.serialize_tuple_variant("En", *i as u32, VARS[*i], vs.len())?;
                    for (t, x) in ts.iter().zip(vs) {
                        q.serialize_field(&me.child(t, x))?;
                    }
                    q.end()
                }
                VK::St(ts) => {
                    let mut q = s.serialize_struct_variant("En", *i as u32, VARS[*i], vs.len())?;
                    for (j, (t, x)) in ts.iter().zip(vs).enumerate() {
                        q.serialize_field(FIELDS[j], &me.child(t, x))?;
                    }
                    q.end()
                }
            },
            (t, v) => Err(serde::ser::Error::custom(format!("ty/value mismatch {:?} {:?}", t, v))),
        }
    }
}

// ---------------- ground truth -----------------------------------------------------------------
/// the untyped tree a reader must see for this value (computed by the harness, no library call).
/// `fold_idx`: pre-order indices of strings under the explicit folded wrapper.
fn truth(t: &Ty, v: &DV) -> U {
    match (t, v) {
        (Ty::Unit, _) | (_, DV::None) => U::Null,
        (Ty::Bool, DV::Bool(b)) => U::Bool(*b),
        (Ty::Int, DV::Int(i)) => U::Int(*i as i128),
        (Ty::Str, DV::Str(s)) => U::Str(s.clone()),
        (Ty::Opt(t), DV::Some(x)) | (Ty::NT(t), DV::NT(x)) => truth(t, x),
        (Ty::Seq(t), DV::Seq(x)) => U::Seq(x.iter().map(|y| truth(t, y)).collect()),
        (Ty::Tuple(ts), DV::Seq(x)) | (Ty::TS(ts), DV::Seq(x)) => U::Seq(ts.iter().zip(x).map(|(t, y)| truth(t, y)).collect()),
        (Ty::Map(kt, vt), DV::Map(es)) => U::Map(es.iter().map(|(k, y)| (truth(kt, k), truth(vt, y))).collect()),
        (Ty::Struct(ts, _), DV::Struct(x)) => U::Map(ts.iter().zip(x).enumerate().map(|(i, (t, y))| (U::s(FIELDS[i]), truth(t, y))).collect()),
        (Ty::Enum(vks), DV::Var(i, x)) => match &vks[*i] {
            VK::Unit => U::s(VARS[*i]),
            VK::New(t) => U::Map(vec![(U::s(VARS[*i]), truth(t, &x[0]))]),
            VK::Tup(ts) => U::Map(vec![(U::s(VARS[*i]), U::Seq(ts.iter().zip(x).map(|(t, y)| truth(t, y)).collect()))]),
            VK::St(ts) => U::Map(vec![(U::s(VARS[*i]), U::Map(ts.iter().zip(x).enumerate().map(|(j, (t, y))| (U::s(FIELDS[j]), truth(t, y))).collect()))]),
        },
        _ => U::Null,
    }
}

/// values with the folded strings normalised: one trailing line break is not significant
fn strip_fold(v: &DV, fold: &[usize], idx: &mut usize) -> DV {
    let me = *idx;
    *idx += 1;
    match v {
        DV::Str(s) if fold.contains(&me) => DV::Str(s.strip_suffix('\n').unwrap_or(s).to_string()),
        DV::Some(x) => DV::Some(Box::new(strip_fold(x, fold, idx))),
        DV::NT(x) => DV::NT(Box::new(strip_fold(x, fold, idx))),
        DV::Seq(x) => DV::Seq(x.iter().map(|y| strip_fold(y, fold, idx)).collect()),
        DV::Struct(x) => DV::Struct(x.iter().map(|y| strip_fold(y, fold, idx)).collect()),
        DV::Var(i, x) => DV::Var(*i, x.iter().map(|y| strip_fold(y, fold, idx)).collect()),
        DV::Map(es) => DV::Map(
            es.iter()
                .map(|(k, y)| {
                    let k2 = strip_fold(k, fold, idx);
                    let y2 = strip_fold(y, fold, idx);
                    (k2, y2)
                })
                .collect(),
        ),
        o => o.clone(),
    }
}

fn fold_indices(c: &Case) -> Vec<usize> {
    c.decor.iter().filter(|(_, ws)| ws.contains(&W::Fold)).map(|(i, _)| *i).collect()
}

/// shapes whose *bare* serialisation is already covered by open C13 findings (empty collections
/// under empty_as_braces=false, composite-key layouts, indent_step=1): not a wrapper matter
fn c13_known_shape(c: &Case) -> bool {
    (!c.opts.braces && ds::has_empty_collection(&c.ty, &c.val))
        // (any composite key: a wrapper inside or below such a key switches more nodes to the
        // explicit `? ` layout, where the open C13 findings live)
        || ds::sig_has_composite_key(&c.ty, &c.val)
        || ds::sig_complex_key_empty_key_hack(&c.ty, &c.val)
        || (c.opts.indent == 1 && ds::depth(&c.val) >= 2)
}

/// The wrapper types themselves (not the run-time `SD` serializer): one fixed document through
/// the derived impls. Marked by the decoration index `CONCRETE` in a case.
const CONCRETE: usize = 999_999;
fn concrete_round_trip() -> Result<(), String> {
    // concrete wrapped types: into the wrapped type
    let mut m = std::collections::BTreeMap::new();
    m.insert("k".to_string(), 1i64);
    let mut g = std::collections::BTreeMap::new();
    g.insert("a".to_string(), "b".to_string());
    let v = Concrete {
        seq: serde_saphyr::FlowSeq(vec![1, 2]),
        map: serde_saphyr::FlowMap(m),
        note: serde_saphyr::Commented("text".into(), "a comment".into()),
        gap: serde_saphyr::SpaceAfter(g),
        lit: serde_saphyr::LitString("l1\nl2\n".into()),
        fold: serde_saphyr::FoldString("folded words\n".into()),
        nested: serde_saphyr::SpaceAfter(serde_saphyr::Commented(serde_saphyr::FlowSeq(vec!["x".into()]), "c".into())),
        tail: 9,
    };
    let text = serde_saphyr::to_string(&v).map_err(|e| e.to_string())?;
    let back: Concrete = serde_saphyr::from_str(&text).map_err(|e| format!("concrete wrapped types rejected: {e} ({text:?})"))?;
    // comments are not read back
    let mut want = v.clone();
    want.note.1.clear();
    want.nested.0 .1.clear();
    if back != want {
        return Err(format!("concrete wrapped types read back as {back:?} ({text:?})"));
    }
    Ok(())
}

fn check_case(c: &Case) -> Outcome {
    if c.decor.first().is_some_and(|d| d.0 == CONCRETE) {
        return match concrete_round_trip() {
            Ok(()) => Outcome::Pass,
            Err(m) => Outcome::Fail(m),
        };
    }
    if ds::has_colliding_keys(&c.val) {
        // (not a document of the domain: two keys that are one key node for the reader)
        return Outcome::Discard("colliding-keys");
    }
    if c13_known_shape(c) {
        return Outcome::Discard("shape-with-open-C13-finding");
    }
    // the bare value must itself round-trip (otherwise it is a C12/C13 matter, not a wrapper matter)
    let bare = match serde_saphyr::to_string_with_options(&S(&c.ty, &c.val), c.opts.build()) {
        Ok(t) => t,
        Err(_) => return Outcome::Discard("bare-does-not-serialize"),
    };
    match serde_saphyr::with_deserializer_from_str(&bare, |d| D(&c.ty).deserialize(d)) {
        Ok(v) if v == c.val => {}
        _ => return Outcome::Discard("bare-does-not-round-trip (C12/C13)"),
    }
    let counter = Cell::new(0);
    let sd = SD { ty: &c.ty, val: &c.val, decor: &c.decor, counter: &counter };
    let text = match serde_saphyr::to_string_with_options(&sd, c.opts.build()) {
        Ok(t) => t,
        Err(e) => return Outcome::Fail(format!("serialization of the wrapped value failed: {e}")),
    };
    let fold = fold_indices(c);
    // (1) one document
    match serde_saphyr::from_multiple::<serde::de::IgnoredAny>(&text) {
        Ok(v) if v.len() <= 1 => {}
        Ok(v) => return Outcome::Fail(format!("wrapped value emitted as {} documents (emitted {text:?})", v.len())),
        Err(e) => return Outcome::Fail(format!("wrapped value emitted as malformed YAML: {} (emitted {text:?})", e.without_snippet())),
    }
    // (2) into the bare type: same data
    let want = strip_fold(&c.val, &fold, &mut 0);
    match serde_saphyr::with_deserializer_from_str(&text, |d| D(&c.ty).deserialize(d)) {
        Ok(v) => {
            let got = strip_fold(&v, &fold, &mut 0);
            if got != want {
                return Outcome::Fail(format!("wrapped value reads back as {v:?} (emitted {text:?}; without wrappers {bare:?})"));
            }
        }
        Err(e) => return Outcome::Fail(format!("wrapped value is rejected by the bare type: {} (emitted {text:?})", e.without_snippet())),
    }
    // (3) untyped view equals the harness' ground truth (no schema inference surprises: strings stay strings)
    if !c.opts.tagged && !c.opts.yaml12 {
        let t = truth(&c.ty, &want);
        match serde_saphyr::from_str::<U>(&text) {
            Ok(u) => {
                // folded strings: the reader may add the clip-chomping line break
                let u2 = normalise_fold(&u, &t);
                if u2 != t {
                    return Outcome::Fail(format!("untyped view of the wrapped value is {u:?}, expected {t:?} (emitted {text:?})"));
                }
            }
            Err(e) => return Outcome::Fail(format!("wrapped value rejected by an untyped reader: {} (emitted {text:?})", e.without_snippet())),
        }
    }
    Outcome::Pass
}

/// where `want` has a string s and `got` has s + "\n", accept (explicit folded wrapper, clip chomping)
fn normalise_fold(got: &U, want: &U) -> U {
    match (got, want) {
        (U::Str(g), U::Str(w)) if g.strip_suffix('\n') == Some(w.as_str()) => U::Str(w.clone()),
        // a field-less struct / struct variant may be written as an empty (null) node
        (U::Null, U::Map(w)) if w.is_empty() => U::Map(vec![]),
        (U::Seq(g), U::Seq(w)) if g.len() == w.len() => U::Seq(g.iter().zip(w).map(|(a, b)| normalise_fold(a, b)).collect()),
        (U::Map(g), U::Map(w)) if g.len() == w.len() => U::Map(g.iter().zip(w).map(|((gk, gv), (wk, wv))| (normalise_fold(gk, wk), normalise_fold(gv, wv))).collect()),
        (g, _) => g.clone(),
    }
}

// ---------------- concrete wrapped types (deserializing INTO the wrapped type) -----------------
#[derive(Se, De, Debug, PartialEq, Clone)]
struct Concrete {
    seq: serde_saphyr::FlowSeq<Vec<i64>>,
    map: serde_saphyr::FlowMap<std::collections::BTreeMap<String, i64>>,
    note: serde_saphyr::Commented<String>,
    gap: serde_saphyr::SpaceAfter<std::collections::BTreeMap<String, String>>,
    lit: serde_saphyr::LitString,
    fold: serde_saphyr::FoldString,
    nested: serde_saphyr::SpaceAfter<serde_saphyr::Commented<serde_saphyr::FlowSeq<Vec<String>>>>,
    tail: i64,
}

// ---------------- generation --------------------------------------------------------------------
const COMMENTS: [&str; 14] = [
    "plain comment", "# hash", "a\nb: 2", "x\ry: 2", "nel\u{85}z: 1", "ls\u{2028}k: v", "- item", "key: value", "'quote\" mix", "", " lead and trail ",
    "tab\there", "nul\0byte", "very long comment very long comment very long comment very long comment very long comment very long comment very long comment",
];
const BLOCK_STRINGS: [&str; 26] = [
    // (nothing but line breaks, two and more: these do round-trip, unlike "" and "\n")
    "\n\n", "\n\n\n", "\n\n\n\n",
    // (tabs next to the blanks at which a folded line may be broken)
    "aaaa bbbb \tcccc dddd eeee ffff", "\taaaa bbbb cccc dddd eeee", "aaaa\t bbbb cccc\t\tdddd eeee", "aa \t \tbb cc dd ee ff gg hh ii\n",
    // (single lines that start with blanks and are longer than the smaller wrap widths)
    "  leading blanks and then a long single line of words", " x y z w v u t s r q p", "   three  then  double  blanks  inside\n", "  lead\n", " a b\n\n",
    "line\n", "a\nb\n", "a\nb", "  leading blanks\nsecond\n", "trailing\n\n", "trailing\n\n\n", "word word word word word word word word word word word word word word word word word word word word word word word word averyveryveryveryveryveryveryveryveryveryveryveryveryveryveryveryverylongwordwithoutanyspace end\n", "tab\there\n", "x \ny\n", "\nstarts with break\n",
    "nul\0inside\n", "cr\rinside\n", "short", "",
];
/// choose wrappers for the nodes of (ty, val) from a script
fn decorate(ty: &Ty, val: &DV, script: &[u16], density: u16) -> Vec<(usize, Vec<W>)> {
    let mut out = vec![];
    let mut idx = 0usize;
    let mut si = 0usize;
    let next = |si: &mut usize| -> u16 {
        let v = if script.is_empty() { 0 } else { script[*si % script.len()] };
        *si += 1;
        v
    };
    ds::walk(ty, val, "root", &mut |t, v, pos| {
        let me = idx;
        idx += 1;
        if pos == "map-key" {
            return;
        }
        if next(&mut si) % 100 >= density {
            return;
        }
        let mut ws = vec![];
        let kind = ds::kind_name(t, v);
        let r = next(&mut si);
        if r % 3 == 0 {
            ws.push(W::Commented(COMMENTS[(next(&mut si) as usize) % COMMENTS.len()].to_string()));
        }
        if r % 5 == 0 {
            ws.push(W::SpaceAfter);
        }
        match kind {
            "seq" | "seq-empty" | "tuple" | "tuple-struct" => {
                if r % 2 == 0 {
                    ws.push(W::FlowSeq);
                }
            }
            "map" | "map-empty" | "struct" => {
                if r % 2 == 0 {
                    ws.push(W::FlowMap);
                }
            }
            "str" | "str-multiline" => match r % 4 {
                0 => ws.push(W::Lit),
                1 => ws.push(W::Fold),
                // (a flow hint around a value that is no collection must not outlive that value)
                2 if r % 8 == 2 => ws.push(W::FlowSeq),
                _ => {}
            },
            // a flow hint around a value that is no collection (None, unit, a number ...): it
            // has nothing to lay out and must not reach the next collection
            _ => match r % 6 {
                0 => ws.push(W::FlowSeq),
                1 => ws.push(W::FlowMap),
                _ => {}
            },
        }
        if !ws.is_empty() {
            out.push((me, ws));
        }
    });
    out
}

struct C20;

fn nontrivial(c: &Case) -> bool {
    c.decor.iter().any(|(i, ws)| *i > 0 || ws.iter().any(|w| matches!(w, W::Commented(s) if s.chars().any(|ch| !ch.is_ascii_alphanumeric() && ch != ' '))))
}

impl Property for C20 {
    const ID: &'static str = "C20";
    type Case = Case;
    fn rule() -> String {
        "cases = (run-time type, value, wrapper decoration, serializer options): values of the C13 grammar decorated at random nodes with FlowSeq / FlowMap / LitStr / FoldStr / Commented / SpaceAfter (nested wrappers, wrappers around containers); comments from a pool containing '#', line breaks (LF, CR, NEL, LS), YAML syntax ('key: value', '- item'), quotes, NUL, tabs, long text; literal / folded strings with leading blanks, 0-3 trailing newlines, very long words, tabs, control characters. Exhaustive: every comment x every scalar kind x 4 positions, every block string x {LitStr, FoldStr} x 4 positions x option family; LitStr / FoldStr below every chain of <= 3 (thorough 4) positions x indent x compact; flow wrappers around values that are no collections; random decorations of random trees x random options. Oracle: the wrapped output is one document; it deserializes into the bare run-time type as the original value, and its untyped view equals the harness' own ground-truth tree (strings under the explicit folded wrapper compared modulo one trailing line break); a fixed struct of concrete wrapped types (FlowSeq<Vec>, FlowMap<BTreeMap>, Commented<String>, SpaceAfter<BTreeMap>, LitString, FoldString, nested) round-trips into the wrapped types. Cases whose bare value does not itself round-trip are C12/C13 matters and are skipped (counted). Non-trivial: a wrapper below the root or adversarial comment content.".into()
    }
    fn assumptions() -> Vec<String> {
        vec!["the untyped comparison is skipped under tagged_enums / yaml_12 (reader configuration differs); typed comparison is always done".into()]
    }
    fn check(c: &Case) -> Outcome {
        check_case(c)
    }
    fn signatures(c: &Case) -> Vec<&'static str> {
        let mut v = vec![];
        // wrapper-specific findings
        let mut strings: Vec<(usize, &str)> = vec![];
        let mut idx = 0;
        ds::walk(&c.ty, &c.val, "root", &mut |_, v, _| {
            if let DV::Str(s) = v {
                strings.push((idx, s.as_str()));
            }
            idx += 1;
        });
        for (i, ws) in &c.decor {
            let s = strings.iter().find(|(j, _)| j == i).map(|(_, s)| *s);
            for w in ws {
                match (w, s) {
                    (W::Lit, Some(s)) | (W::Fold, Some(s)) if s.is_empty() || s == "\n" => v.push("litstr_only_newline"),
                    (W::Fold, Some(s)) => {
                        // documented: `>` folds inner line breaks (more than the trailing one)
                        let body = s.strip_suffix('\n').unwrap_or(s);
                        if body.contains('\n') {
                            v.push("foldstr_folds_inner_breaks");
                        }
                    }
                    (W::FlowSeq, _) | (W::FlowMap, _) => {
                        if let Some((nt, nv)) = ds::node_at(&c.ty, &c.val, *i) {
                            if ds::contains_payload_variant(nt, nv) {
                                v.push("flow_with_payload_variant");
                            }
                            if ds::sig_has_composite_key(nt, nv) {
                                v.push("flow_with_composite_key");
                            }
                        }
                    }
                    _ => {}
                }
            }
            // SpaceAfter over a string that is (or may be) emitted as a literal block scalar
            if ws.contains(&W::SpaceAfter) {
                if let Some(s) = s {
                    if ws.contains(&W::Lit) || s.ends_with("\n\n") {
                        v.push("spaceafter_on_keep_literal");
                    }
                }
            }
        }
        v
    }
    fn shrink(c: &Case) -> Vec<Case> {
        let mut out = vec![];
        for i in 0..c.decor.len() {
            let mut d = c.decor.clone();
            d.remove(i);
            out.push(Case { decor: d, ..c.clone() });
        }
        for i in 0..c.decor.len() {
            if c.decor[i].1.len() > 1 {
                for j in 0..c.decor[i].1.len() {
                    let mut d = c.decor.clone();
                    d[i].1.remove(j);
                    out.push(Case { decor: d, ..c.clone() });
                }
            }
        }
        let d = SerOpts::default();
        if c.opts != d {
            out.push(Case { opts: d, ..c.clone() });
        }
        out
    }
    fn selfcheck() -> Result<(), String> {
        vcheck::dynschema_selfcheck::run()?;
        Ok(())
    }
    /// libFuzzer input: option bits, decoration density and script, then type and value
    fn fuzz_decode(data: &[u8]) -> Option<(&'static str, Case, bool)> {
        let mut b = engine::Bytes::new(data);
        let opts = SerOpts::from_bits(b.u16() as u32);
        let density = b.pick(&[15u16, 35, 70]);
        let n = 8 + b.below(24);
        let script: Vec<u16> = (0..n).map(|_| b.u16()).collect();
        let ty = ds::ty_from_bytes(&mut b, 4);
        let val = ds::val_from_bytes(&mut b, &ty);
        let decor = decorate(&ty, &val, &script, density);
        let c = Case { ty, val, decor, opts };
        let nt = nontrivial(&c);
        Some(("fuzz-decorated", c, nt))
    }
    fn generate(ctx: &mut Ctx<Self>) {
        let fam = SerOpts::family();
        if ctx.worker == 0 {
            let c = Case { ty: Ty::Unit, val: DV::Unit, decor: vec![(CONCRETE, vec![])], opts: SerOpts::default() };
            ctx.case("concrete-wrapper-types", &c, true);
        }
        // (a) every comment on every scalar kind in 4 positions
        let scalars: Vec<(Ty, DV)> = vec![
            (Ty::Int, DV::Int(5)),
            (Ty::Bool, DV::Bool(false)),
            (Ty::Str, DV::Str("text".into())),
            (Ty::Str, DV::Str("".into())),
            (Ty::Unit, DV::Unit),
            (Ty::Enum(vec![VK::Unit]), DV::Var(0, vec![])),
            (Ty::Str, DV::Str("two\nlines\n".into())),
        ];
        let place = |t: &Ty, v: &DV, p: usize| -> (Ty, DV, usize) {
            // returns (type, value, index of the decorated node)
            match p {
                0 => (t.clone(), v.clone(), 0),
                1 => (Ty::Seq(Box::new(t.clone())), DV::Seq(vec![v.clone(), v.clone()]), 1),
                2 => (Ty::Struct(vec![t.clone(), Ty::Int], false), DV::Struct(vec![v.clone(), DV::Int(2)]), 1),
                _ => (Ty::Seq(Box::new(Ty::Struct(vec![Ty::Int, t.clone()], false))), DV::Seq(vec![DV::Struct(vec![DV::Int(1), v.clone()]), DV::Struct(vec![DV::Int(3), v.clone()])]), 3),
            }
        };
        let mut idx = 0u64;
        let mut total = 0u64;
        for (t, v) in &scalars {
            for cm in COMMENTS.iter() {
                for p in 0..4 {
                    for (oi, o) in fam.iter().enumerate() {
                        for extra in 0..2 {
                            idx += 1;
                            total += 1;
                            if !ctx.mine(idx) {
                                continue;
                            }
                            let (ty, val, at) = place(t, v, p);
                            let mut ws = vec![W::Commented(cm.to_string())];
                            if extra == 1 {
                                ws.insert(0, W::SpaceAfter);
                            }
                            let c = Case { ty, val, decor: vec![(at, ws)], opts: o.clone() };
                            let _ = oi;
                            let nt = nontrivial(&c);
                            ctx.case("comments-exhaustive", &c, nt);
                        }
                    }
                }
            }
        }
        // (b) every block string x {Lit, Fold} x positions x options
        for s in BLOCK_STRINGS.iter() {
            for w in [W::Lit, W::Fold] {
                for p in 0..4 {
                    for o in fam.iter() {
                        for extra in 0..3 {
                            idx += 1;
                            total += 1;
                            if !ctx.mine(idx) {
                                continue;
                            }
                            let (ty, val, at) = place(&Ty::Str, &DV::Str(s.to_string()), p);
                            let mut ws = vec![w.clone()];
                            match extra {
                                1 => ws.insert(0, W::SpaceAfter),
                                2 => ws.insert(0, W::Commented("note".into())),
                                _ => {}
                            }
                            let c = Case { ty, val, decor: vec![(at, ws)], opts: o.clone() };
                            ctx.case("block-strings-exhaustive", &c, true);
                        }
                    }
                }
            }
        }
        ctx.subspace("comment pool x scalar kinds x 4 positions x option family x {plain, +SpaceAfter}; block-string pool x {LitStr, FoldStr} x 4 positions x option family x 3 wrapper stacks", total, true);
        // (b1) a LitStr / FoldStr string below every chain of positions (the indentation indicator
        // and the body column of a block scalar depend on the whole chain above it)
        {
            const LEAVES: [&str; 5] = [" lead\nsecond\n", "a\nb", "line\n", "  two blanks", "plain words that are long enough to be folded when the width is small"];
            fn bx<T>(x: T) -> Box<T> {
                Box::new(x)
            }
            fn wrap(pos: usize, t: Ty, v: DV) -> (Ty, DV) {
                match pos {
                    0 => (Ty::Seq(bx(t)), DV::Seq(vec![v])),
                    1 => (Ty::Map(bx(Ty::Str), bx(t)), DV::Map(vec![(DV::Str("k".into()), v)])),
                    2 => (Ty::Struct(vec![Ty::Int, t], false), DV::Struct(vec![DV::Int(1), v])),
                    3 => (Ty::Enum(vec![VK::Unit, VK::New(bx(t))]), DV::Var(1, vec![v])),
                    4 => (Ty::Enum(vec![VK::Unit, VK::St(vec![Ty::Int, t])]), DV::Var(1, vec![DV::Int(7), v])),
                    5 => (Ty::Enum(vec![VK::Unit, VK::Tup(vec![Ty::Int, t])]), DV::Var(1, vec![DV::Int(7), v])),
                    6 => (Ty::Tuple(vec![Ty::Int, t]), DV::Seq(vec![DV::Int(7), v])),
                    _ => (Ty::Opt(bx(t)), DV::Some(bx(v))),
                }
            }
            let mut opt_sets = vec![];
            for indent in [2usize, 3, 4, 8] {
                for compact in [false, true] {
                    opt_sets.push(SerOpts { indent, compact, ..SerOpts::default() });
                }
            }
            let max_len = ctx.tier.pick(3u32, 4u32);
            let mut idx3 = 0u64;
            for len in 1..=max_len {
                for code in 0..8u32.pow(len) {
                    let chain: Vec<usize> = (0..len).map(|i| ((code / 8u32.pow(i)) % 8) as usize).collect();
                    if chain.windows(2).any(|w| w[0] == 7 && w[1] == 7) {
                        continue;
                    }
                    for leaf in LEAVES.iter() {
                        for o in opt_sets.iter() {
                            for w in [W::Lit, W::Fold] {
                                idx3 += 1;
                                if !ctx.mine(idx3) {
                                    continue;
                                }
                                let (mut t, mut v) = (Ty::Str, DV::Str(leaf.to_string()));
                                for p in &chain {
                                    let (t2, v2) = wrap(*p, t, v);
                                    t = t2;
                                    v = v2;
                                }
                                // pre-order index of the leaf
                                let mut at = None;
                                let mut i = 0usize;
                                ds::walk(&t, &v, "root", &mut |_, x, _| {
                                    if matches!(x, DV::Str(s) if s == leaf) {
                                        at = Some(i);
                                    }
                                    i += 1;
                                });
                                let c = Case { ty: t.clone(), val: v.clone(), decor: vec![(at.unwrap_or(0), vec![w.clone()])], opts: o.clone() };
                                ctx.case("block-wrapper-below-position-chains", &c, true);
                            }
                        }
                    }
                }
            }
            ctx.subspace("chains of <= 3 (thorough 4) positions from {sequence item, map value, struct field, newtype / struct / tuple variant payload, tuple item, Some} above 5 strings x {LitStr, FoldStr} x indent {2,3,4,8} x compact", idx3, true);
        }
        // (b2) flow wrappers nested inside flow wrappers, followed by a block-style collection whose
        // items only have a block form: a hint that is not consumed where it belongs leaks to the
        // next collection (found by the thorough tier, fixed in 1f8cc1e; kept as a fixed family
        // because random decoration reaches it only rarely)
        {
            let mut idx2 = 0u64;
            for depth in 2..=4usize {
                for y in 0..4 {
                    for o in fam.iter() {
                        idx2 += 1;
                        if !ctx.mine(idx2) {
                            continue;
                        }
                        // first element: `depth` nested sequences around an integer, every level FlowSeq
                        let mut xt = Ty::Int;
                        let mut xv = DV::Int(1);
                        for _ in 0..depth {
                            xt = Ty::Seq(Box::new(xt));
                            xv = DV::Seq(vec![xv]);
                        }
                        let (yt, yv) = match y {
                            0 => (Ty::Seq(Box::new(Ty::Enum(vec![VK::Unit, VK::St(vec![Ty::Int])]))), DV::Seq(vec![DV::Var(1, vec![DV::Int(7)])])),
                            1 => (Ty::Seq(Box::new(Ty::Enum(vec![VK::New(Box::new(Ty::Seq(Box::new(Ty::Int))))]))), DV::Seq(vec![DV::Var(0, vec![DV::Seq(vec![DV::Int(7), DV::Int(8)])])])),
                            2 => (Ty::Map(Box::new(Ty::Str), Box::new(Ty::Enum(vec![VK::Tup(vec![Ty::Int, Ty::Int])]))), DV::Map(vec![(DV::Str("ab".into()), DV::Var(0, vec![DV::Int(1), DV::Int(2)]))])),
                            _ => (Ty::Seq(Box::new(Ty::Struct(vec![Ty::Enum(vec![VK::St(vec![Ty::Str])])], false))), DV::Seq(vec![DV::Struct(vec![DV::Var(0, vec![DV::Str("ab".into())])])])),
                        };
                        let decor: Vec<(usize, Vec<W>)> = (1..=depth).map(|i| (i, vec![W::FlowSeq])).collect();
                        let c = Case { ty: Ty::Tuple(vec![xt, yt]), val: DV::Seq(vec![xv, yv]), decor, opts: o.clone() };
                        ctx.case("nested-flow-then-block", &c, true);
                    }
                }
            }
            ctx.subspace("FlowSeq nested 2-4 deep, followed by 4 block-only collections, x option family", idx2, true);
        }
        // (c) random decorations of random trees
        let strat = (ds::arb_typed(4), prop::collection::vec(any::<u16>(), 8..48), prop::sample::select(vec![15u16, 35, 70]), 0u32..(1 << 14)).prop_map(|((ty, val), script, density, ob)| {
            let decor = decorate(&ty, &val, &script, density);
            Case { ty, val, decor, opts: SerOpts::from_bits(ob) }
        });
        ctx.run_strategy("random-decorated", 1, ctx.tier.pick(120_000, 1_000_000), &strat, nontrivial);
        let strat = (ds::arb_typed(4), prop::collection::vec(any::<u16>(), 8..48), prop::sample::select(vec![25u16, 60])).prop_map(|((ty, val), script, density)| {
            let decor = decorate(&ty, &val, &script, density);
            Case { ty, val, decor, opts: SerOpts::default() }
        });
        ctx.run_strategy("random-decorated-default-options", 2, ctx.tier.pick(120_000, 1_000_000), &strat, nontrivial);
    }
}

fn main() {
    engine::main::<C20>()
}

/// entry point of the libFuzzer target `fuzz/fuzz_targets/c20.rs`
#[allow(dead_code)]
pub fn fuzz(data: &[u8]) {
    engine::fuzz_one::<C20>(data)
}
