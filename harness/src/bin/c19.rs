//! C19 – robotics expressions evaluate totally and exactly; plain numbers are unchanged.
//!
//! Model sources (every `Must` rule cites one):
//!   [MD]  module docs at the top of /repo/src/robotics.rs
//!   [RM]  README.md section "Robotics"
//!   [IT]  /repo/tests/robotics.rs (end-to-end test: formulas `degs * (PI / 180.0)`, time default)
//!   [UT]  unit tests inside src/robotics.rs (error examples, `deg ( 180 )`, `-- 1`, ...)
//!   [PT]  the property text in /verif/properties.jsonl
use proptest::prelude::*;
use serde::de::DeserializeOwned;
use serde::{Deserialize, Serialize};
use std::alloc::{GlobalAlloc, Layout, System};
use std::cell::{Cell, RefCell};
use std::collections::BTreeMap;
use vcheck::engine::{self, Caught, Ctx, Outcome, Property, Tier};
use vcheck::opts::{BudgetSel, DeOpts};

// ------------------------------------------------------------------------------------------
// counting allocator (per thread; used for the work bound – never a clock)

thread_local! {
    static A_CALLS: Cell<u64> = const { Cell::new(0) };
    static A_BYTES: Cell<u64> = const { Cell::new(0) };
}
struct Counting;
unsafe impl GlobalAlloc for Counting {
    unsafe fn alloc(&self, l: Layout) -> *mut u8 {
        let _ = A_CALLS.try_with(|c| c.set(c.get() + 1));
        let _ = A_BYTES.try_with(|c| c.set(c.get() + l.size() as u64));
        unsafe { System.alloc(l) }
    }
    unsafe fn dealloc(&self, p: *mut u8, l: Layout) {
        unsafe { System.dealloc(p, l) }
    }
    unsafe fn realloc(&self, p: *mut u8, l: Layout, n: usize) -> *mut u8 {
        let _ = A_CALLS.try_with(|c| c.set(c.get() + 1));
        let _ = A_BYTES.try_with(|c| c.set(c.get() + n as u64));
        unsafe { System.realloc(p, l, n) }
    }
}
#[global_allocator]
static GLOBAL: Counting = Counting;
fn alloc_reset() {
    A_CALLS.with(|c| c.set(0));
    A_BYTES.with(|c| c.set(0));
}
fn alloc_read() -> (u64, u64) {
    (A_CALLS.with(|c| c.get()), A_BYTES.with(|c| c.get()))
}

// ------------------------------------------------------------------------------------------
// expression AST (mirrors the grammar `expr := term (('+'|'-') term)*`, `term := unary
// (('*'|'/') unary)*`, `unary := sign* primary` so that the text is a function of the tree and
// the tree fixes precedence and left associativity by construction)

const WS: [&str; 7] = ["", " ", "  ", "\t", "\n", "\r", " \t "];
type Ws = u8;

#[derive(Clone, Debug, Serialize, Deserialize, PartialEq)]
struct Expr {
    first: Term,
    rest: Vec<(Ws, bool, Term)>, // ws before the operator; true = '-', false = '+'
}
#[derive(Clone, Debug, Serialize, Deserialize, PartialEq)]
struct Term {
    first: Unary,
    rest: Vec<(Ws, bool, Unary)>, // true = '/', false = '*'
}
#[derive(Clone, Debug, Serialize, Deserialize, PartialEq)]
struct Unary {
    lead: Ws,
    signs: Vec<(bool, Ws)>, // (negative?, whitespace after the sign)
    prim: Prim,
}
#[derive(Clone, Debug, Serialize, Deserialize, PartialEq)]
enum Prim {
    Num(Num),
    Const(Konst, u8),
    Sexa(Sexa),
    Paren(Box<Expr>, Ws),
    Func(bool, Ws, Box<Expr>, Ws), // true = deg, false = rad; ws before '(' ; ws before ')'
}
/// number token: digit groups may contain single underscores between digits
#[derive(Clone, Debug, Serialize, Deserialize, PartialEq)]
struct Num {
    int: String,
    dot: bool,
    frac: String,
    exp: Option<(bool, u8, String)>, // (upper-case E?, 0 none / 1 '+' / 2 '-', digits)
}
#[derive(Clone, Copy, Debug, Serialize, Deserialize, PartialEq)]
enum Konst {
    Pi,
    Tau,
    Inf,
    Nan,
    DotInf,
    DotNan,
}
#[derive(Clone, Debug, Serialize, Deserialize, PartialEq)]
struct Sexa {
    d: String,
    m: String,
    s: Option<String>,
    frac: Option<String>,
}

fn digit_group_ok(s: &str, allow_empty: bool) -> bool {
    if s.is_empty() {
        return allow_empty;
    }
    let b = s.as_bytes();
    if !b[0].is_ascii_digit() || !b[b.len() - 1].is_ascii_digit() {
        return false;
    }
    let mut prev_us = false;
    for &c in b {
        if c == b'_' {
            if prev_us {
                return false;
            }
            prev_us = true;
        } else if c.is_ascii_digit() {
            prev_us = false;
        } else {
            return false;
        }
    }
    true
}
fn plain_digits(s: &str) -> bool {
    !s.is_empty() && s.bytes().all(|c| c.is_ascii_digit())
}

impl Num {
    fn valid(&self) -> bool {
        if !digit_group_ok(&self.int, true) || !digit_group_ok(&self.frac, true) {
            return false;
        }
        if !self.dot && !self.frac.is_empty() {
            return false;
        }
        if self.int.is_empty() && self.frac.is_empty() {
            return false;
        }
        if let Some((_, s, d)) = &self.exp {
            if *s > 2 || !digit_group_ok(d, false) {
                return false;
            }
        }
        true
    }
    fn render(&self, o: &mut String) {
        o.push_str(&self.int);
        if self.dot {
            o.push('.');
            o.push_str(&self.frac);
        }
        if let Some((up, s, d)) = &self.exp {
            o.push(if *up { 'E' } else { 'e' });
            match s {
                1 => o.push('+'),
                2 => o.push('-'),
                _ => {}
            }
            o.push_str(d);
        }
    }
    fn digits(&self) -> usize {
        let c = |s: &str| s.bytes().filter(|c| c.is_ascii_digit()).count();
        c(&self.int) + c(&self.frac) + self.exp.as_ref().map(|e| c(&e.2)).unwrap_or(0)
    }
    fn has_underscore(&self) -> bool {
        self.int.contains('_') || self.frac.contains('_') || self.exp.as_ref().is_some_and(|e| e.2.contains('_'))
    }
    /// [MD] "underscores between digits are allowed in numbers and exponents"; the value of the
    /// token is the IEEE value of the spelling without the separators (std's correctly rounded
    /// decimal conversion is the reference).
    fn value(&self) -> f64 {
        let mut s = String::new();
        self.render(&mut s);
        s.retain(|c| c != '_');
        s.parse::<f64>().expect("harness: number token does not parse")
    }
    fn simple(s: &str) -> Num {
        Num { int: s.to_string(), dot: false, frac: String::new(), exp: None }
    }
}
impl Konst {
    fn word(self) -> &'static str {
        match self {
            Konst::Pi => "pi",
            Konst::Tau => "tau",
            Konst::Inf => "inf",
            Konst::Nan => "nan",
            Konst::DotInf => ".inf",
            Konst::DotNan => ".nan",
        }
    }
    fn render(self, mask: u8, o: &mut String) {
        for (i, ch) in self.word().chars().enumerate() {
            if mask & (1 << i) != 0 {
                o.push(ch.to_ascii_uppercase());
            } else {
                o.push(ch);
            }
        }
    }
    fn value(self) -> f64 {
        match self {
            Konst::Pi => std::f64::consts::PI,
            Konst::Tau => 2.0 * std::f64::consts::PI,
            Konst::Inf | Konst::DotInf => f64::INFINITY,
            Konst::Nan | Konst::DotNan => f64::NAN,
        }
    }
}
impl Sexa {
    fn valid(&self) -> bool {
        let f = |s: &String| plain_digits(s) && s.len() <= 2 && s.parse::<u32>().unwrap() <= 59;
        plain_digits(&self.d)
            && self.d.len() <= 22
            && f(&self.m)
            && self.s.as_ref().is_none_or(f)
            && (self.frac.is_none() || self.s.is_some())
            && self.frac.as_ref().is_none_or(|x| plain_digits(x) && x.len() <= 15)
    }
    fn render(&self, o: &mut String) {
        o.push_str(&self.d);
        o.push(':');
        o.push_str(&self.m);
        if let Some(s) = &self.s {
            o.push(':');
            o.push_str(s);
            if let Some(f) = &self.frac {
                o.push('.');
                o.push_str(f);
            }
        }
    }
    fn parts(&self) -> (f64, f64, f64) {
        // (the field is one decimal number: correctly rounded also above 2^53)
        let d: f64 = self.d.parse::<f64>().unwrap();
        let m: f64 = self.m.parse::<u32>().unwrap() as f64;
        let mut s: f64 = self.s.as_ref().map(|x| x.parse::<u32>().unwrap() as f64).unwrap_or(0.0);
        if let (Some(whole), Some(f)) = (&self.s, &self.frac) {
            // [IT] `53.2 / 3600.0`: the seconds field `SS.fff` is one decimal literal, correctly
            // rounded (not whole seconds + fraction, which rounds twice)
            s = format!("{whole}.{f}").parse::<f64>().unwrap();
        }
        (d, m, s)
    }
    /// [IT] `let degs = 8.0 + 32.0 / 60.0 + 53.2 / 3600.0`
    fn degrees(&self) -> f64 {
        let (d, m, s) = self.parts();
        d + m / 60.0 + s / 3600.0
    }
    /// [IT] "-01:02:03 => -(1*3600 + 2*60 + 3) seconds", [RM] "hh_mm_secs: -0:30:30.5 # Time"
    fn seconds(&self) -> f64 {
        let (d, m, s) = self.parts();
        d * 3600.0 + m * 60.0 + s
    }
}

fn r_expr(e: &Expr, o: &mut String) {
    r_term(&e.first, o);
    for (w, minus, t) in &e.rest {
        o.push_str(WS[*w as usize % 7]);
        o.push(if *minus { '-' } else { '+' });
        r_term(t, o);
    }
}
fn r_term(t: &Term, o: &mut String) {
    r_unary(&t.first, o);
    for (w, div, u) in &t.rest {
        o.push_str(WS[*w as usize % 7]);
        o.push(if *div { '/' } else { '*' });
        r_unary(u, o);
    }
}
fn r_unary(u: &Unary, o: &mut String) {
    o.push_str(WS[u.lead as usize % 7]);
    for (neg, w) in &u.signs {
        o.push(if *neg { '-' } else { '+' });
        o.push_str(WS[*w as usize % 7]);
    }
    match &u.prim {
        Prim::Num(n) => n.render(o),
        Prim::Const(k, m) => k.render(*m, o),
        Prim::Sexa(s) => s.render(o),
        Prim::Paren(e, w) => {
            o.push('(');
            r_expr(e, o);
            o.push_str(WS[*w as usize % 7]);
            o.push(')');
        }
        Prim::Func(deg, w1, e, w2) => {
            o.push_str(if *deg { "deg" } else { "rad" });
            o.push_str(WS[*w1 as usize % 7]);
            o.push('(');
            r_expr(e, o);
            o.push_str(WS[*w2 as usize % 7]);
            o.push(')');
        }
    }
}
fn render(e: &Expr, trail: Ws) -> String {
    let mut o = String::new();
    r_expr(e, &mut o);
    o.push_str(WS[trail as usize % 7]);
    o
}

fn valid_expr(e: &Expr) -> bool {
    fn u(x: &Unary) -> bool {
        match &x.prim {
            Prim::Num(n) => n.valid(),
            Prim::Sexa(s) => s.valid(),
            Prim::Const(..) => true,
            Prim::Paren(e, _) => valid_expr(e),
            Prim::Func(_, _, e, _) => valid_expr(e),
        }
    }
    fn t(x: &Term) -> bool {
        u(&x.first) && x.rest.iter().all(|r| u(&r.2))
    }
    t(&e.first) && e.rest.iter().all(|r| t(&r.2))
}

// ------------------------------------------------------------------------------------------
// features of an expression (evidence classes, non-triviality)

#[derive(Default, Clone, Debug)]
struct Feat {
    add: u32,
    mul: u32,
    deg: u32,
    rad: u32,
    sexa: u32,
    paren_depth: u32,
    signs: u32,
    consts: u32,
    nums: u32,
    underscore: u32,
    exponent: u32,
    ws: u32,
    ws_ctl: u32,
}
fn feat_expr(e: &Expr, depth: u32, f: &mut Feat) {
    f.add += e.rest.len() as u32;
    feat_term(&e.first, depth, f);
    for (w, _, t) in &e.rest {
        feat_ws(*w, f);
        feat_term(t, depth, f);
    }
}
fn feat_ws(w: Ws, f: &mut Feat) {
    let w = w % 7;
    if w != 0 {
        f.ws += 1;
    }
    if w >= 3 {
        f.ws_ctl += 1;
    }
}
fn feat_term(t: &Term, depth: u32, f: &mut Feat) {
    f.mul += t.rest.len() as u32;
    feat_unary(&t.first, depth, f);
    for (w, _, u) in &t.rest {
        feat_ws(*w, f);
        feat_unary(u, depth, f);
    }
}
fn feat_unary(u: &Unary, depth: u32, f: &mut Feat) {
    feat_ws(u.lead, f);
    f.signs += u.signs.len() as u32;
    for s in &u.signs {
        feat_ws(s.1, f);
    }
    match &u.prim {
        Prim::Num(n) => {
            f.nums += 1;
            if n.has_underscore() {
                f.underscore += 1;
            }
            if n.exp.is_some() {
                f.exponent += 1;
            }
        }
        Prim::Const(..) => f.consts += 1,
        Prim::Sexa(_) => f.sexa += 1,
        Prim::Paren(e, w) => {
            feat_ws(*w, f);
            f.paren_depth = f.paren_depth.max(depth + 1);
            feat_expr(e, depth + 1, f);
        }
        Prim::Func(d, w1, e, w2) => {
            feat_ws(*w1, f);
            feat_ws(*w2, f);
            if *d {
                f.deg += 1
            } else {
                f.rad += 1
            }
            f.paren_depth = f.paren_depth.max(depth + 1);
            feat_expr(e, depth + 1, f);
        }
    }
}

// ------------------------------------------------------------------------------------------
// reference evaluator over the AST

#[derive(Clone, Copy, Debug, Serialize, Deserialize, PartialEq, Eq)]
enum Tag {
    None,
    Degrees,
    Radians,
    Float,  // `!!float` – behaviour with the option on is not documented: Free
    Custom, // `!mytag`  – Free
}
impl Tag {
    fn text(self) -> &'static str {
        match self {
            Tag::None => "",
            Tag::Degrees => "!degrees ",
            Tag::Radians => "!radians ",
            Tag::Float => "!!float ",
            Tag::Custom => "!mytag ",
        }
    }
}

const DEG2RAD: f64 = std::f64::consts::PI / 180.0; // [IT] `degs * (PI / 180.0)`

#[derive(Default, Debug)]
struct Flags {
    /// the docs do not fix the value (nested unit functions, sexagesimal inside rad(), other tags)
    free_value: Vec<&'static str>,
    /// the docs do not fix acceptance, but an accepted value must be exact
    free_accept: Vec<&'static str>,
}
#[derive(Clone, Copy)]
struct Cx {
    tag: Tag,
    in_func: Option<bool>,
    /// untagged sexagesimal outside a unit function: [RM]/[IT] say time (seconds), [MD] says
    /// "Sexagesimal degrees ... converted to radians" – both readings are accepted
    sexa_angle: bool,
}
struct Sem {
    v: f64,
    unit: bool,
    bare: bool,
}
fn ev_expr(e: &Expr, cx: Cx, fl: &mut Flags) -> Sem {
    let mut a = ev_term(&e.first, cx, fl);
    for (_, minus, t) in &e.rest {
        let b = ev_term(t, cx, fl);
        a.v = if *minus { a.v - b.v } else { a.v + b.v };
        a.unit |= b.unit;
        a.bare |= b.bare;
    }
    a
}
fn ev_term(t: &Term, cx: Cx, fl: &mut Flags) -> Sem {
    let mut a = ev_unary(&t.first, cx, fl);
    for (_, div, u) in &t.rest {
        let b = ev_unary(u, cx, fl);
        a.v = if *div { a.v / b.v } else { a.v * b.v };
        a.unit |= b.unit;
        a.bare |= b.bare;
    }
    a
}
fn ev_unary(u: &Unary, cx: Cx, fl: &mut Flags) -> Sem {
    let mut a = ev_prim(&u.prim, cx, fl);
    let n = u.signs.len();
    for (i, (neg, w)) in u.signs.iter().enumerate() {
        if *neg {
            a.v = -a.v;
        }
        // [UT] "-- 1" (blank between the last sign and the operand) is accepted; blanks between
        // two signs are not covered by any document
        if i + 1 < n && *w % 7 != 0 {
            fl.free_accept.push("blank between unary signs");
        }
    }
    a
}
fn ev_prim(p: &Prim, cx: Cx, fl: &mut Flags) -> Sem {
    match p {
        Prim::Num(n) => {
            if n.digits() > 1000 {
                fl.free_accept.push("more than 1000 digits");
            }
            Sem { v: n.value(), unit: false, bare: true }
        }
        Prim::Const(k, _) => Sem { v: k.value(), unit: false, bare: true },
        Prim::Sexa(s) => {
            let v = match cx.in_func {
                // [IT] `deg(8:32:53.2)` == degs * PI/180: inside deg() the literal is a number of degrees
                Some(true) => s.degrees(),
                Some(false) => {
                    fl.free_value.push("sexagesimal inside rad()");
                    s.degrees()
                }
                None => match cx.tag {
                    // [IT] `!degrees 8:32:53.2` and `!radians 8:32:53.2` == degs * PI/180
                    Tag::Degrees | Tag::Radians => s.degrees() * DEG2RAD,
                    Tag::None => {
                        if cx.sexa_angle {
                            s.degrees() * DEG2RAD
                        } else {
                            s.seconds()
                        }
                    }
                    _ => {
                        fl.free_value.push("sexagesimal under another tag");
                        s.seconds()
                    }
                },
            };
            // [MD] "Unitized inputs (deg(...), rad(...), sexagesimal) override tag-based conversion"
            Sem { v, unit: true, bare: false }
        }
        Prim::Paren(e, _) => ev_expr(e, cx, fl),
        Prim::Func(deg, _, e, _) => {
            if cx.in_func.is_some() {
                fl.free_value.push("nested unit functions");
            }
            let inner = ev_expr(e, Cx { in_func: Some(*deg), ..cx }, fl);
            // [MD] deg(<expr>) interpret as degrees, convert to radians; rad(<expr>) no conversion
            let v = if *deg { inner.v * DEG2RAD } else { inner.v };
            Sem { v, unit: true, bare: false }
        }
    }
}

/// what the option-on evaluation of a scalar must deliver
#[derive(Debug)]
enum Exp {
    /// accepted, value one of these (f64 before the conversion to the target)
    Ok(Vec<f64>),
    Err,
    /// acceptance not fixed; if accepted the value must be one of these
    IfOk(Vec<f64>),
    Free,
}

fn oracle(e: &Expr, tag: Tag) -> (Exp, Flags) {
    let mut fl = Flags::default();
    let mut vals = vec![];
    let mut verdict_err = false;
    for alt in [false, true] {
        let mut f2 = Flags::default();
        let s = ev_expr(e, Cx { tag, in_func: None, sexa_angle: alt }, &mut f2);
        if !alt {
            fl = f2;
        }
        match tag {
            Tag::Degrees => {
                if !s.unit {
                    // [MD] "If no deg/rad is used, SfTag::Degrees converts to radians."
                    vals.push(s.v * DEG2RAD);
                } else if s.bare {
                    // [MD] "mixing unitized inputs with bare terms under SfTag::Degrees is rejected"
                    verdict_err = true;
                } else {
                    vals.push(s.v);
                }
            }
            // [MD] "SfTag::Radians leaves values as-is."
            Tag::Radians | Tag::None => vals.push(s.v),
            Tag::Float | Tag::Custom => {
                vals.push(s.v);
                if alt {
                    fl.free_value.push("tag other than !degrees / !radians");
                }
            }
        }
    }
    let exp = if !fl.free_value.is_empty() {
        Exp::Free
    } else if verdict_err {
        if fl.free_accept.is_empty() { Exp::Err } else { Exp::Free }
    } else if !fl.free_accept.is_empty() {
        Exp::IfOk(vals)
    } else {
        Exp::Ok(vals)
    };
    (exp, fl)
}

// ------------------------------------------------------------------------------------------
// literal grammars (recognisers only; values come from std's `str::parse`)

const WS4: [char; 4] = [' ', '\t', '\n', '\r'];

/// `[-+]?(\.[0-9]+|[0-9]+(\.[0-9]*)?)([eE][-+]?[0-9]+)?`
fn core_number(t: &str) -> bool {
    let b = t.as_bytes();
    let mut i = 0;
    if i < b.len() && (b[i] == b'-' || b[i] == b'+') {
        i += 1;
    }
    let d0 = i;
    while i < b.len() && b[i].is_ascii_digit() {
        i += 1;
    }
    let int_digits = i - d0;
    let mut frac_digits = 0;
    if i < b.len() && b[i] == b'.' {
        i += 1;
        let f0 = i;
        while i < b.len() && b[i].is_ascii_digit() {
            i += 1;
        }
        frac_digits = i - f0;
    }
    if int_digits == 0 && frac_digits == 0 {
        return false;
    }
    if i < b.len() && (b[i] == b'e' || b[i] == b'E') {
        i += 1;
        if i < b.len() && (b[i] == b'-' || b[i] == b'+') {
            i += 1;
        }
        let e0 = i;
        while i < b.len() && b[i].is_ascii_digit() {
            i += 1;
        }
        if i == e0 {
            return false;
        }
    }
    i == b.len()
}
/// YAML 1.2 core schema float (and integer) spellings: the "ordinary float literals"
fn core_literal(t: &str) -> bool {
    matches!(t, ".inf" | ".Inf" | ".INF" | "+.inf" | "+.Inf" | "+.INF" | "-.inf" | "-.Inf" | "-.INF" | ".nan" | ".NaN" | ".NAN")
        || core_number(t)
}
/// everything the option-off path may additionally accept (Rust-isms, any-case dot forms): Free
fn lenient_literal(t: &str) -> bool {
    if core_literal(t) {
        return true;
    }
    let l = t.to_ascii_lowercase();
    let body = l.strip_prefix(['+', '-']).unwrap_or(&l);
    matches!(body, ".inf" | ".nan" | "inf" | "infinity" | "nan")
}
fn std_value<T: Tgt>(t: &str) -> T {
    let l = t.to_ascii_lowercase();
    match l.as_str() {
        ".inf" | "+.inf" => T::from64(f64::INFINITY),
        "-.inf" => T::from64(f64::NEG_INFINITY),
        ".nan" => T::from64(f64::NAN),
        _ => T::parse_std(t).expect("harness: core literal does not parse with std"),
    }
}

trait Tgt: DeserializeOwned + Copy + Send + std::fmt::Debug + 'static {
    fn from64(v: f64) -> Self;
    fn same(self, o: Self) -> bool;
    fn parse_std(s: &str) -> Option<Self>;
    fn show(self) -> String;
    fn to64(self) -> f64;
}
impl Tgt for f64 {
    fn from64(v: f64) -> f64 {
        v
    }
    fn same(self, o: f64) -> bool {
        (self.is_nan() && o.is_nan()) || self.to_bits() == o.to_bits()
    }
    fn parse_std(s: &str) -> Option<f64> {
        s.parse().ok()
    }
    fn show(self) -> String {
        format!("{:e} (0x{:016x})", self, self.to_bits())
    }
    fn to64(self) -> f64 {
        self
    }
}
impl Tgt for f32 {
    /// [MD] `FromF64`: "Construct from an f64 (lossy for f32)"
    fn from64(v: f64) -> f32 {
        v as f32
    }
    fn same(self, o: f32) -> bool {
        (self.is_nan() && o.is_nan()) || self.to_bits() == o.to_bits()
    }
    fn parse_std(s: &str) -> Option<f32> {
        s.parse().ok()
    }
    fn show(self) -> String {
        format!("{:e} (0x{:08x})", self, self.to_bits())
    }
    fn to64(self) -> f64 {
        self as f64
    }
}

// ------------------------------------------------------------------------------------------
// embedding a scalar content into a YAML document

#[derive(Clone, Copy, Debug, Serialize, Deserialize, PartialEq, Eq)]
enum Style {
    Plain,
    Double,
    Single,
    Literal, // `|-` block scalar
}
#[derive(Clone, Copy, Debug, Serialize, Deserialize, PartialEq, Eq)]
enum Pos {
    Root,
    Field,
    SeqItem,
    /// `v: <scalar>` read into a field of type Option<T>
    OptField,
}
#[derive(Clone, Copy, Debug, Serialize, Deserialize, PartialEq, Eq)]
enum Target {
    F32,
    F64,
}

fn printable_ascii(s: &str) -> bool {
    s.bytes().all(|c| (0x20..0x7f).contains(&c))
}
fn plain_safe(s: &str) -> bool {
    if s.is_empty() || !printable_ascii(s) || s.starts_with(' ') || s.ends_with(' ') {
        return false;
    }
    if !s.bytes().all(|c| c.is_ascii_alphanumeric() || b" _.:+-*/()".contains(&c)) {
        return false;
    }
    if s.contains(": ") || s.ends_with(':') || s.starts_with("---") || s.starts_with("...") {
        return false;
    }
    let b = s.as_bytes();
    match b[0] {
        b'-' | b':' => b.len() > 1 && b[1] != b' ',
        b'*' | b'/' => false,
        _ => true,
    }
}
fn effective_style(s: &str, want: Style) -> Style {
    match want {
        Style::Plain if plain_safe(s) => Style::Plain,
        Style::Single if printable_ascii(s) => Style::Single,
        Style::Literal if !s.is_empty() && printable_ascii(s) && !s.starts_with(' ') && !s.ends_with(' ') => Style::Literal,
        _ => Style::Double,
    }
}
fn dq(s: &str) -> String {
    let mut o = String::with_capacity(s.len() + 2);
    o.push('"');
    for ch in s.chars() {
        match ch {
            '"' => o.push_str("\\\""),
            '\\' => o.push_str("\\\\"),
            '\n' => o.push_str("\\n"),
            '\t' => o.push_str("\\t"),
            '\r' => o.push_str("\\r"),
            '\0' => o.push_str("\\0"),
            c if (c as u32) < 0x20 || (0x7f..0xa0).contains(&(c as u32)) => o.push_str(&format!("\\x{:02x}", c as u32)),
            '\u{feff}' | '\u{2028}' | '\u{2029}' | '\u{fffe}' | '\u{ffff}' => o.push_str(&format!("\\u{:04x}", ch as u32)),
            c => o.push(c),
        }
    }
    o.push('"');
    o
}
fn document(content: &str, style: Style, tag: Tag, pos: Pos) -> String {
    let st = effective_style(content, style);
    let indent = if pos == Pos::Root { " " } else { "    " };
    let scalar = match st {
        Style::Plain => content.to_string(),
        Style::Double => dq(content),
        Style::Single => format!("'{}'", content.replace('\'', "''")),
        Style::Literal => format!("|-\n{indent}{content}"),
    };
    let head = match pos {
        Pos::Root => {
            if st == Style::Literal { "--- " } else { "" }
        }
        Pos::Field | Pos::OptField => "v: ",
        Pos::SeqItem => "- ",
    };
    format!("{head}{}{scalar}\n", tag.text())
}

#[derive(Deserialize)]
struct Holder<T> {
    v: T,
}
fn de<T: DeserializeOwned>(doc: &str, pos: Pos, o: &DeOpts) -> Result<T, String> {
    let opts = o.build();
    let r = match pos {
        Pos::Root => serde_saphyr::from_str_with_options::<T>(doc, opts),
        Pos::Field => serde_saphyr::from_str_with_options::<Holder<T>>(doc, opts).map(|h| h.v),
        Pos::SeqItem => serde_saphyr::from_str_with_options::<(T,)>(doc, opts).map(|h| h.0),
        Pos::OptField => {
            return match serde_saphyr::from_str_with_options::<Holder<Option<T>>>(doc, opts) {
                Ok(h) => h.v.ok_or_else(|| "deserialized as None".to_string()),
                Err(e) => Err(format!("{}", e.without_snippet())),
            };
        }
    };
    r.map_err(|e| format!("{}", e.without_snippet()))
}
fn de_opts(angle: bool) -> DeOpts {
    DeOpts { angle, budget: BudgetSel::Default, ..DeOpts::default() }
}
/// run the library; a panic inside is reported as Err(Err(msg)) by the caller's catch
fn lib<T: Tgt>(doc: &str, pos: Pos, angle: bool) -> Result<T, String> {
    de::<T>(doc, pos, &de_opts(angle))
}

// ------------------------------------------------------------------------------------------
// cases

#[derive(Clone, Copy, Debug, Serialize, Deserialize, PartialEq, Eq)]
enum Damage {
    UnclosedParen,
    ExtraClose,
    TrailingOp(u8),
    LeadingMul(bool),
    Juxtapose(u8),
    UnknownIdent(u8),
    BadUnderscore(u8),
    BadSexa(u8),
    EmptyCall(u8),
    BadNumber(u8),
}
const JUXTA: [&str; 4] = [" 2", "pi", " (1)", " deg(1)"];
const UNKNOWN: [&str; 8] = ["foo", "pie", "degx", "e", "x", "_", "degrees(1)", "sin(1)"];
const BAD_US: [&str; 8] = ["1__0", "1_", "1._0", "1e_10", "1_.0", "1_e5", "1e1_", "0.1__5"];
const BAD_SEXA: [&str; 5] = ["10:60", "1:2:60", "1:99", "1:", "1:2:"];
const EMPTY_CALL: [&str; 5] = ["deg()", "rad( )", "()", "deg", "rad 1"];
const BAD_NUM: [&str; 5] = ["1e", "1e+", ".", "1e-", ".e1"];
fn damage(text: &str, d: Damage) -> String {
    let ops = ["+", "-", "*", "/"];
    match d {
        Damage::UnclosedParen => format!("({text}"),
        Damage::ExtraClose => format!("{text})"),
        Damage::TrailingOp(k) => format!("{text} {}", ops[k as usize % 4]),
        Damage::LeadingMul(div) => format!("{}{text}", if div { "/" } else { "*" }),
        Damage::Juxtapose(k) => format!("{text}{}", JUXTA[k as usize % JUXTA.len()]),
        Damage::UnknownIdent(k) => format!("{text}+{}", UNKNOWN[k as usize % UNKNOWN.len()]),
        Damage::BadUnderscore(k) => format!("{text}*{}", BAD_US[k as usize % BAD_US.len()]),
        Damage::BadSexa(k) => format!("{text}+{}", BAD_SEXA[k as usize % BAD_SEXA.len()]),
        Damage::EmptyCall(k) => format!("{text}-{}", EMPTY_CALL[k as usize % EMPTY_CALL.len()]),
        Damage::BadNumber(k) => format!("{text}/{}", BAD_NUM[k as usize % BAD_NUM.len()]),
    }
}

#[derive(Clone, Copy, Debug, Serialize, Deserialize, PartialEq, Eq)]
enum PK {
    Parens,
    ParensUnclosed,
    CloseOnly,
    FuncNest,
    SignParens,
    Signs,
    IntDigits,
    FracDigits,
    LeadingZeros,
    ExpDigits,
    UnderscoreDigits,
    SplitDigits,
    SexaDegDigits,
    SexaFracDigits,
    SumChain,
    MulChain,
    MixedChain,
    DivChain,
    SpaceRun,
    IdentRun,
    UnderscoreRun,
    SexaChain,
    ColonRun,
    DotRun,
    ERun,
    ParenSum,
}
const PK_ALL: [PK; 26] = [
    PK::Parens, PK::ParensUnclosed, PK::CloseOnly, PK::FuncNest, PK::SignParens, PK::Signs, PK::IntDigits,
    PK::FracDigits, PK::LeadingZeros, PK::ExpDigits, PK::UnderscoreDigits, PK::SplitDigits, PK::SexaDegDigits,
    PK::SexaFracDigits, PK::SumChain, PK::MulChain, PK::MixedChain, PK::DivChain, PK::SpaceRun, PK::IdentRun,
    PK::UnderscoreRun, PK::SexaChain, PK::ColonRun, PK::DotRun, PK::ERun, PK::ParenSum,
];
fn patho_text(k: PK, n: usize) -> String {
    let rep = |s: &str, n: usize| s.repeat(n);
    match k {
        PK::Parens => format!("{}7{}", rep("(", n), rep(")", n)),
        PK::ParensUnclosed => format!("{}7", rep("(", n)),
        PK::CloseOnly => rep(")", n),
        PK::FuncNest => format!("{}7{}", rep("rad(", n), rep(")", n)),
        PK::SignParens => format!("{}7{}", rep("-(", n), rep(")", n)),
        PK::Signs => format!("{}7", rep("-", n)),
        PK::IntDigits => rep("1", n),
        PK::FracDigits => format!("0.{}", rep("3", n.saturating_sub(1))),
        PK::LeadingZeros => format!("{}1", rep("0", n.saturating_sub(1))),
        PK::ExpDigits => format!("1e{}1", rep("0", n.saturating_sub(2))),
        PK::UnderscoreDigits => format!("1{}", rep("_1", n.saturating_sub(1))),
        PK::SplitDigits => format!("{}.{}", rep("1", n / 2), rep("2", n - n / 2)),
        PK::SexaDegDigits => format!("{}:30", rep("1", n)),
        PK::SexaFracDigits => format!("1:30:15.{}", rep("3", n)),
        PK::SumChain => format!("1{}", rep("+1", n.saturating_sub(1))),
        PK::MulChain => format!("1{}", rep("*1", n.saturating_sub(1))),
        PK::MixedChain => format!("2*pi{}", rep("+2*pi", n.saturating_sub(1))),
        PK::DivChain => format!("1{}", rep("/2", n)),
        PK::SpaceRun => format!("{}7{}", rep(" ", n), rep(" ", n)),
        PK::IdentRun => rep("a", n),
        PK::UnderscoreRun => format!("1{}1", rep("_", n + 1)),
        PK::SexaChain => format!("1:30{}", rep("+1:30", n.saturating_sub(1))),
        PK::ColonRun => format!("1{}", rep(":1", n)),
        PK::DotRun => rep(".", n),
        PK::ERun => format!("1{}", rep("e", n)),
        PK::ParenSum => format!("{}7{}", rep("(1+", n), rep(")", n)),
    }
}
/// number of digits in the single numeric token of a digit-run kind
fn patho_expect(k: PK, n: usize, tag: Tag) -> Exp {
    let deg = |v: f64| if tag == Tag::Degrees { v * DEG2RAD } else { v };
    // [PT]/[RM] "maximal expression depth", "maximal number of digits": the limits themselves are
    // only in the code (256 levels, 1_000_000 digits); the check demands acceptance well below
    // (<= 255 levels, <= 1000 digits / terms), rejection above (>= 300 levels, >= 1_000_001 digits)
    // and exactness whenever the input is accepted in between.
    let by_depth = |v: f64| {
        if n <= 255 {
            Exp::Ok(vec![deg(v)])
        } else if n >= 300 {
            Exp::Err
        } else {
            Exp::IfOk(vec![deg(v)])
        }
    };
    let by_len = |v: f64| if n <= 1000 { Exp::Ok(vec![deg(v)]) } else { Exp::IfOk(vec![deg(v)]) };
    let by_digits = |digits: usize, text: &str| {
        let v: f64 = text.parse().expect("harness: digit run does not parse");
        if digits <= 1000 {
            Exp::Ok(vec![deg(v)])
        } else if digits >= 1_000_001 {
            Exp::Err
        } else {
            Exp::IfOk(vec![deg(v)])
        }
    };
    match k {
        PK::Parens => by_depth(7.0),
        PK::SignParens => by_depth(if n % 2 == 1 { -7.0 } else { 7.0 }),
        PK::ParenSum => by_depth(7.0 + n as f64),
        PK::FuncNest => {
            if n >= 300 { Exp::Err } else { Exp::Free }
        }
        PK::ParensUnclosed | PK::CloseOnly | PK::IdentRun | PK::UnderscoreRun | PK::DotRun | PK::ERun => Exp::Err,
        PK::Signs => Exp::IfOk(vec![deg(if n % 2 == 1 { -7.0 } else { 7.0 })]),
        PK::IntDigits | PK::FracDigits | PK::LeadingZeros | PK::ExpDigits | PK::SplitDigits => {
            by_digits(n.max(1), &patho_text(k, n))
        }
        PK::UnderscoreDigits => by_digits(n.max(1), &patho_text(PK::IntDigits, n.max(1))),
        PK::SexaDegDigits | PK::SexaFracDigits => {
            if n >= 1_000_001 { Exp::Err } else { Exp::Free }
        }
        PK::SumChain => by_len(n.max(1) as f64),
        PK::MulChain => by_len(1.0),
        PK::MixedChain => {
            let mut v = 2.0 * std::f64::consts::PI;
            for _ in 1..n.max(1) {
                v += 2.0 * std::f64::consts::PI;
            }
            by_len(v)
        }
        PK::DivChain => {
            let mut v = 1.0f64;
            for _ in 0..n {
                v /= 2.0;
            }
            by_len(v)
        }
        PK::SpaceRun => by_len(7.0),
        PK::SexaChain | PK::ColonRun => Exp::Free,
    }
}

#[derive(Clone, Debug, Serialize, Deserialize, PartialEq)]
enum Body {
    Expr(Expr, Ws),
    Bad(Expr, Damage),
    /// an ordinary float literal with blank padding
    Lit(String, Ws, Ws),
    /// token soup / arbitrary string: totality, option-off rule, metamorphic relations
    Text(String),
    /// raw document bytes: totality only
    Bytes(Vec<u8>),
    /// `ctx(x op y)` against `ctx(y op x)` (op: + or *): IEEE addition and multiplication commute,
    /// so both orders must be accepted alike and give the same bits - whatever nested unit
    /// functions or sexagesimal literals mean, their meaning may not depend on what stands to
    /// their left
    Swap { ctx: u8, x: String, y: String, mul: bool },
    Patho(PK, usize),
    /// allocation counts at n and 2n
    Scaling(PK, usize),
}
#[derive(Clone, Debug, Serialize, Deserialize, PartialEq)]
struct Case {
    body: Body,
    tag: Tag,
    style: Style,
    pos: Pos,
    target: Target,
}

fn content_of(c: &Case) -> Option<String> {
    match &c.body {
        Body::Expr(e, t) => Some(render(e, *t)),
        Body::Bad(e, d) => Some(damage(&render(e, 0), *d)),
        Body::Lit(s, a, b) => Some(format!("{}{}{}", WS[*a as usize % 7], s, WS[*b as usize % 7])),
        Body::Text(s) => Some(s.clone()),
        Body::Swap { ctx, x, y, mul } => Some(swap_text(*ctx, x, y, *mul)),
        Body::Patho(k, n) if *n <= 4096 => Some(patho_text(*k, *n)),
        _ => None,
    }
}

const SWAP_CTX: [(&str, &str); 7] = [("", ""), ("(", ")"), ("deg(", ")"), ("rad(", ")"), ("1 + (", ")"), ("deg(rad(0) + (", "))"), ("2 * (", ")")];
const SWAP_ATOMS: [&str; 26] = [
    "1:30", "0:0:30", "0:30", "2.5", "7", "-3", "1e3", "pi", "rad(0)", "rad(0.5)", "deg(90)", "deg(0:30)", "rad(1:30)", "deg(rad(0.5))",
    "rad(deg(90))", "deg(rad(0) + 1)", "(1 + 2)", "(1:30)", "(rad(1))", "deg(1) * 2", "0.1", "1:0:0", "-1:30", "deg(-1:30)", "inf", "0",
];
fn swap_text(ctx: u8, x: &str, y: &str, mul: bool) -> String {
    let (l, r) = SWAP_CTX[ctx as usize % SWAP_CTX.len()];
    // an operand that is itself a product / sum keeps its grouping through parentheses
    let wrap = |t: &str| if t.contains(" * ") || t.contains(" + ") && !t.ends_with(')') { format!("({t})") } else { t.to_string() };
    format!("{l}{} {} {}{r}", wrap(x), if mul { "*" } else { "+" }, wrap(y))
}

enum Bad {
    Discard(&'static str),
    Fail(String),
}
fn fail<T>(m: String) -> Result<T, Bad> {
    Err(Bad::Fail(m))
}

/// library call with panics turned into failures
fn guarded<T: Tgt>(doc: &str, pos: Pos, angle: bool) -> Result<Result<T, String>, Bad> {
    match engine::catch(|| lib::<T>(doc, pos, angle)) {
        Caught::Ok(r) => Ok(r),
        Caught::Panic(m, l) => fail(format!("panic at {l}: {m} (option {}, document {:?})", if angle { "on" } else { "off" }, clip(doc))),
    }
}
fn clip(s: &str) -> String {
    if s.len() <= 300 {
        s.to_string()
    } else {
        let mut e = 150;
        while !s.is_char_boundary(e) {
            e -= 1;
        }
        let mut b = s.len() - 100;
        while !s.is_char_boundary(b) {
            b += 1;
        }
        format!("{}…[{} bytes]…{}", &s[..e], s.len(), &s[b..])
    }
}
fn show_r<T: Tgt>(r: &Result<T, String>) -> String {
    match r {
        Ok(v) => format!("Ok({})", v.show()),
        Err(e) => format!("Err({})", e.chars().take(120).collect::<String>()),
    }
}
fn cmp_exp<T: Tgt>(what: &str, got: &Result<T, String>, exp: &Exp, content: &str) -> Result<(), Bad> {
    let among = |v: T, allowed: &Vec<f64>| allowed.iter().any(|a| T::from64(*a).same(v));
    let list = |a: &Vec<f64>| a.iter().map(|x| T::from64(*x).show()).collect::<Vec<_>>().join(" or ");
    match (exp, got) {
        (Exp::Free, _) => Ok(()),
        (Exp::Err, Err(_)) => Ok(()),
        (Exp::Err, Ok(v)) => fail(format!("{what}: must be rejected but evaluates to {} (scalar {:?})", v.show(), clip(content))),
        (Exp::Ok(a), Ok(v)) | (Exp::IfOk(a), Ok(v)) => {
            if among(*v, a) {
                Ok(())
            } else {
                fail(format!("{what}: value {} differs from the reference {} (scalar {:?})", v.show(), list(a), clip(content)))
            }
        }
        (Exp::Ok(a), Err(e)) => fail(format!("{what}: rejected ({}) but the reference evaluates to {} (scalar {:?})", e.chars().take(100).collect::<String>(), list(a), clip(content))),
        (Exp::IfOk(_), Err(_)) => Ok(()),
    }
}

/// option-off rule for any scalar content: [PT] "nothing changes unless the option is switched on",
/// [RM] "Just adding the robotics feature is not enough to activate this mode of parsing."
fn check_off<T: Tgt>(content: &str, off: &Result<T, String>) -> Result<(), Bad> {
    let t4 = content.trim_matches(WS4);
    if core_literal(t4) {
        let want = std_value::<T>(t4);
        return match off {
            Ok(v) if v.same(want) => Ok(()),
            _ => fail(format!("option off: ordinary literal {:?} gives {}, std gives {}", clip(content), show_r(off), want.show())),
        };
    }
    if lenient_literal(content.trim()) {
        return Ok(());
    }
    match off {
        Err(_) => Ok(()),
        Ok(v) => fail(format!("option off: {:?} is not a float literal but was accepted as {}", clip(content), v.show())),
    }
}

/// common part for embedded scalars with a reference verdict for the option-on run
fn check_embedded<T: Tgt>(content: &str, c: &Case, exp_on: &Exp) -> Result<(), Bad> {
    let doc = document(content, c.style, c.tag, c.pos);
    // generator self-check: the untagged document must carry exactly this scalar content
    let plain_doc = document(content, c.style, Tag::None, c.pos);
    match engine::catch(|| de::<String>(&plain_doc, c.pos, &de_opts(false))) {
        Caught::Ok(Ok(s)) if s == content => {}
        Caught::Ok(_) => return Err(Bad::Discard("embedding does not reproduce the scalar content")),
        Caught::Panic(m, l) => return fail(format!("panic at {l}: {m} (reading the scalar as String, document {:?})", clip(&plain_doc))),
    }
    let on = guarded::<T>(&doc, c.pos, true)?;
    let off = guarded::<T>(&doc, c.pos, false)?;
    cmp_exp("option on", &on, exp_on, content)?;
    check_off::<T>(content, &off)?;
    // [PT] "Ordinary float literals keep exactly the value they have without the extension"
    let t4 = content.trim_matches(WS4);
    if core_literal(t4) && matches!(c.tag, Tag::None | Tag::Radians) {
        let digits = t4.bytes().filter(|b| b.is_ascii_digit()).count();
        match (&on, &off) {
            (Ok(a), Ok(b)) if a.same(*b) => {}
            (Err(_), Ok(_)) if digits > 1000 => {} // hardening limit on digits wins (documented)
            _ => {
                return fail(format!(
                    "ordinary literal {:?} ({:?}): option on gives {}, option off gives {}",
                    clip(content), c.target, show_r(&on), show_r(&off)
                ));
            }
        }
    }
    Ok(())
}

/// [PT] "Ordinary float literals keep exactly the value they have without the extension": when the
/// scalar is an ordinary literal (and no degree conversion applies) the reference value is the
/// direct conversion to the target type, not the narrowed f64 value
fn adjust_for_literal<T: Tgt>(exp: Exp, content: &str, tag: Tag) -> Exp {
    let t4 = content.trim_matches(WS4);
    if !core_literal(t4) || !matches!(tag, Tag::None | Tag::Radians) {
        return exp;
    }
    let v = vec![std_value::<T>(t4).to64()];
    match exp {
        Exp::Ok(_) => Exp::Ok(v),
        Exp::IfOk(_) => Exp::IfOk(v),
        e => e,
    }
}
fn lit_exp<T: Tgt>(content: &str, tag: Tag) -> Exp {
    let t4 = content.trim_matches(WS4);
    let v = std_value::<T>(t4).to64(); // exact: f32 -> f64 -> f32 is the identity
    match tag {
        Tag::None | Tag::Radians => Exp::Ok(vec![v]),
        _ => Exp::Free,
    }
}

fn small_stack<R: Send>(f: impl FnOnce() -> R + Send) -> R {
    std::thread::scope(|s| {
        std::thread::Builder::new()
            .stack_size(1 << 20)
            .spawn_scoped(s, f)
            .expect("spawn")
            .join()
            .unwrap_or_else(|_| panic!("harness: small-stack thread panicked"))
    })
}

/// (result option on, result option off, alloc calls, alloc bytes of the option-on run), each on a
/// 1 MiB stack
fn measured<T: Tgt>(doc: &str, pos: Pos) -> Result<(Result<T, String>, Result<T, String>, u64, u64), Bad> {
    small_stack(|| {
        alloc_reset();
        let on = guarded::<T>(doc, pos, true);
        let (calls, bytes) = alloc_read();
        let on = on?;
        let off = guarded::<T>(doc, pos, false)?;
        Ok((on, off, calls, bytes))
    })
}
/// allocation bound: at most one allocator call per input byte (+400) and 64 KiB + 40 bytes per
/// input byte (the evaluator allocates one 32-byte buffer per number token; measured maxima are
/// in the evidence)
fn alloc_bound(len: usize, calls: u64, bytes: u64) -> Result<(), Bad> {
    let max_calls = 400 + len as u64;
    let max_bytes = (64 << 10) + 40 * len as u64;
    if calls > max_calls || bytes > max_bytes {
        return fail(format!("work bound exceeded: {calls} allocator calls / {bytes} bytes for a {len}-byte document (limits {max_calls} / {max_bytes})"));
    }
    Ok(())
}

thread_local! {
    static MAXIMA: RefCell<BTreeMap<&'static str, f64>> = const { RefCell::new(BTreeMap::new()) };
}
fn note_max(k: &'static str, v: f64) {
    MAXIMA.with(|m| {
        let mut m = m.borrow_mut();
        let e = m.entry(k).or_insert(f64::MIN);
        if v > *e {
            *e = v;
        }
    });
}

fn check_t<T: Tgt>(c: &Case) -> Result<(), Bad> {
    match &c.body {
        Body::Expr(e, trail) => {
            if !valid_expr(e) {
                return Err(Bad::Discard("malformed AST"));
            }
            let content = render(e, *trail);
            let (exp, _) = oracle(e, c.tag);
            let exp = adjust_for_literal::<T>(exp, &content, c.tag);
            check_embedded::<T>(&content, c, &exp)
        }
        Body::Bad(e, d) => {
            if !valid_expr(e) {
                return Err(Bad::Discard("malformed AST"));
            }
            // [MD] "# Errors: malformed syntax, unbalanced parentheses, or unknown identifiers ...
            // invalid underscore placement"; [UT] errors_trailing_and_lexical, errors_parentheses_and_calls
            let content = damage(&render(e, 0), *d);
            check_embedded::<T>(&content, c, &Exp::Err)
        }
        Body::Lit(s, a, b) => {
            if !core_literal(s) {
                return Err(Bad::Discard("not a core literal"));
            }
            let content = format!("{}{}{}", WS[*a as usize % 7], s, WS[*b as usize % 7]);
            let digits = s.bytes().filter(|b| b.is_ascii_digit()).count();
            let exp = if digits > 1000 { Exp::Free } else { lit_exp::<T>(&content, c.tag) };
            check_embedded::<T>(&content, c, &exp)
        }
        Body::Text(s) => check_text::<T>(s, c),
        Body::Swap { ctx, x, y, mul } => {
            let (a, b) = (swap_text(*ctx, x, y, *mul), swap_text(*ctx, y, x, *mul));
            let (da, db) = (document(&a, Style::Double, c.tag, c.pos), document(&b, Style::Double, c.tag, c.pos));
            let pos = c.pos;
            let (ra, rb) = small_stack(move || -> Result<_, Bad> { Ok((guarded::<T>(&da, pos, true)?, guarded::<T>(&db, pos, true)?)) })?;
            match (&ra, &rb) {
                (Ok(u), Ok(v)) if u.same(*v) => Ok(()),
                (Err(_), Err(_)) => Ok(()),
                _ => fail(format!("operand order matters: {:?} gives {}, {:?} gives {} (tag {:?})", a, show_r(&ra), b, show_r(&rb), c.tag)),
            }
        }
        Body::Bytes(b) => {
            for angle in [true, false] {
                let r = small_stack(|| engine::catch(|| serde_saphyr::from_slice_with_options::<T>(b, de_opts(angle).build()).map_err(|e| e.to_string())));
                if let Caught::Panic(m, l) = r {
                    return fail(format!("panic at {l}: {m} (raw bytes, option {angle})"));
                }
            }
            Ok(())
        }
        Body::Patho(k, n) => {
            let content = patho_text(*k, *n);
            let doc = document(&content, Style::Double, c.tag, c.pos);
            let (on, off, calls, bytes) = measured::<T>(&doc, c.pos)?;
            note_max("alloc_calls_per_KiB_patho", calls as f64 / (doc.len() as f64 / 1024.0).max(1.0));
            note_max("alloc_bytes_per_input_byte_patho", bytes as f64 / (doc.len() as f64).max(1024.0));
            let exp = adjust_for_literal::<T>(patho_expect(*k, *n, c.tag), &content, c.tag);
            cmp_exp("option on", &on, &exp, &content)?;
            check_off::<T>(&content, &off)?;
            alloc_bound(doc.len(), calls, bytes)
        }
        Body::Scaling(k, n) => {
            let mut m = vec![];
            for f in [1usize, 2] {
                let content = patho_text(*k, *n * f);
                let doc = document(&content, Style::Double, c.tag, c.pos);
                let (_, _, calls, bytes) = measured::<T>(&doc, c.pos)?;
                m.push((doc.len(), calls, bytes));
            }
            let (l1, c1, b1) = m[0];
            let (l2, c2, b2) = m[1];
            note_max("scaling_ratio_bytes", b2 as f64 / (b1 as f64).max(1.0));
            note_max("scaling_ratio_calls", c2 as f64 / (c1 as f64).max(1.0));
            // doubling the input may at most double the work (+ slack for vector growth steps)
            if b2 > 3 * b1 + (64 << 10) || c2 > 3 * c1 + 64 {
                return fail(format!("allocation work is not linear for {k:?}: {l1} bytes -> {c1} calls / {b1} bytes, {l2} bytes -> {c2} calls / {b2} bytes"));
            }
            Ok(())
        }
    }
}

/// token soup / arbitrary strings: relations that need no parse of the text
fn check_text<T: Tgt>(s: &str, c: &Case) -> Result<(), Bad> {
    let pos = c.pos;
    let plain_doc = document(s, Style::Double, Tag::None, pos);
    match engine::catch(|| de::<String>(&plain_doc, pos, &de_opts(false))) {
        Caught::Ok(Ok(r)) if r == s => {}
        Caught::Ok(_) => return Err(Bad::Discard("embedding does not reproduce the scalar content")),
        Caught::Panic(m, l) => return fail(format!("panic at {l}: {m} (reading the scalar as String)")),
    }
    let rad_doc = document(s, Style::Double, Tag::Radians, pos);
    let deg_doc = document(s, Style::Double, Tag::Degrees, pos);
    let s2 = s.to_string();
    let (un, rad, deg, off, n32) = small_stack(move || -> Result<_, Bad> {
        let un = guarded::<f64>(&plain_doc, pos, true)?;
        let rad = guarded::<f64>(&rad_doc, pos, true)?;
        let deg = guarded::<f64>(&deg_doc, pos, true)?;
        let off = guarded::<T>(&plain_doc, pos, false)?;
        let n32 = guarded::<f32>(&plain_doc, pos, true)?;
        let _ = s2;
        Ok((un, rad, deg, off, n32))
    })?;
    check_off::<T>(s, &off)?;
    let t4 = s.trim_matches(WS4);
    let digits = t4.bytes().filter(|b| b.is_ascii_digit()).count();
    if core_literal(t4) && digits <= 1000 {
        cmp_exp("option on", &un, &Exp::Ok(vec![std_value::<f64>(t4)]), s)?;
        if c.target == Target::F32 {
            // ordinary literal, f32 target: the value without the extension
            let want = std_value::<f32>(t4);
            match &n32 {
                Ok(v) if v.same(want) => {}
                _ => return fail(format!("ordinary literal {:?} (F32): option on gives {}, option off gives Ok({})", clip(s), show_r(&n32), want.show())),
            }
        }
    }
    // "Ordinary float literals keep exactly the value they have without the extension": whatever
    // the option-off reading accepts as a float (also the lenient spellings of the standard
    // library and its Unicode trimming) reads the same with the option on.
    if digits <= 1000 {
        if let Ok(v) = &off {
            let (on, same) = match c.target {
                Target::F64 => (show_r(&un), un.as_ref().is_ok_and(|u| show_r(&Ok::<f64, String>(*u)) == show_r(&Ok::<T, String>(*v)))),
                Target::F32 => (show_r(&n32), n32.as_ref().is_ok_and(|u| show_r(&Ok::<f32, String>(*u)) == show_r(&Ok::<T, String>(*v)))),
            };
            if !same {
                return fail(format!("{:?} is a float without the option ({}) but reads as {} with it", clip(s), v.show(), on));
            }
        }
    }
    // [MD] FromF64: the f32 result is the f64 result converted (checked for non-literals; for
    // literals the rule above is the stronger one)
    // (a literal is also what the option-off reading takes as a float: the standard library's
    // lenient spellings and the Unicode blanks it trims, e.g. a no-break space around the digits)
    if !core_literal(t4) && off.is_err() {
        match (&un, &n32) {
            (Ok(a), Ok(b)) if (*a as f32).same(*b) => {}
            (Err(_), Err(_)) => {}
            _ => return fail(format!("f32 and f64 targets disagree on {:?}: f64 {}, f32 {}", clip(s), show_r(&un), show_r(&n32))),
        }
    }
    let lower = s.to_ascii_lowercase();
    let has_colon = s.contains(':');
    let has_unit = lower.contains("deg") || lower.contains("rad");
    // [MD] "SfTag::Radians leaves values as-is."
    match (&un, &rad) {
        (Ok(a), Ok(b)) => {
            if !has_colon && !a.same(*b) {
                return fail(format!("!radians changes the value of {:?}: untagged {}, tagged {}", clip(s), a.show(), b.show()));
            }
        }
        (Err(_), Err(_)) => {}
        _ => return fail(format!("!radians changes acceptance of {:?}: untagged {}, tagged {}", clip(s), show_r(&un), show_r(&rad))),
    }
    // [MD] "If no deg/rad is used, SfTag::Degrees converts to radians."
    match (&un, &deg) {
        (Ok(a), Ok(b)) => {
            if !has_colon && !has_unit && !(a * DEG2RAD).same(*b) {
                return fail(format!("!degrees on {:?}: untagged {}, tagged {} (expected untagged * pi/180)", clip(s), a.show(), b.show()));
            }
        }
        (Err(_), Ok(b)) => return fail(format!("!degrees accepts {:?} as {} although it is rejected untagged", clip(s), b.show())),
        (Ok(_), Err(_)) => {
            if !has_colon && !has_unit {
                return fail(format!("!degrees rejects {:?} although it has no unit function and is accepted untagged", clip(s)));
            }
        }
        (Err(_), Err(_)) => {}
    }
    Ok(())
}

fn check_case(c: &Case) -> Result<(), Bad> {
    match c.target {
        Target::F32 => check_t::<f32>(c),
        Target::F64 => check_t::<f64>(c),
    }
}

// ------------------------------------------------------------------------------------------
// known-finding signature

/// f32 target, the scalar is an ordinary float literal (blank-padded), and parsing the literal
/// directly as f32 differs from parsing it as f64 and converting: with the option on the library
/// takes the second route (double rounding).
fn sig_f32_double_rounding(c: &Case) -> bool {
    if c.target != Target::F32 || !matches!(c.tag, Tag::None | Tag::Radians) {
        return false;
    }
    let Some(content) = content_of(c) else { return false };
    let t4 = content.trim_matches(WS4);
    if !core_number(t4) {
        return false;
    }
    match (t4.parse::<f32>(), t4.parse::<f64>()) {
        (Ok(a), Ok(b)) => a.to_bits() != (b as f32).to_bits(),
        _ => false,
    }
}

/// the scalar holds an ASCII digit or '.' at byte i and byte i+4 is inside a multi-byte character:
/// `Parser::starts_ci` slices the text at i+4 when a number starts at i and panics
fn sig_non_ascii_after_number(c: &Case) -> bool {
    let owned;
    let s: &str = match &c.body {
        Body::Bytes(b) => match std::str::from_utf8(b) {
            Ok(s) => s,
            Err(_) => return false,
        },
        _ => match content_of(c) {
            Some(x) => {
                owned = x;
                &owned
            }
            None => return false,
        },
    };
    if s.is_ascii() {
        return false;
    }
    let b = s.as_bytes();
    (0..b.len()).any(|i| (b[i].is_ascii_digit() || b[i] == b'.') && i + 4 <= b.len() && !s.is_char_boundary(i + 4))
}

// ------------------------------------------------------------------------------------------
// generators

fn ws_s() -> impl Strategy<Value = Ws> + Clone {
    prop_oneof![14 => Just(0u8), 6 => Just(1u8), 1 => Just(2u8), 1 => Just(3u8), 1 => Just(4u8), 1 => Just(5u8), 1 => Just(6u8)]
}
fn group_s(max: usize) -> BoxedStrategy<String> {
    // digit group, sometimes with underscores between digits
    prop_oneof![
        8 => proptest::string::string_regex(&format!("[0-9]{{1,{max}}}")).unwrap(),
        2 => proptest::collection::vec("[0-9]{1,4}", 2..5).prop_map(|v| v.join("_")),
        1 => Just("0".to_string()),
    ]
    .boxed()
}
const NUM_CORPUS: [&str; 40] = [
    "0", "1", "2", "3", "7", "10", "60", "90", "180", "360", "0.5", "1.5", "0.1", "0.2", "0.3", "1e3", "1e-3", "2.5e10",
    "1e308", "1.7976931348623157e308", "1e309", "4.9e-324", "2.2250738585072014e-308", "1e-400", "9007199254740993",
    "3.4028235e38", "3.4028236e38", "1.17549435e-38", "1e-45", "0.30000000000000004", "123456789.123456789",
    "1.00000005960464477539062500000000000000000001", ".5", "5.", "5.e3", "00012", "1_000", "1_0.2_5e1_0", "6.02E+23", "57.29577951308232",
];
fn num_s() -> BoxedStrategy<Num> {
    let exp = proptest::option::weighted(0.3, (any::<bool>(), 0u8..3, prop_oneof![4 => "[0-9]{1,2}".prop_map(|s| s), 1 => Just("1_0".to_string()), 1 => "[0-9]{3}".prop_map(|s| s)]));
    let shaped = (0u8..5, group_s(12), group_s(12), exp).prop_map(|(shape, a, b, exp)| match shape {
        0 | 1 => Num { int: a, dot: false, frac: String::new(), exp },
        2 => Num { int: a, dot: true, frac: b, exp },
        3 => Num { int: a, dot: true, frac: String::new(), exp },
        _ => Num { int: String::new(), dot: true, frac: b, exp },
    });
    let corpus = proptest::sample::select(NUM_CORPUS.to_vec()).prop_map(parse_num);
    let long = ("[0-9]{20,60}", "[0-9]{20,400}").prop_map(|(a, b)| Num { int: a, dot: true, frac: b, exp: None });
    prop_oneof![6 => corpus, 6 => shaped, 1 => long].boxed()
}
/// split a well-formed number spelling into the token structure (generator helper for the fixed corpus)
fn parse_num(s: &str) -> Num {
    let (mant, exp) = match s.find(['e', 'E']) {
        Some(i) => {
            let up = s.as_bytes()[i] == b'E';
            let rest = &s[i + 1..];
            let (sg, d) = if let Some(r) = rest.strip_prefix('+') {
                (1, r)
            } else if let Some(r) = rest.strip_prefix('-') {
                (2, r)
            } else {
                (0, rest)
            };
            (&s[..i], Some((up, sg, d.to_string())))
        }
        None => (s, None),
    };
    let (int, dot, frac) = match mant.find('.') {
        Some(i) => (&mant[..i], true, &mant[i + 1..]),
        None => (mant, false, ""),
    };
    Num { int: int.to_string(), dot, frac: frac.to_string(), exp }
}
fn konst_s() -> impl Strategy<Value = Prim> + Clone + use<> {
    (
        prop_oneof![5 => Just(Konst::Pi), 3 => Just(Konst::Tau), 1 => Just(Konst::Inf), 1 => Just(Konst::Nan), 1 => Just(Konst::DotInf), 1 => Just(Konst::DotNan)],
        prop_oneof![6 => Just(0u8), 1 => Just(0xffu8), 1 => any::<u8>()],
    )
        .prop_map(|(k, m)| Prim::Const(k, m))
}
fn sexa_s() -> impl Strategy<Value = Sexa> + Clone + use<> {
    let two = || prop_oneof![3 => (0u32..60).prop_map(|v| v.to_string()), 2 => (0u32..60).prop_map(|v| format!("{v:02}"))];
    (
        prop_oneof![4 => (0u32..400).prop_map(|v| v.to_string()), 1 => "[0-9]{1,15}".prop_map(|s| s), 1 => (0u32..24).prop_map(|v| format!("{v:02}"))],
        two(),
        proptest::option::weighted(0.6, two()),
        proptest::option::weighted(0.5, prop_oneof![3 => "[0-9]{1,3}".prop_map(|s| s), 1 => "[0-9]{4,15}".prop_map(|s| s)]),
    )
        .prop_map(|(d, m, s, frac)| {
            let frac = if s.is_some() { frac } else { None };
            Sexa { d, m, s, frac }
        })
}
// ---------------- byte-driven construction of expressions (libFuzzer target) ---------------------
fn digits_from_bytes(b: &mut engine::Bytes, max: usize) -> String {
    let n = 1 + b.below(max);
    (0..n).map(|_| (b'0' + b.below(10) as u8) as char).collect()
}
fn group_from_bytes(b: &mut engine::Bytes) -> String {
    match b.below(8) {
        0 => {
            let k = 2 + b.below(3);
            (0..k).map(|_| digits_from_bytes(b, 4)).collect::<Vec<_>>().join("_")
        }
        1 => "0".to_string(),
        _ => digits_from_bytes(b, 12),
    }
}
fn ws_from_bytes(b: &mut engine::Bytes) -> Ws {
    match b.below(16) {
        0..=8 => 0,
        9..=12 => 1,
        x => (x - 11) as u8, // 2..=4
    }
}
fn prim_from_bytes(b: &mut engine::Bytes, depth: u32) -> Prim {
    let k = b.below(if depth == 0 { 14 } else { 20 });
    match k {
        0..=3 => Prim::Num(parse_num(b.pick(&NUM_CORPUS))),
        4..=7 => {
            let exp = if b.below(3) == 0 { Some((b.bool(), b.below(3) as u8, digits_from_bytes(b, 2))) } else { None };
            let (a, c) = (group_from_bytes(b), group_from_bytes(b));
            Prim::Num(match b.below(5) {
                0 | 1 => Num { int: a, dot: false, frac: String::new(), exp },
                2 => Num { int: a, dot: true, frac: c, exp },
                3 => Num { int: a, dot: true, frac: String::new(), exp },
                _ => Num { int: String::new(), dot: true, frac: c, exp },
            })
        }
        8..=10 => Prim::Const(b.pick(&[Konst::Pi, Konst::Pi, Konst::Tau, Konst::Tau, Konst::Inf, Konst::Nan, Konst::DotInf, Konst::DotNan]), if b.bool() { 0 } else { b.u8() }),
        11..=13 => {
            let two = |b: &mut engine::Bytes| if b.bool() { b.below(60).to_string() } else { format!("{:02}", b.below(60)) };
            let d = if b.below(4) == 0 { digits_from_bytes(b, 15) } else { b.below(400).to_string() };
            let m = two(b);
            let s = if b.below(5) < 3 { Some(two(b)) } else { None };
            let frac = if s.is_some() && b.bool() { Some(digits_from_bytes(b, 6)) } else { None };
            Prim::Sexa(Sexa { d, m, s, frac })
        }
        14..=16 => Prim::Paren(Box::new(expr_from_bytes(b, depth - 1)), ws_from_bytes(b)),
        _ => Prim::Func(b.bool(), if b.below(9) == 0 { 1 } else { 0 }, Box::new(expr_from_bytes(b, depth - 1)), ws_from_bytes(b)),
    }
}
fn unary_from_bytes(b: &mut engine::Bytes, depth: u32) -> Unary {
    let lead = ws_from_bytes(b);
    let signs = match b.below(17) {
        0..=9 => vec![],
        10..=13 => vec![(b.bool(), if b.below(7) == 0 { 1 } else { 0 })],
        _ => (0..2 + b.below(3)).map(|_| (b.bool(), 0u8)).collect(),
    };
    Unary { lead, signs, prim: prim_from_bytes(b, depth) }
}
fn term_from_bytes(b: &mut engine::Bytes, depth: u32) -> Term {
    let first = unary_from_bytes(b, depth);
    let n = b.below(3);
    Term { first, rest: (0..n).map(|_| (ws_from_bytes(b), b.bool(), unary_from_bytes(b, depth))).collect() }
}
fn expr_from_bytes(b: &mut engine::Bytes, depth: u32) -> Expr {
    let first = term_from_bytes(b, depth);
    let n = if b.is_empty() { 0 } else { b.below(3) };
    Expr { first, rest: (0..n).map(|_| (ws_from_bytes(b), b.bool(), term_from_bytes(b, depth))).collect() }
}

fn leaf_prim(sexa_w: u32) -> BoxedStrategy<Prim> {
    prop_oneof![
        8 => num_s().prop_map(Prim::Num),
        4 => konst_s(),
        sexa_w => sexa_s().prop_map(Prim::Sexa),
    ]
    .boxed()
}
fn signs_s() -> impl Strategy<Value = Vec<(bool, Ws)>> + Clone {
    prop_oneof![
        10 => Just(vec![]),
        4 => (any::<bool>(), prop_oneof![6 => Just(0u8), 1 => Just(1u8)]).prop_map(|s| vec![s]),
        2 => proptest::collection::vec((any::<bool>(), Just(0u8)), 2..5),
        1 => proptest::collection::vec((any::<bool>(), prop_oneof![3 => Just(0u8), 1 => Just(1u8)]), 2..4),
    ]
}
fn single(p: Prim) -> Expr {
    Expr { first: Term { first: Unary { lead: 0, signs: vec![], prim: p }, rest: vec![] }, rest: vec![] }
}
fn expr_s(sexa_w: u32, func_w: u32) -> BoxedStrategy<Expr> {
    let leaf = leaf_prim(sexa_w).prop_map(single).boxed();
    leaf.prop_recursive(5, 48, 6, move |inner| {
        let prim = prop_oneof![
            6 => leaf_prim(sexa_w),
            2 => (inner.clone(), ws_s()).prop_map(|(e, w)| Prim::Paren(Box::new(e), w)),
            func_w => (any::<bool>(), prop_oneof![8 => Just(0u8), 1 => Just(1u8)], inner.clone(), ws_s()).prop_map(|(d, w1, e, w2)| Prim::Func(d, w1, Box::new(e), w2)),
        ];
        let unary = (ws_s(), signs_s(), prim).prop_map(|(lead, signs, prim)| Unary { lead, signs, prim }).boxed();
        let term = (unary.clone(), proptest::collection::vec((ws_s(), any::<bool>(), unary), 0..3)).prop_map(|(first, rest)| Term { first, rest }).boxed();
        (term.clone(), proptest::collection::vec((ws_s(), any::<bool>(), term), 0..3)).prop_map(|(first, rest)| Expr { first, rest })
    })
    .boxed()
}
/// sums / products of unit functions and sexagesimal literals only (no bare term outside a unit
/// function): the accepted side of the `!degrees` rule
fn unitized_s() -> BoxedStrategy<Expr> {
    let inner = expr_s(0, 0);
    let atom = prop_oneof![
        6 => (any::<bool>(), Just(0u8), inner, ws_s()).prop_map(|(d, w1, e, w2)| Prim::Func(d, w1, Box::new(e), w2)),
        2 => sexa_s().prop_map(Prim::Sexa),
        1 => (any::<bool>(), sexa_s()).prop_map(|(d, s)| Prim::Func(d, 0, Box::new(single(Prim::Sexa(s))), 0)),
    ]
    .boxed();
    let level = |atom: BoxedStrategy<Prim>| {
        let unary = (ws_s(), signs_s(), atom).prop_map(|(lead, signs, prim)| Unary { lead, signs, prim }).boxed();
        let term = (unary.clone(), proptest::collection::vec((ws_s(), any::<bool>(), unary), 0..2)).prop_map(|(first, rest)| Term { first, rest }).boxed();
        (term.clone(), proptest::collection::vec((ws_s(), any::<bool>(), term), 0..3)).prop_map(|(first, rest)| Expr { first, rest }).boxed()
    };
    let l1 = level(atom.clone());
    let atom2 = prop_oneof![3 => atom, 1 => (l1.clone(), ws_s()).prop_map(|(e, w)| Prim::Paren(Box::new(e), w))].boxed();
    prop_oneof![2 => l1, 1 => level(atom2)].boxed()
}
/// post-processing of a drawn expression so that the documented domain dominates:
/// blanks: mode 0 none, 1 spaces only, 2 any; nested unit functions become parentheses and blanks
/// between unary signs are removed unless asked for
fn tidy(e: &mut Expr, ws_mode: u8, keep_nested: bool, keep_sign_blanks: bool, in_func: bool) {
    let w = |x: &mut Ws| match ws_mode {
        0 => *x = 0,
        1 => {
            if *x % 7 >= 3 {
                *x = 1
            }
        }
        _ => {}
    };
    let mut terms: Vec<&mut Term> = vec![&mut e.first];
    for r in e.rest.iter_mut() {
        w(&mut r.0);
        terms.push(&mut r.2);
    }
    for t in terms {
        let mut us: Vec<&mut Unary> = vec![&mut t.first];
        for r in t.rest.iter_mut() {
            w(&mut r.0);
            us.push(&mut r.2);
        }
        for u in us {
            w(&mut u.lead);
            let n = u.signs.len();
            for (i, s) in u.signs.iter_mut().enumerate() {
                w(&mut s.1);
                if !keep_sign_blanks && i + 1 < n {
                    s.1 = 0;
                }
            }
            if in_func && !keep_nested {
                if let Prim::Func(_, _, inner, w2) = &u.prim {
                    u.prim = Prim::Paren(inner.clone(), *w2);
                }
            }
            match &mut u.prim {
                Prim::Paren(inner, w1) => {
                    w(w1);
                    tidy(inner, ws_mode, keep_nested, keep_sign_blanks, in_func);
                }
                Prim::Func(_, w1, inner, w2) => {
                    w(w1);
                    w(w2);
                    tidy(inner, ws_mode, keep_nested, keep_sign_blanks, true);
                }
                _ => {}
            }
        }
    }
}
fn tidy_s(inner: BoxedStrategy<Expr>) -> BoxedStrategy<Expr> {
    (inner, prop_oneof![3 => Just(0u8), 4 => Just(1u8), 2 => Just(2u8)], proptest::bool::weighted(0.12), proptest::bool::weighted(0.1))
        .prop_map(|(mut e, m, nest, sb)| {
            tidy(&mut e, m, nest, sb, false);
            e
        })
        .boxed()
}
fn tag_s(deg_w: u32) -> impl Strategy<Value = Tag> + Clone {
    prop_oneof![6 => Just(Tag::None), 3 => Just(Tag::Radians), deg_w => Just(Tag::Degrees), 1 => Just(Tag::Float), 1 => Just(Tag::Custom)]
}
fn style_s() -> impl Strategy<Value = Style> + Clone {
    prop_oneof![4 => Just(Style::Plain), 3 => Just(Style::Double), 1 => Just(Style::Single), 1 => Just(Style::Literal)]
}
fn pos_s() -> impl Strategy<Value = Pos> + Clone {
    prop_oneof![3 => Just(Pos::Root), 3 => Just(Pos::Field), 1 => Just(Pos::SeqItem), 1 => Just(Pos::OptField)]
}
fn target_s() -> impl Strategy<Value = Target> + Clone {
    prop_oneof![Just(Target::F64), Just(Target::F32)]
}
fn damage_s() -> impl Strategy<Value = Damage> + Clone + use<> {
    prop_oneof![
        Just(Damage::UnclosedParen),
        Just(Damage::ExtraClose),
        (0u8..4).prop_map(Damage::TrailingOp),
        any::<bool>().prop_map(Damage::LeadingMul),
        (0u8..4).prop_map(Damage::Juxtapose),
        (0u8..8).prop_map(Damage::UnknownIdent),
        (0u8..8).prop_map(Damage::BadUnderscore),
        (0u8..5).prop_map(Damage::BadSexa),
        (0u8..5).prop_map(Damage::EmptyCall),
        (0u8..5).prop_map(Damage::BadNumber),
    ]
}

const SOUP: [&str; 67] = [
    "°", "世界", "µ",
    "1", "2", "0", "7", "2.5", "1e3", "1_0", ".5", "10.", "1e", "e", "E5", "pi", "tau", "inf", "nan", ".inf", ".nan", "PI", "Tau",
    "+", "-", "*", "/", "(", ")", "deg", "rad", "deg(", "rad(", "DEG(", ":", "1:30", "0:0:0.5", ":59", ":60", "_", ".", " ", "  ",
    "\t", "\n", "\r", "x", "0x1F", "infinity", "Infinity", "NaN", "é", "\u{a0}", "\u{c}", "\u{b}", "\u{2028}", "\u{feff}", "!", "#",
    "\"", "'", "\\", "1.5", "-.inf", "+.NAN", "1e400", "00",
];
fn soup_s() -> impl Strategy<Value = String> + Clone + use<> {
    proptest::collection::vec(proptest::sample::select(SOUP.to_vec()), 0..12).prop_map(|v| v.concat())
}

const LIT_CORPUS: [&str; 96] = [
    "0", "-0", "+0", "0.0", "-0.0", "1", "-1", "+1", "007", "12", "1.5", "-1.5", "+1.5", ".5", "-.5", "+.5", "5.", "-5.", "5.e3",
    "1e3", "1E3", "1e+3", "1e-3", "1.5e300", "1e400", "-1e400", "1e-400", "-1e-400", "4.9e-324", "5e-324", "2.4703282292062327e-324",
    "2.4703282292062328e-324", "2.2250738585072014e-308", "2.2250738585072011e-308", "1.7976931348623157e308",
    "1.7976931348623158e308", "1.7976931348623159e308", "1.797693134862315807e308", "3.4028235e38", "3.4028236e38",
    "3.4028235677973366e38", "3.40282356779733661637539395458142568448e38", "3.4028235677973367e38", "-3.4028235677973366e38",
    "1.17549435e-38", "1.1754942e-38", "1.4e-45", "1e-45", "7e-46", "7.006492321624085e-46", "7.006492321624086e-46",
    "7.0064923216240853546186479164495806564013097093825788587853914e-46", "1.00000005960464477539062500000000000000000001",
    "1.000000059604644775390625", "1.0000000596046448", "0.99999997019767761230468750000000000001", "16777217", "16777217.0",
    "16777217.000000001", "33554435", "9007199254740993", "9007199254740992", "9007199254740993.0000000001", "0.1", "0.2", "0.3",
    "0.30000000000000004", "123456789012345678901234567890", "0.000000000000000000000000000000000000000000001",
    "3.141592653589793", "6.283185307179586", "57.29577951308232", "0.017453292519943295", "1e22", "1e23", "8.41e21",
    "2.2250738585072012e-308", "179769313486231580793728971405303415079934132710037826936173778980444968292764750946649017977587207096330286416692887910946555547851940402630657488671505820681908902000708383676273854845817711531764475730270069855571366959622842914819860834936475292719074168444365510704342711559699508093042880177904174497791",
    ".inf", ".Inf", ".INF", "+.inf", "+.Inf", "+.INF", "-.inf", "-.Inf", "-.INF", ".nan", ".NaN", ".NAN",
    "1e0", "1e00", "1e-0", "0e0", "0.e0", ".0",
];

struct C19;

fn nontrivial(c: &Case) -> bool {
    match &c.body {
        Body::Expr(e, _) | Body::Bad(e, _) => {
            let mut f = Feat::default();
            feat_expr(e, 0, &mut f);
            (f.add > 0 && f.mul > 0) || f.deg + f.rad > 0 || matches!(c.tag, Tag::Degrees | Tag::Radians)
        }
        _ => false,
    }
}

type Stats = RefCell<BTreeMap<String, u64>>;
fn bump(st: &Stats, k: &str) {
    *st.borrow_mut().entry(k.to_string()).or_insert(0) += 1;
}
fn observe(st: &Stats, c: &Case) {
    bump(st, &format!("target {:?}", c.target));
    bump(st, &format!("tag {:?}", c.tag));
    if let Some(content) = content_of(c) {
        bump(st, &format!("style {:?}", effective_style(&content, c.style)));
    }
    bump(st, &format!("pos {:?}", c.pos));
    if let Body::Expr(e, _) = &c.body {
        let mut f = Feat::default();
        feat_expr(e, 0, &mut f);
        let ops = f.add + f.mul;
        bump(st, &format!("expr operators {}", match ops { 0 => "0", 1 => "1", 2..=3 => "2-3", 4..=7 => "4-7", _ => "8+" }));
        bump(st, &format!("expr nesting depth {}", match f.paren_depth { 0 => "0", 1 => "1", 2 => "2", 3 => "3", _ => "4+" }));
        if f.add > 0 && f.mul > 0 { bump(st, "expr mixes + - with * /"); }
        if f.deg > 0 { bump(st, "expr has deg()"); }
        if f.rad > 0 { bump(st, "expr has rad()"); }
        if f.sexa > 0 { bump(st, "expr has sexagesimal"); }
        if f.signs > 0 { bump(st, "expr has unary signs"); }
        if f.consts > 0 { bump(st, "expr has constants"); }
        if f.underscore > 0 { bump(st, "expr has digit separators"); }
        if f.exponent > 0 { bump(st, "expr has exponents"); }
        if f.ws > 0 { bump(st, "expr has blanks"); }
        if f.ws_ctl > 0 { bump(st, "expr has tab / line break blanks"); }
        let (exp, fl) = oracle(e, c.tag);
        bump(st, match exp { Exp::Ok(_) => "reference: value", Exp::Err => "reference: must be rejected", Exp::IfOk(_) => "reference: value if accepted", Exp::Free => "reference: free" });
        for r in fl.free_value.iter().chain(fl.free_accept.iter()) {
            bump(st, &format!("free because: {r}"));
        }
        if matches!(exp, Exp::Ok(_)) && c.tag == Tag::Degrees && f.deg + f.rad + f.sexa > 0 { bump(st, "!degrees with unit functions only, accepted"); }
    }
}

fn mk(body: Body, tag: Tag, style: Style, pos: Pos, target: Target) -> Case {
    Case { body, tag, style, pos, target }
}

impl Property for C19 {
    const ID: &'static str = "C19";
    const TRACE: bool = true;
    const CRASH_IS_VIOLATION: bool = true;
    type Case = Case;
    fn rule() -> String {
        "cases = (scalar body, tag in {none, !degrees, !radians, !!float, !mytag}, scalar style, position root/field/sequence item, target f32/f64); every case is deserialized with angle_conversions on and off. Bodies: expression ASTs shaped like the grammar (numbers with separators and exponents, pi/tau/inf/nan/.inf/.nan in any case, + - * /, unary sign chains, parentheses, deg()/rad(), sexagesimal, blanks incl. tab/LF/CR) rendered by the harness and compared bit for bit (NaN == NaN) with a reference evaluator over the AST (f32 = f64 result `as f32`); an exhaustive space of 3-operand expressions over 6 operands x 4 operators x 3 parenthesisations x 3 tags; expressions damaged in a way the docs list as an error; ordinary float literals (YAML core schema spellings: fixed corpus, random f64/f32 shortest and long spellings, f32 midpoints) on == off == std; token soup and arbitrary strings (totality, option-off rule, !radians/!degrees/f32 relations); raw bytes (totality); pathological inputs on a 1 MiB stack with allocation counts (parentheses 1..1e6, digit runs to 2e6, sign chains, long operator chains). Non-trivial: expression with both an additive and a multiplicative operator, or a unit function, or a !degrees/!radians tag. distinct = distinct case.".into()
    }
    fn assumptions() -> Vec<String> {
        vec![
            "std's str::parse::<f64/f32> is the reference decimal conversion".into(),
            "untagged sexagesimal outside a unit function: both the README/test reading (seconds) and the module-doc reading (degrees -> radians) are accepted".into(),
            "nested unit functions, sexagesimal inside rad(), blanks between unary signs, tags other than !degrees/!radians, more than 1000 digits / 255..300 nesting levels: not fixed by the docs, only totality (and exactness when accepted where a value is defined)".into(),
            "Rust-isms accepted by the option-off path (inf, infinity, nan, any-case dot forms, +.nan) are Free".into(),
            "the work bound is on allocator calls / bytes of the option-on call (not on CPU time)".into(),
        ]
    }
    fn check(c: &Case) -> Outcome {
        match check_case(c) {
            Ok(()) => Outcome::Pass,
            Err(Bad::Discard(w)) => Outcome::Discard(w),
            Err(Bad::Fail(m)) => Outcome::Fail(m),
        }
    }
    fn signatures(c: &Case) -> Vec<&'static str> {
        if sig_f32_double_rounding(c) {
            return vec!["f32_literal_double_rounding"];
        }
        if sig_non_ascii_after_number(c) {
            return vec!["non_ascii_within_4_bytes_of_number_start"];
        }
        vec![]
    }
    fn shrink(c: &Case) -> Vec<Case> {
        let mut out = vec![];
        if c.style != Style::Double {
            out.push(Case { style: Style::Double, ..c.clone() });
        }
        if c.pos != Pos::Root {
            out.push(Case { pos: Pos::Root, ..c.clone() });
        }
        if c.tag != Tag::None {
            out.push(Case { tag: Tag::None, ..c.clone() });
        }
        match &c.body {
            Body::Expr(e, t) => {
                for s in sub_exprs(e) {
                    out.push(Case { body: Body::Expr(s, 0), ..c.clone() });
                }
                if *t != 0 {
                    out.push(Case { body: Body::Expr(e.clone(), 0), ..c.clone() });
                }
                let mut e2 = e.clone();
                strip_ws(&mut e2);
                if &e2 != e {
                    out.push(Case { body: Body::Expr(e2, *t), ..c.clone() });
                }
            }
            Body::Bad(e, d) => {
                for s in sub_exprs(e) {
                    out.push(Case { body: Body::Bad(s, *d), ..c.clone() });
                }
                let one = single(Prim::Num(Num::simple("1")));
                if e != &one {
                    out.push(Case { body: Body::Bad(one, *d), ..c.clone() });
                }
            }
            Body::Text(s) => {
                let ch: Vec<char> = s.chars().collect();
                if ch.len() > 4 {
                    out.push(Case { body: Body::Text(ch[..ch.len() / 2].iter().collect()), ..c.clone() });
                    out.push(Case { body: Body::Text(ch[ch.len() / 2..].iter().collect()), ..c.clone() });
                }
                if ch.len() <= 64 {
                    for i in 0..ch.len() {
                        let mut v = ch.clone();
                        v.remove(i);
                        out.push(Case { body: Body::Text(v.into_iter().collect()), ..c.clone() });
                    }
                }
            }
            Body::Bytes(b) => {
                if b.len() <= 64 {
                    for i in 0..b.len() {
                        let mut v = b.clone();
                        v.remove(i);
                        out.push(Case { body: Body::Bytes(v), ..c.clone() });
                    }
                }
            }
            Body::Lit(s, a, b) => {
                if *a != 0 || *b != 0 {
                    out.push(Case { body: Body::Lit(s.clone(), 0, 0), ..c.clone() });
                }
            }
            Body::Patho(k, n) => {
                for m in [n / 2, n - 1] {
                    if m >= 1 && m < *n {
                        out.push(Case { body: Body::Patho(*k, m), ..c.clone() });
                    }
                }
            }
            Body::Scaling(..) => {}
            Body::Swap { ctx, x, y, mul } => {
                if *ctx != 0 {
                    out.push(Case { body: Body::Swap { ctx: 0, x: x.clone(), y: y.clone(), mul: *mul }, ..c.clone() });
                }
            }
        }
        out
    }
    fn selfcheck() -> Result<(), String> {
        selfcheck()
    }
    /// libFuzzer input: tag, position, target, then either an expression AST (numbers, constants,
    /// sexagesimal literals, parentheses, unit functions, signs, blanks; depth <= 3) that is
    /// rendered and compared with the reference evaluator, or up to 16 tokens of the soup alphabet
    /// (a byte >= 0xC0 is taken as a raw ASCII character instead), for which totality, the
    /// option-off rule and the tag / width relations are the oracle
    fn fuzz_decode(data: &[u8]) -> Option<(&'static str, Case, bool)> {
        let mut b = engine::Bytes::new(data);
        let tag = b.pick(&[Tag::None, Tag::None, Tag::None, Tag::Degrees, Tag::Radians, Tag::Float, Tag::Custom]);
        let pos = b.pick(&[Pos::Root, Pos::Root, Pos::Root, Pos::Field, Pos::Field, Pos::Field, Pos::SeqItem, Pos::OptField]);
        let target = b.pick(&[Target::F64, Target::F32]);
        if b.below(3) != 0 {
            // two inputs out of three: an expression AST (compared with the reference evaluator)
            let style = b.pick(&[Style::Plain, Style::Plain, Style::Double, Style::Double, Style::Single, Style::Literal]);
            let (m, nest, sb) = (b.below(3) as u8, b.below(8) == 0, b.below(10) == 0);
            let trail = if b.below(5) == 0 { ws_from_bytes(&mut b) } else { 0 };
            let mut e = expr_from_bytes(&mut b, 3);
            tidy(&mut e, m, nest, sb, false);
            let c = mk(Body::Expr(e, trail), tag, style, pos, target);
            let nt = nontrivial(&c);
            return Some(("fuzz-expr", c, nt));
        }
        let mut s = String::new();
        for x in b.take(16) {
            if *x >= 0xC0 {
                s.push((0x20 + (*x - 0xC0)) as char);
            } else {
                s.push_str(SOUP[*x as usize % SOUP.len()]);
            }
        }
        // non-trivial: a digit together with an operator, parenthesis, unit function or colon
        let nt = s.bytes().any(|x| x.is_ascii_digit()) && (s.bytes().any(|x| matches!(x, b'+' | b'-' | b'*' | b'/' | b'(' | b':')) || s.contains("deg") || s.contains("rad"));
        let c = mk(Body::Text(s), tag, Style::Double, pos, target);
        Some(("fuzz-soup", c, nt))
    }
    fn generate(ctx: &mut Ctx<Self>) {
        generate(ctx)
    }
}

fn sub_exprs(e: &Expr) -> Vec<Expr> {
    let mut out = vec![];
    // drop trailing operands
    if !e.rest.is_empty() {
        let mut x = e.clone();
        x.rest.pop();
        out.push(x);
        let mut x = e.clone();
        let (_, _, t) = x.rest.remove(0);
        x.first = t;
        out.push(x);
    }
    let terms: Vec<&Term> = std::iter::once(&e.first).chain(e.rest.iter().map(|r| &r.2)).collect();
    for (ti, t) in terms.iter().enumerate() {
        if !t.rest.is_empty() {
            let mut t2 = (*t).clone();
            t2.rest.pop();
            out.push(replace_term(e, ti, t2));
            let mut t2 = (*t).clone();
            let (_, _, u) = t2.rest.remove(0);
            t2.first = u;
            out.push(replace_term(e, ti, t2));
        }
        let unaries: Vec<&Unary> = std::iter::once(&t.first).chain(t.rest.iter().map(|r| &r.2)).collect();
        for (ui, u) in unaries.iter().enumerate() {
            match &u.prim {
                Prim::Paren(inner, _) | Prim::Func(_, _, inner, _) => {
                    out.push((**inner).clone());
                    for s in sub_exprs(inner) {
                        let mut u2 = (*u).clone();
                        match &mut u2.prim {
                            Prim::Paren(i, _) | Prim::Func(_, _, i, _) => **i = s,
                            _ => {}
                        }
                        out.push(replace_term(e, ti, replace_unary(t, ui, u2)));
                    }
                }
                Prim::Num(n) if *n != Num::simple("2") && terms.len() + unaries.len() <= 6 => {
                    let mut u2 = (*u).clone();
                    u2.prim = Prim::Num(Num::simple("2"));
                    out.push(replace_term(e, ti, replace_unary(t, ui, u2)));
                }
                _ => {}
            }
            if !u.signs.is_empty() {
                let mut u2 = (*u).clone();
                u2.signs.pop();
                out.push(replace_term(e, ti, replace_unary(t, ui, u2)));
            }
        }
    }
    out
}
fn replace_term(e: &Expr, i: usize, t: Term) -> Expr {
    let mut x = e.clone();
    if i == 0 {
        x.first = t;
    } else {
        x.rest[i - 1].2 = t;
    }
    x
}
fn replace_unary(t: &Term, i: usize, u: Unary) -> Term {
    let mut x = t.clone();
    if i == 0 {
        x.first = u;
    } else {
        x.rest[i - 1].2 = u;
    }
    x
}
fn strip_ws(e: &mut Expr) {
    fn u(x: &mut Unary) {
        x.lead = 0;
        for s in x.signs.iter_mut() {
            s.1 = 0;
        }
        match &mut x.prim {
            Prim::Paren(e, w) => {
                *w = 0;
                strip_ws(e)
            }
            Prim::Func(_, w1, e, w2) => {
                *w1 = 0;
                *w2 = 0;
                strip_ws(e)
            }
            _ => {}
        }
    }
    fn t(x: &mut Term) {
        u(&mut x.first);
        for r in x.rest.iter_mut() {
            r.0 = 0;
            u(&mut r.2);
        }
    }
    t(&mut e.first);
    for r in e.rest.iter_mut() {
        r.0 = 0;
        t(&mut r.2);
    }
}

// ------------------------------------------------------------------------------------------
// self check of the model against the examples spelled out in the documents

fn op3(a: Prim, o1: char, b: Prim, o2: char, c: Prim, shape: u8) -> Expr {
    // shape 0: a o1 b o2 c ; 1: (a o1 b) o2 c ; 2: a o1 (b o2 c)
    let un = |p: Prim| Unary { lead: 0, signs: vec![], prim: p };
    fn join(items: Vec<(char, Unary)>) -> Expr {
        // build the grammar-shaped tree of a flat operator chain (first op char is ignored)
        let mut terms: Vec<(bool, Term)> = vec![];
        for (i, (op, u)) in items.into_iter().enumerate() {
            if i == 0 {
                terms.push((false, Term { first: u, rest: vec![] }));
            } else {
                match op {
                    '*' | '/' => terms.last_mut().unwrap().1.rest.push((0, op == '/', u)),
                    _ => terms.push((op == '-', Term { first: u, rest: vec![] })),
                }
            }
        }
        let mut it = terms.into_iter();
        let first = it.next().unwrap().1;
        Expr { first, rest: it.map(|(m, t)| (0, m, t)).collect() }
    }
    match shape {
        0 => join(vec![(' ', un(a)), (o1, un(b)), (o2, un(c))]),
        1 => {
            let inner = join(vec![(' ', un(a)), (o1, un(b))]);
            join(vec![(' ', un(Prim::Paren(Box::new(inner), 0))), (o2, un(c))])
        }
        _ => {
            let inner = join(vec![(' ', un(b)), (o2, un(c))]);
            join(vec![(' ', un(a)), (o1, un(Prim::Paren(Box::new(inner), 0)))])
        }
    }
}
fn numf(s: &str) -> Prim {
    Prim::Num(parse_num(s))
}
fn selfcheck() -> Result<(), String> {
    use std::f64::consts::PI;
    let num = |s: &str| numf(s);
    let expect = |e: &Expr, tag: Tag, text: &str, want: Option<f64>| -> Result<(), String> {
        let r = render(e, 0);
        if r != text {
            return Err(format!("render gives {r:?}, expected {text:?}"));
        }
        match (oracle(e, tag).0, want) {
            (Exp::Ok(v), Some(w)) if v[0].to_bits() == w.to_bits() => Ok(()),
            (Exp::Err, None) => Ok(()),
            (o, w) => Err(format!("model gives {o:?} for {text:?} under {tag:?}, documents say {w:?}")),
        }
    };
    // [MD]/[UT] 1 + 2*(3 - 4/5) = 5.4 ; 3 + 4*2 / (1 - 5)
    let inner = op3(num("3"), '-', num("4"), '/', num("5"), 0);
    let e = op3(num("1"), '+', num("2"), '*', Prim::Paren(Box::new(inner), 0), 0);
    expect(&e, Tag::None, "1+2*(3-4/5)", Some(1.0 + 2.0 * (3.0 - 4.0 / 5.0)))?;
    expect(&op3(num("2"), '-', num("3"), '-', num("4"), 0), Tag::None, "2-3-4", Some(-5.0))?;
    expect(&op3(num("2"), '/', num("4"), '/', num("8"), 0), Tag::None, "2/4/8", Some(0.0625))?;
    expect(&op3(num("2"), '+', num("3"), '*', num("4"), 1), Tag::None, "(2+3)*4", Some(20.0))?;
    let deg180 = single(Prim::Func(true, 0, Box::new(single(num("180"))), 0));
    expect(&deg180, Tag::None, "deg(180)", Some(PI))?;
    expect(&deg180, Tag::Degrees, "deg(180)", Some(PI))?; // [UT] function_overrides_tag
    expect(&single(num("180")), Tag::Degrees, "180", Some(PI))?; // [UT] tags_without_functions
    let two_pi = op3(num("2"), '*', Prim::Const(Konst::Pi, 0), '*', num("1"), 0);
    expect(&two_pi, Tag::Degrees, "2*pi*1", Some((2.0 * PI) * (PI / 180.0)))?;
    // [UT] mixed_units_with_degrees_tag_errors: deg(90) + 90, rad(1) + pi/2, 30:0:0 + 90
    let d90 = Prim::Func(true, 0, Box::new(single(num("90"))), 0);
    expect(&op3(d90.clone(), '+', num("90"), '*', num("1"), 0), Tag::Degrees, "deg(90)+90*1", None)?;
    let sx = Prim::Sexa(Sexa { d: "30".into(), m: "0".into(), s: Some("0".into()), frac: None });
    expect(&op3(sx.clone(), '+', num("90"), '*', num("1"), 0), Tag::Degrees, "30:0:0+90*1", None)?;
    expect(&op3(d90.clone(), '+', num("90"), '*', num("1"), 0), Tag::Radians, "deg(90)+90*1", Some(90.0 * DEG2RAD + 90.0))?;
    // [IT] time_secs: -01:02:03 = -3723 ; deg(8:32:53.2) = !degrees 8:32:53.2 = !radians 8:32:53.2
    let t = Sexa { d: "01".into(), m: "02".into(), s: Some("03".into()), frac: None };
    if t.seconds() != 3723.0 {
        return Err("sexagesimal seconds model".into());
    }
    let a = Sexa { d: "8".into(), m: "32".into(), s: Some("53".into()), frac: Some("2".into()) };
    let degs = 8.0 + 32.0 / 60.0 + 53.2 / 3600.0;
    if (a.degrees() - degs).abs() > 1e-12 {
        return Err("sexagesimal degrees model".into());
    }
    for tag in [Tag::Degrees, Tag::Radians] {
        match oracle(&single(Prim::Sexa(a.clone())), tag).0 {
            Exp::Ok(v) if (v[0] - degs * (PI / 180.0)).abs() < 1e-12 => {}
            o => return Err(format!("tagged sexagesimal model gives {o:?}")),
        }
    }
    // recognisers
    for ok in ["1", "-1.5", "+.5", "5.", "5.e3", "1e3", "1E-3", ".inf", "-.INF", ".NaN", "007"] {
        if !core_literal(ok) {
            return Err(format!("core_literal rejects {ok}"));
        }
    }
    for bad in ["", ".", "e5", "1e", "1_0", "inf", "+.nan", ".iNf", "1 ", "--1", "0x1F", "1e+", "+", "1.5.2", "Infinity"] {
        if core_literal(bad) {
            return Err(format!("core_literal accepts {bad}"));
        }
    }
    for s in LIT_CORPUS.iter() {
        if !core_literal(s) {
            return Err(format!("literal corpus entry {s} is outside the core grammar"));
        }
    }
    for s in NUM_CORPUS.iter() {
        if !parse_num(s).valid() {
            return Err(format!("number corpus entry {s} is not a valid token"));
        }
        let mut o = String::new();
        parse_num(s).render(&mut o);
        if &o != s {
            return Err(format!("number corpus entry {s} renders as {o}"));
        }
    }
    // the known-finding signature holds on its witness spelling and not on a harmless one
    let w = |s: &str| mk(Body::Lit(s.into(), 0, 0), Tag::None, Style::Plain, Pos::Root, Target::F32);
    if !sig_f32_double_rounding(&w("1.00000005960464477539062500000000000000000001")) || sig_f32_double_rounding(&w("1.5")) {
        return Err("double rounding signature".into());
    }
    Ok(())
}

// ------------------------------------------------------------------------------------------
// worker body

fn flush(ctx: &mut Ctx<C19>, st: &Stats, prefix: &str) {
    for (k, v) in std::mem::take(&mut *st.borrow_mut()) {
        ctx.class_n(&format!("{prefix}: {k}"), v);
    }
    MAXIMA.with(|m| {
        for (k, v) in m.borrow().iter() {
            ctx.maximum(k, *v);
        }
    });
}

fn spellings64(bits: u64, how: u8) -> Option<String> {
    let f = f64::from_bits(bits);
    if !f.is_finite() {
        return None;
    }
    Some(match how % 6 {
        0 => format!("{f:e}"),
        1 => format!("{f}"),
        2 => format!("{f:.25e}"),
        3 => format!("{f:E}"),
        4 => format!("{:.17e}", f),
        _ => format!("{f:.3e}"),
    })
}
/// exact decimal expansion of a finite f64 (all digits)
fn exact_decimal(f: f64) -> String {
    let s = format!("{f:.1100}");
    let s = s.trim_end_matches('0');
    if s.ends_with('.') { format!("{s}0") } else { s.to_string() }
}
fn spellings32(bits: u32, how: u8) -> Option<String> {
    let f = f32::from_bits(bits);
    if !f.is_finite() {
        return None;
    }
    let next = f32::from_bits(bits.wrapping_add(1));
    Some(match how % 8 {
        0 => format!("{f:e}"),
        1 => format!("{f}"),
        2 => format!("{:e}", f as f64),
        3 => format!("{:.12e}", f as f64),
        // the midpoint between two adjacent f32 values (exactly representable in f64), and just
        // above / below it: the double-rounding family
        4 | 5 | 6 if next.is_finite() && (f > 0.0 || bits == 0) => {
            let mid = (f as f64 + next as f64) / 2.0;
            let mut d = exact_decimal(mid);
            if d.len() > 700 {
                return None;
            }
            match how % 8 {
                4 => {}
                5 => d.push_str("0000000000000000000000001"),
                _ => {
                    // just below: decrement the last digit (never '0' after trimming) and append 9s
                    let last = d.pop()?;
                    if !last.is_ascii_digit() || last == '0' {
                        return None;
                    }
                    d.push(((last as u8) - 1) as char);
                    d.push_str("9999999999999999999999999");
                }
            }
            d
        }
        _ => format!("{:.9e}", f),
    })
}

fn generate(ctx: &mut Ctx<C19>) {
    let thorough = ctx.tier == Tier::Thorough;
    let st: std::rc::Rc<Stats> = std::rc::Rc::new(RefCell::new(BTreeMap::new()));
    let st2 = st.clone();
    let nt = move |c: &Case| {
        observe(&st2, c);
        nontrivial(c)
    };
    let common = || (style_s(), pos_s(), target_s());

    // --- random expressions ------------------------------------------------------------------
    let strat = (tidy_s(expr_s(1, 2)), prop_oneof![4 => Just(0u8), 1 => ws_s()], tag_s(3), common())
        .prop_map(|(e, t, tag, (style, pos, target))| mk(Body::Expr(e, t), tag, style, pos, target));
    ctx.run_strategy("expr-random", 1, ctx.tier.pick(25_000, 400_000), &strat, nt.clone());
    flush(ctx, &st, "expr-random");
    let strat = (tidy_s(expr_s(0, 0)), prop_oneof![4 => Just(0u8), 1 => ws_s()], tag_s(3), common())
        .prop_map(|(e, t, tag, (style, pos, target))| mk(Body::Expr(e, t), tag, style, pos, target));
    ctx.run_strategy("expr-arithmetic", 2, ctx.tier.pick(12_000, 250_000), &strat, nt.clone());
    flush(ctx, &st, "expr-arithmetic");
    let strat = (tidy_s(unitized_s()), prop_oneof![4 => Just(0u8), 1 => ws_s()], tag_s(12), common())
        .prop_map(|(e, t, tag, (style, pos, target))| mk(Body::Expr(e, t), tag, style, pos, target));
    ctx.run_strategy("expr-unitized", 3, ctx.tier.pick(10_000, 200_000), &strat, nt.clone());
    flush(ctx, &st, "expr-unitized");
    let strat = (tidy_s(expr_s(1, 2)), damage_s(), tag_s(3), common())
        .prop_map(|(e, d, tag, (style, pos, target))| mk(Body::Bad(e, d), tag, style, pos, target));
    ctx.run_strategy("expr-damaged", 4, ctx.tier.pick(6_000, 120_000), &strat, nt.clone());
    flush(ctx, &st, "expr-damaged");

    // --- sexagesimal seconds: every SS.f / SS.ff / SS.fff ----------------------------------------
    // (the seconds field is one decimal literal; whole seconds + fraction rounds twice and is off
    // by one ulp for about 1 % of these)
    {
        let mut idx = 0u64;
        let stride = ctx.tier.pick(3u64, 1u64);
        for ss in 0..60u32 {
            for digits in 1..=3usize {
                for f in 0..10u32.pow(digits as u32) {
                    idx += 1;
                    if !ctx.mine(idx) || idx % stride != 0 {
                        continue;
                    }
                    let sx = Sexa { d: ["0", "1", "12"][(idx % 3) as usize].into(), m: ["0", "30"][(idx % 2) as usize].into(), s: Some(format!("{ss}")), frac: Some(format!("{f:0w$}", w = digits)) };
                    let e = single(Prim::Sexa(sx));
                    let (tag, wrap_deg) = [(Tag::None, false), (Tag::Degrees, false), (Tag::Radians, false), (Tag::None, true)][((idx / 6) % 4) as usize];
                    let e = if wrap_deg { single(Prim::Func(true, 0, Box::new(e), 0)) } else { e };
                    let c = mk(Body::Expr(e, 0), tag, Style::Plain, Pos::Root, Target::F64);
                    ctx.case("sexagesimal-seconds-sweep", &c, true);
                }
            }
        }
        // long first fields (above 2^53 a digit-by-digit sum rounds once per digit)
        let mut st64 = 0x9E3779B97F4A7C15u64 ^ ctx.seed;
        for k in 0..ctx.tier.pick(6_000u64, 60_000u64) {
            idx += 1;
            st64 = st64.wrapping_mul(6364136223846793005).wrapping_add(1442695040888963407);
            if !ctx.mine(idx) {
                continue;
            }
            let ndig = 16 + (st64 >> 60) as usize % 6;
            let mut d = String::new();
            let mut x = st64;
            for i in 0..ndig {
                x = x.wrapping_mul(6364136223846793005).wrapping_add(1442695040888963407);
                let dg = ((x >> 33) % 10) as u8;
                d.push((b'0' + if i == 0 && dg == 0 { 1 } else { dg }) as char);
            }
            let sx = Sexa { d, m: ["00", "30", "59"][(k % 3) as usize].into(), s: None, frac: None };
            let e = single(Prim::Sexa(sx));
            let (tag, wrap_deg) = [(Tag::None, false), (Tag::Degrees, false), (Tag::None, true)][((k / 3) % 3) as usize];
            let e = if wrap_deg { single(Prim::Func(true, 0, Box::new(e), 0)) } else { e };
            let c = mk(Body::Expr(e, 0), tag, Style::Plain, Pos::Root, Target::F64);
            ctx.case("sexagesimal-long-first-field", &c, true);
        }
        ctx.subspace("seconds 0..59 x every fraction of 1-3 digits (quick: every third) x degrees / minutes rotation x {untagged, !degrees, !radians, deg(..)}", idx, ctx.tier.pick(false, true));
    }
    flush(ctx, &st, "sexagesimal-seconds-sweep");

    // --- exhaustive three-operand expressions ------------------------------------------------
    let operands: Vec<Prim> = vec![
        numf("3"),
        numf("0.7"),
        Prim::Const(Konst::Pi, 0),
        Prim::Func(true, 0, Box::new(single(numf("50"))), 0),
        Prim::Func(false, 0, Box::new(single(numf("2"))), 0),
        Prim::Sexa(Sexa { d: "1".into(), m: "30".into(), s: None, frac: None }),
    ];
    let ops = ['+', '-', '*', '/'];
    let mut idx = 0u64;
    for a in &operands {
        for b in &operands {
            for c in &operands {
                for o1 in ops {
                    for o2 in ops {
                        for shape in 0..3u8 {
                            for tag in [Tag::None, Tag::Degrees, Tag::Radians] {
                                for target in [Target::F64, Target::F32] {
                                    idx += 1;
                                    if !ctx.mine(idx) {
                                        continue;
                                    }
                                    let e = op3(a.clone(), o1, b.clone(), o2, c.clone(), shape);
                                    let style = if idx % 3 == 0 { Style::Double } else { Style::Plain };
                                    let case = mk(Body::Expr(e, 0), tag, style, Pos::Field, target);
                                    let n = nt(&case);
                                    ctx.case("expr-exhaustive-3", &case, n);
                                }
                            }
                        }
                    }
                }
            }
        }
    }
    ctx.subspace("a o1 b o2 c: 6 operands^3 x 4 operators^2 x 3 parenthesisations x 3 tags x 2 targets", idx, true);
    flush(ctx, &st, "expr-exhaustive-3");

    // --- ordinary float literals --------------------------------------------------------------
    let mut idx = 0u64;
    let pads: [(Ws, Ws); 4] = [(0, 0), (1, 1), (0, 4), (3, 5)];
    for lit in LIT_CORPUS.iter() {
        for (a, b) in pads {
            for style in [Style::Plain, Style::Double, Style::Single, Style::Literal] {
                for pos in [Pos::Root, Pos::Field, Pos::SeqItem] {
                    for tag in [Tag::None, Tag::Radians] {
                        for target in [Target::F64, Target::F32] {
                            idx += 1;
                            if !ctx.mine(idx) {
                                continue;
                            }
                            if (a, b) != (0, 0) && style != Style::Double {
                                continue;
                            }
                            let case = mk(Body::Lit(lit.to_string(), a, b), tag, style, pos, target);
                            ctx.case("literal-corpus", &case, false);
                        }
                    }
                }
            }
        }
    }
    ctx.subspace("literal corpus (96 spellings) x styles x positions x {none, !radians} x targets", idx, true);
    let strat = (any::<u64>(), any::<u8>(), any::<bool>(), tag_s(0), common()).prop_filter_map("non-finite", |(bits, how, neg, tag, (style, pos, target))| {
        let s = spellings64(bits & !(1 << 63), how)?;
        let s = if neg { format!("-{s}") } else { s };
        let tag = if matches!(tag, Tag::None | Tag::Radians) { tag } else { Tag::None };
        Some(mk(Body::Lit(s, 0, 0), tag, style, pos, target))
    });
    ctx.run_strategy("literal-random-f64", 5, ctx.tier.pick(20_000, 400_000), &strat, nt.clone());
    let strat = (any::<u32>(), any::<u8>(), any::<bool>(), style_s(), pos_s(), prop_oneof![1 => Just(Target::F64), 3 => Just(Target::F32)]).prop_filter_map(
        "non-finite",
        |(bits, how, neg, style, pos, target)| {
            let s = spellings32(bits & 0x7fff_ffff, how)?;
            let s = if neg { format!("-{s}") } else { s };
            Some(mk(Body::Lit(s, 0, 0), Tag::None, style, pos, target))
        },
    );
    ctx.run_strategy("literal-random-f32", 6, ctx.tier.pick(20_000, 400_000), &strat, nt.clone());
    // decimal strings that are not the image of any float formatting
    let strat = ("[0-9]{1,25}", proptest::option::of("[0-9]{0,30}"), proptest::option::of((any::<bool>(), 0u8..3, 0u32..400)), any::<u8>(), common()).prop_map(
        |(i, f, e, sign, (style, pos, target))| {
            let mut s = String::new();
            match sign % 4 {
                1 => s.push('-'),
                2 => s.push('+'),
                _ => {}
            }
            s.push_str(&i);
            if let Some(f) = f {
                s.push('.');
                s.push_str(&f);
            }
            if let Some((up, sg, d)) = e {
                s.push(if up { 'E' } else { 'e' });
                s.push_str(["", "+", "-"][sg as usize]);
                s.push_str(&d.to_string());
            }
            mk(Body::Lit(s, 0, 0), Tag::None, style, pos, target)
        },
    );
    ctx.run_strategy("literal-random-decimal", 7, ctx.tier.pick(20_000, 400_000), &strat, nt.clone());
    flush(ctx, &st, "literal");

    // --- operand order (commutation) ---------------------------------------------------------------
    {
        let mut idx = 0u64;
        for (i, x) in SWAP_ATOMS.iter().enumerate() {
            for y in SWAP_ATOMS.iter().skip(i + 1) {
                for k in 0..SWAP_CTX.len() as u8 {
                    for mul in [false, true] {
                        for tag in [Tag::None, Tag::Degrees, Tag::Radians] {
                            idx += 1;
                            if !ctx.mine(idx) {
                                continue;
                            }
                            let target = if idx % 5 == 0 { Target::F32 } else { Target::F64 };
                            let c = mk(Body::Swap { ctx: k, x: x.to_string(), y: y.to_string(), mul }, tag, Style::Double, Pos::Root, target);
                            ctx.case("operand-order", &c, true);
                        }
                    }
                }
            }
        }
        ctx.subspace("pairs of 26 operand atoms x 7 contexts x {+, *} x 3 tags: both operand orders", idx, true);
    }

    // --- token soup, strings, bytes -----------------------------------------------------------
    let strat = (soup_s(), pos_s(), target_s()).prop_map(|(s, pos, target)| mk(Body::Text(s), Tag::None, Style::Double, pos, target));
    ctx.run_strategy("soup-tokens", 8, ctx.tier.pick(25_000, 400_000), &strat, nt.clone());
    // a valid expression with one random character edit
    let strat = (expr_s(1, 2), any::<u16>(), proptest::sample::select(SOUP.to_vec()), 0u8..3, target_s()).prop_map(|(e, at, tok, how, target)| {
        let text = render(&e, 0);
        let ch: Vec<char> = text.chars().collect();
        let i = engine::pick_idx(at, ch.len() + 1);
        let mut out: String = ch[..i].iter().collect();
        match how {
            0 => {
                out.push_str(tok);
                out.extend(ch[i..].iter());
            }
            1 => out.extend(ch[(i + 1).min(ch.len())..].iter()),
            _ => {
                out.push_str(tok);
                out.extend(ch[(i + 1).min(ch.len())..].iter());
            }
        }
        mk(Body::Text(out), Tag::None, Style::Double, Pos::Root, target)
    });
    ctx.run_strategy("soup-edited-expression", 9, ctx.tier.pick(15_000, 300_000), &strat, nt.clone());
    let strat = (proptest::collection::vec(any::<char>(), 0..10), target_s()).prop_map(|(v, target)| mk(Body::Text(v.into_iter().collect()), Tag::None, Style::Double, Pos::Root, target));
    ctx.run_strategy("string-random", 10, ctx.tier.pick(5_000, 100_000), &strat, nt.clone());
    let strat = ("\\PC{0,16}", target_s()).prop_map(|(s, target)| mk(Body::Text(s), Tag::None, Style::Double, Pos::Field, target));
    ctx.run_strategy("string-printable", 11, ctx.tier.pick(5_000, 100_000), &strat, nt.clone());
    let alphabet: Vec<u8> = b"0123456789.eE_+-*/(): \t\npitaunfdegr!\"'#\xc3\xa9\xff\x00".to_vec();
    let strat = (prop_oneof![proptest::collection::vec(any::<u8>(), 0..24), proptest::collection::vec(proptest::sample::select(alphabet), 0..24)], target_s())
        .prop_map(|(b, target)| mk(Body::Bytes(b), Tag::None, Style::Plain, Pos::Root, target));
    ctx.run_strategy("bytes-random", 12, ctx.tier.pick(10_000, 200_000), &strat, nt.clone());
    flush(ctx, &st, "soup");

    // --- pathological inputs ------------------------------------------------------------------
    let mut sizes: Vec<usize> = vec![1, 2, 10, 100, 200, 254, 255, 256, 257, 258, 299, 300, 301, 1000, 1001, 4096, 65_536, 100_000, 999_999, 1_000_000, 1_000_001, 1_000_002, 2_000_000];
    if thorough {
        sizes.extend([150_000, 500_000, 4_000_000, 10_000_000]);
    }
    let mut idx = 0u64;
    for k in PK_ALL {
        for &n in &sizes {
            for (tag, target) in [(Tag::None, Target::F64), (Tag::None, Target::F32), (Tag::Degrees, Target::F64)] {
                idx += 1;
                if !ctx.mine(idx) {
                    continue;
                }
                let case = mk(Body::Patho(k, n), tag, Style::Double, Pos::Root, target);
                ctx.class(&format!("patho: {:?}", patho_class(k, n, tag)));
                ctx.case("patho", &case, false);
            }
        }
    }
    ctx.subspace("pathological kinds x sizes x (tag, target)", idx, true);
    let mut idx = 0u64;
    for k in PK_ALL {
        for n in [20_000usize, 250_000] {
            idx += 1;
            if ctx.mine(idx) {
                let case = mk(Body::Scaling(k, n), Tag::None, Style::Double, Pos::Root, Target::F64);
                ctx.case("alloc-scaling", &case, false);
            }
        }
    }
    flush(ctx, &st, "patho");
}
fn patho_class(k: PK, n: usize, tag: Tag) -> &'static str {
    match patho_expect(k, n, tag) {
        Exp::Ok(_) => "must be accepted with exact value",
        Exp::Err => "must be rejected",
        Exp::IfOk(_) => "exact if accepted",
        Exp::Free => "totality only",
    }
}

fn main() {
    let args: Vec<String> = std::env::args().collect();
    if args.get(1).map(|s| s.as_str()) == Some("eval") {
        // development aid: `c19 eval <on|off> <f32|f64>` reads a YAML document from stdin
        use std::io::Read;
        let mut s = String::new();
        std::io::stdin().read_to_string(&mut s).unwrap();
        let angle = args.get(2).map(|s| s == "on").unwrap_or(true);
        if args.get(3).map(|s| s == "f32").unwrap_or(false) {
            println!("{}", show_r(&lib::<f32>(&s, Pos::Root, angle)));
        } else {
            println!("{}", show_r(&lib::<f64>(&s, Pos::Root, angle)));
        }
        return;
    }
    engine::main::<C19>()
}

/// entry point of the libFuzzer target `fuzz/fuzz_targets/c19.rs`
#[allow(dead_code)]
pub fn fuzz(data: &[u8]) {
    engine::fuzz_one::<C19>(data)
}
