//! C15 – a call's result depends only on its arguments, not on earlier or nested calls.
//!
//! A case is a *history*: a sequence of calls over a fixed alphabet.  Every call kind has a fixed
//! input and an *observation* (a string: value, or error text + location, pointer-equality
//! classes, emitted text).  All calls of a history run one after the other on ONE fresh thread;
//! each observation must equal the observation of the same call executed alone on a fresh thread.
//! A nested call runs inside the `Deserialize` impl of a field of an outer document; its inner
//! observation must equal the isolated observation of the inner call and the outer observation
//! must equal that of the same outer document parsed without any nested call.
use proptest::prelude::*;
use serde::{Deserialize, Serialize};
use serde_saphyr::{ArcAnchor, ArcWeakAnchor, RcAnchor, RcRecursion, RcRecursive, RcWeakAnchor};
use std::cell::{Cell, RefCell};
use std::collections::{BTreeMap, HashMap};
use std::rc::Rc;
use std::sync::{Arc, Mutex, OnceLock};
use vcheck::engine::{self, Caught, Ctx, Outcome, Property};

// ------------------------------------------------------------------------------------------
// alphabet

#[derive(Clone, Copy, Debug, Serialize, Deserialize, PartialEq, Eq, Hash, PartialOrd, Ord)]
enum Base {
    /// successful parse, no anchors
    ParseOk,
    /// syntax error in the middle of an anchored node (recording frame open)
    AnchoredSyntaxFail,
    /// type error in the middle of an anchored node
    AnchoredTypeFail,
    /// error while an RcAnchor context is on the stack
    FailInRcContext,
    /// error while an ArcAnchor context is on the stack, inside a replayed alias
    FailInAliasReplay,
    /// budget breach (max_events far too small)
    BudgetBreach,
    /// budget set to exactly the number of events the document needs
    BudgetExact,
    /// alias replay limit set to exactly the number of replayed events the document needs
    AliasLimitExact,
    /// shared RcAnchors + a weak (observation has the pointer classes)
    SharedRc,
    /// the Arc twin
    SharedArc,
    /// self-referential RcRecursive
    Recursive,
    /// serde's static `missing_field` error (location comes from the thread-local fallback)
    MissingField,
    /// serde's static `unknown_field` error
    UnknownField,
    /// a user Deserialize impl that raises `missing_field` without touching the input: the
    /// location can only come from the thread-local fallback, which must be empty here
    RootStaticError,
    /// duplicate key error (hash set with a random state inside the library)
    DupKey,
    /// streaming iterator abandoned after one item
    IterAbandon,
    /// streaming iterator run to the end (the last document fails)
    IterFull,
    /// the user's Deserialize impl panics inside an anchor context (caught by the caller)
    VisitorPanics,
    /// a panic raised and caught *inside* one document, then more fields follow
    CaughtPanicInside,
    /// serialisation with anchors
    SerAnchors,
    /// serialisation into a writer that fails after a few bytes
    SerFailWriter,
    /// validated parse (garde) that fails validation of a value that came through an alias
    ValidatedFail,
    /// validated parse (validator crate) with six failing fields: the order of the issues, the
    /// located one and the parameters of each must not depend on a hash seed
    ValidatorFail,
    /// a parse started from inside the budget-report callback of another parse, with a clone of
    /// the same options (the callback closure is shared by the clones)
    CallbackNested,
    /// two documents that reuse the same anchor name
    Multi,
    /// from_reader with shared anchors
    ReaderShared,
    /// the streaming iterator over two documents that reuse the same anchor names, read into
    /// shared RcAnchors (every item has its own anchor table)
    IterShared,
}
use Base::*;
const BASES: [Base; 27] = [
    ParseOk, AnchoredSyntaxFail, AnchoredTypeFail, FailInRcContext, FailInAliasReplay, BudgetBreach, BudgetExact,
    AliasLimitExact, SharedRc, SharedArc, Recursive, MissingField, UnknownField, RootStaticError, DupKey, IterAbandon,
    IterFull, VisitorPanics, CaughtPanicInside, SerAnchors, SerFailWriter, ValidatedFail, Multi, ReaderShared, IterShared, ValidatorFail, CallbackNested,
];

/// the outer document of a nested call
#[derive(Clone, Copy, Debug, Serialize, Deserialize, PartialEq, Eq, Hash, PartialOrd, Ord)]
enum Outer {
    /// `a: &x ..`, nested call, `b: *x` (RcAnchor fields)
    Shared,
    /// the nested call happens inside an anchored node that holds an anchor before and an alias after it
    Inside,
    /// anchors and aliases only *before* the nested call
    Before,
    /// the outer parse ends with a missing-field error after the nested call
    Missing,
    /// the outer parse ends with an unknown-field error after the nested call
    Unknown,
}

#[derive(Clone, Copy, Debug, Serialize, Deserialize, PartialEq, Eq, Hash, PartialOrd, Ord)]
enum Call {
    B(Base),
    Nested(Outer, Base),
}

fn alphabet() -> Vec<Call> {
    let mut v: Vec<Call> = BASES.iter().map(|b| Call::B(*b)).collect();
    for inner in [ParseOk, SharedRc, FailInRcContext, MissingField, VisitorPanics, IterAbandon, SerAnchors, BudgetBreach, RootStaticError] {
        v.push(Call::Nested(Outer::Before, inner));
        v.push(Call::Nested(Outer::Missing, inner));
    }
    for inner in [ParseOk, SharedRc, MissingField, SerAnchors, RootStaticError] {
        v.push(Call::Nested(Outer::Unknown, inner));
    }
    for inner in [ParseOk, SharedRc, SerAnchors] {
        v.push(Call::Nested(Outer::Shared, inner));
    }
    for inner in [ParseOk, SerAnchors] {
        v.push(Call::Nested(Outer::Inside, inner));
    }
    v
}
/// a smaller alphabet for the longer exhaustive enumeration
fn core_alphabet() -> Vec<Call> {
    vec![
        Call::B(ParseOk),
        Call::B(AnchoredSyntaxFail),
        Call::B(FailInRcContext),
        Call::B(BudgetBreach),
        Call::B(AliasLimitExact),
        Call::B(SharedRc),
        Call::B(MissingField),
        Call::B(UnknownField),
        Call::B(RootStaticError),
        Call::B(IterAbandon),
        Call::B(IterFull),
        Call::B(VisitorPanics),
        Call::B(SerAnchors),
        Call::B(SerFailWriter),
        Call::B(ValidatedFail),
        Call::B(ValidatorFail),
        Call::B(CallbackNested),
        Call::Nested(Outer::Before, SharedRc),
        Call::Nested(Outer::Missing, MissingField),
        Call::B(AnchoredTypeFail),
        Call::B(FailInAliasReplay),
        Call::B(BudgetExact),
        Call::B(SharedArc),
        Call::B(Recursive),
        Call::B(DupKey),
        Call::B(CaughtPanicInside),
        Call::B(Multi),
        Call::B(ReaderShared),
        Call::Nested(Outer::Before, VisitorPanics),
        Call::Nested(Outer::Unknown, SharedRc),
    ]
}

#[derive(Clone, Debug, Serialize, Deserialize)]
struct Case {
    calls: Vec<Call>,
}

fn deserialising(b: Base) -> bool {
    !matches!(b, SerAnchors | SerFailWriter)
}
/// calls that fail, panic, are nested or abandon an iterator
fn disturbing(c: &Call) -> bool {
    match c {
        Call::Nested(..) => true,
        Call::B(b) => matches!(
            b,
            AnchoredSyntaxFail
                | AnchoredTypeFail
                | FailInRcContext
                | FailInAliasReplay
                | BudgetBreach
                | MissingField
                | UnknownField
                | RootStaticError
                | DupKey
                | IterAbandon
                | IterFull
                | VisitorPanics
                | CaughtPanicInside
                | SerFailWriter
                | ValidatedFail
                | ValidatorFail
        ),
    }
}
/// calls whose observation includes pointer classes or a fallback location
fn sensitive(c: &Call) -> bool {
    match c {
        Call::Nested(..) => true,
        Call::B(b) => matches!(
            b,
            SharedRc | SharedArc | Recursive | Multi | ReaderShared | CaughtPanicInside | MissingField | UnknownField | RootStaticError
        ),
    }
}
fn nontrivial(c: &Case) -> bool {
    let first = c.calls.iter().position(disturbing);
    match first {
        Some(i) => c.calls[i + 1..].iter().any(sensitive),
        None => false,
    }
}

// ------------------------------------------------------------------------------------------
// fixed inputs and types

#[derive(Deserialize, Serialize, Debug)]
struct Node {
    n: i32,
}

fn err_obs(e: &serde_saphyr::Error) -> String {
    // variant name, location, and the rendered message with its snippet.  (The full Debug output
    // is not used: it prints an internal HashMap of a validation error in iteration order.)
    let dbg = format!("{:?}", e.without_snippet());
    let variant: String = dbg.chars().take_while(|c| c.is_alphanumeric() || *c == '_').collect();
    format!("ERR {variant} @ {:?} / {:?} || {}", e.location(), e.locations(), e)
}
fn res_obs<T: std::fmt::Debug>(r: Result<T, serde_saphyr::Error>) -> String {
    match r {
        Ok(v) => format!("OK {:?}", v),
        Err(e) => err_obs(&e),
    }
}
fn classes(ptrs: &[usize]) -> Vec<usize> {
    let mut seen: Vec<usize> = vec![];
    ptrs.iter()
        .map(|p| match seen.iter().position(|q| q == p) {
            Some(k) => k,
            None => {
                seen.push(*p);
                seen.len() - 1
            }
        })
        .collect()
}

const SHARED_TEXT: &str = "a: &x\n  n: 1\nb: *x\nc: &y\n  n: 1\nw: *y\n";
#[derive(Deserialize, Serialize)]
struct SharedRcDoc {
    a: RcAnchor<Node>,
    b: RcAnchor<Node>,
    c: RcAnchor<Node>,
    w: RcWeakAnchor<Node>,
}
#[derive(Deserialize)]
struct SharedArcDoc {
    a: ArcAnchor<Node>,
    b: ArcAnchor<Node>,
    c: ArcAnchor<Node>,
    w: ArcWeakAnchor<Node>,
}
fn shared_rc_obs(r: Result<SharedRcDoc, serde_saphyr::Error>) -> String {
    match r {
        Err(e) => err_obs(&e),
        Ok(d) => {
            let w = d.w.upgrade().map(|r| Rc::as_ptr(&r) as usize).unwrap_or(0);
            let cl = classes(&[Rc::as_ptr(&d.a.0) as usize, Rc::as_ptr(&d.b.0) as usize, Rc::as_ptr(&d.c.0) as usize, w]);
            format!(
                "OK n=[{}, {}, {}] classes={:?} counts=[{}, {}]",
                d.a.n,
                d.b.n,
                d.c.n,
                cl,
                Rc::strong_count(&d.a.0),
                Rc::strong_count(&d.c.0)
            )
        }
    }
}

#[derive(Deserialize, Debug)]
#[allow(dead_code)]
struct Server {
    host: String,
    port: u16,
}
#[derive(Deserialize, Debug)]
#[allow(dead_code)]
struct Servers {
    servers: Vec<Server>,
}
#[derive(Deserialize, Debug)]
#[serde(deny_unknown_fields)]
#[allow(dead_code)]
struct Strict {
    host: String,
    port: u16,
}

/// raises serde's static `missing_field` without looking at the input
#[derive(Debug)]
struct Ghost;
impl<'de> Deserialize<'de> for Ghost {
    fn deserialize<D: serde::Deserializer<'de>>(_d: D) -> Result<Self, D::Error> {
        Err(<D::Error as serde::de::Error>::missing_field("ghost"))
    }
}

/// consumes a scalar, then panics
#[derive(Debug)]
struct Bomb;
impl<'de> Deserialize<'de> for Bomb {
    fn deserialize<D: serde::Deserializer<'de>>(d: D) -> Result<Self, D::Error> {
        let s = String::deserialize(d)?;
        panic!("bomb {s}");
    }
}
#[derive(Deserialize, Debug)]
#[allow(dead_code)]
struct BombDoc {
    k: i32,
    a: RcAnchor<Bomb>,
    b: i32,
}

/// catches a panic of the wrapped type's Deserialize impl
struct CatchPanic<T>(Option<T>);
impl<'de, T: Deserialize<'de>> Deserialize<'de> for CatchPanic<T> {
    fn deserialize<D: serde::Deserializer<'de>>(d: D) -> Result<Self, D::Error> {
        match engine::catch(move || T::deserialize(d)) {
            Caught::Ok(r) => r.map(|v| CatchPanic(Some(v))),
            Caught::Panic(..) => Ok(CatchPanic(None)),
        }
    }
}
#[derive(Deserialize)]
struct CaughtDoc {
    a: CatchPanic<RcAnchor<Bomb>>,
    c: RcAnchor<Node>,
    d: RcAnchor<Node>,
}

#[derive(Deserialize, Serialize)]
struct King {
    name: String,
    coronator: RcRecursion<King>,
}
#[derive(Deserialize, Serialize)]
struct Kingdom {
    king: RcRecursive<King>,
}

#[derive(Deserialize, garde::Validate, Debug)]
#[allow(dead_code)]
struct Validated {
    #[garde(length(min = 4))]
    first: String,
    #[garde(length(min = 5))]
    second: String,
}

#[derive(Deserialize, validator::Validate, Debug)]
#[allow(dead_code)]
struct Validated6 {
    #[validate(length(min = 5, max = 9))]
    a: String,
    #[validate(length(min = 5))]
    b: String,
    #[validate(length(min = 5, max = 7))]
    c: String,
    #[validate(range(min = 3, max = 8))]
    d: i32,
    #[validate(length(min = 5))]
    e: String,
    #[validate(length(min = 5))]
    f: String,
}

struct FailAfter(usize);
impl std::io::Write for FailAfter {
    fn write(&mut self, buf: &[u8]) -> std::io::Result<usize> {
        if self.0 == 0 {
            return Err(std::io::Error::other("writer is full"));
        }
        let n = buf.len().min(self.0);
        self.0 -= n;
        Ok(n)
    }
    fn flush(&mut self) -> std::io::Result<()> {
        Ok(())
    }
}

const ITER_TEXT: &[u8] = b"a: &x [1]\nb: *x\n---\nc: &y [2]\nd: *y\n---\ne: &z [3]\nf: [oops]\ng: *z\n";
const BUDGET_TEXT: &str = "a: &x [1, 2, 3]\nb: *x\nc: {d: [4, 5], e: *x}\n";

#[allow(deprecated)]
fn budget_opts(max_events: usize) -> serde_saphyr::Options {
    let mut b = serde_saphyr::Budget::default();
    b.max_events = max_events;
    let mut o = serde_saphyr::Options::default();
    o.budget = Some(b);
    o
}
#[allow(deprecated)]
fn alias_opts(max_replayed: usize) -> serde_saphyr::Options {
    let mut o = serde_saphyr::Options::default();
    o.alias_limits.max_total_replayed_events = max_replayed;
    o
}
type Tree = BTreeMap<String, serde_json::Value>;

fn on_fresh_thread<T: Send + 'static>(f: impl FnOnce() -> T + Send + 'static) -> Result<T, String> {
    std::thread::Builder::new()
        .stack_size(2 << 20)
        .spawn(f)
        .map_err(|e| format!("cannot spawn: {e}"))?
        .join()
        .map_err(|_| "the thread running the calls panicked".to_string())
}

/// smallest limit under which `f(limit)` succeeds, found once per process on fresh threads
fn smallest_passing(f: fn(usize) -> bool) -> usize {
    for n in 1..400 {
        if on_fresh_thread(move || f(n)).unwrap_or(false) {
            return n;
        }
    }
    0
}
fn exact_budget() -> usize {
    static N: OnceLock<usize> = OnceLock::new();
    *N.get_or_init(|| smallest_passing(|n| serde_saphyr::from_str_with_options::<Tree>(BUDGET_TEXT, budget_opts(n)).is_ok()))
}
fn exact_alias_limit() -> usize {
    static N: OnceLock<usize> = OnceLock::new();
    *N.get_or_init(|| smallest_passing(|n| serde_saphyr::from_str_with_options::<Tree>(BUDGET_TEXT, alias_opts(n)).is_ok()))
}

fn run_base(b: Base) -> String {
    match b {
        ParseOk => res_obs(serde_saphyr::from_str::<BTreeMap<String, Vec<i32>>>("a: [1, 2]\nb:\n  - 3\n")),
        AnchoredSyntaxFail => res_obs(serde_saphyr::from_str::<BTreeMap<String, Vec<Vec<i32>>>>(
            "a: &x\n  - [1, 2]\n  - [3, 4\nb: *x\n",
        )),
        AnchoredTypeFail => {
            res_obs(serde_saphyr::from_str::<BTreeMap<String, Vec<i32>>>("a: &x\n  - 1\n  - oops\n  - 3\nb: *x\n"))
        }
        FailInRcContext => shared_rc_obs(serde_saphyr::from_str::<SharedRcDoc>("a: &x\n  n: oops\nb: *x\nc: *x\nw: *x\n")),
        FailInAliasReplay => {
            #[derive(Deserialize)]
            #[allow(dead_code)]
            struct D {
                a: ArcAnchor<Node>,
                b: ArcAnchor<String>,
            }
            match serde_saphyr::from_str::<D>("a: &x\n  n: 1\nb: *x\n") {
                Ok(_) => "OK (unexpected)".into(),
                Err(e) => err_obs(&e),
            }
        }
        BudgetBreach => res_obs(serde_saphyr::from_str_with_options::<Tree>(BUDGET_TEXT, budget_opts(6))),
        BudgetExact => {
            let n = exact_budget();
            format!(
                "limit={n} at-limit: {} below: {}",
                res_obs(serde_saphyr::from_str_with_options::<Tree>(BUDGET_TEXT, budget_opts(n))),
                res_obs(serde_saphyr::from_str_with_options::<Tree>(BUDGET_TEXT, budget_opts(n.saturating_sub(1))))
            )
        }
        AliasLimitExact => {
            let n = exact_alias_limit();
            format!(
                "limit={n} at-limit: {} below: {}",
                res_obs(serde_saphyr::from_str_with_options::<Tree>(BUDGET_TEXT, alias_opts(n))),
                res_obs(serde_saphyr::from_str_with_options::<Tree>(BUDGET_TEXT, alias_opts(n.saturating_sub(1))))
            )
        }
        SharedRc => shared_rc_obs(serde_saphyr::from_str::<SharedRcDoc>(SHARED_TEXT)),
        SharedArc => match serde_saphyr::from_str::<SharedArcDoc>(SHARED_TEXT) {
            Err(e) => err_obs(&e),
            Ok(d) => {
                let w = d.w.upgrade().map(|r| Arc::as_ptr(&r) as usize).unwrap_or(0);
                let cl =
                    classes(&[Arc::as_ptr(&d.a.0) as usize, Arc::as_ptr(&d.b.0) as usize, Arc::as_ptr(&d.c.0) as usize, w]);
                format!(
                    "OK n=[{}, {}, {}] classes={:?} counts=[{}, {}]",
                    d.a.n,
                    d.b.n,
                    d.c.n,
                    cl,
                    Arc::strong_count(&d.a.0),
                    Arc::strong_count(&d.c.0)
                )
            }
        },
        Recursive => match serde_saphyr::from_str::<Kingdom>("king: &root\n  name: Aurelian\n  coronator: *root\n") {
            Err(e) => err_obs(&e),
            Ok(k) => {
                let up = k.king.borrow().coronator.upgrade();
                match up {
                    None => "OK coronator dangling".into(),
                    Some(c) => format!(
                        "OK name={} coronator={} same={}",
                        k.king.borrow().name,
                        c.borrow().name,
                        Rc::ptr_eq(&c.0, &k.king.0)
                    ),
                }
            }
        },
        MissingField => res_obs(serde_saphyr::from_str::<Servers>("servers:\n  - host: a\n    port: 1\n  - host: b\n")),
        UnknownField => res_obs(serde_saphyr::from_str::<Strict>("host: a\nprot: 1\nport: 2\n")),
        RootStaticError => res_obs(serde_saphyr::from_str::<Ghost>("a: 1\n")),
        DupKey => res_obs(serde_saphyr::from_str::<BTreeMap<String, i32>>("a: 1\nb: 2\nc: 3\nb: 4\n")),
        IterAbandon => {
            let mut r = std::io::Cursor::new(ITER_TEXT);
            let mut it = serde_saphyr::read::<_, BTreeMap<String, Vec<i32>>>(&mut r);
            let first = it.next();
            drop(it);
            match first {
                None => "no item".into(),
                Some(r) => res_obs(r),
            }
        }
        IterFull => {
            let mut r = std::io::Cursor::new(ITER_TEXT);
            let it = serde_saphyr::read::<_, BTreeMap<String, Vec<i32>>>(&mut r);
            let items: Vec<String> = it.take(10).map(res_obs).collect();
            format!("{} items: {}", items.len(), items.join(" ;; "))
        }
        VisitorPanics => match engine::catch(|| serde_saphyr::from_str::<BombDoc>("k: 0\na: &x boom\nb: 1\n")) {
            Caught::Ok(r) => res_obs(r),
            Caught::Panic(m, _) => format!("PANIC {m}"),
        },
        CaughtPanicInside => {
            match serde_saphyr::from_str::<CaughtDoc>("a: &x boom\nc:\n  n: 2\nd:\n  n: 3\n") {
                Err(e) => err_obs(&e),
                Ok(d) => format!(
                    "OK a-panicked={} n=[{}, {}] classes={:?}",
                    d.a.0.is_none(),
                    d.c.n,
                    d.d.n,
                    classes(&[Rc::as_ptr(&d.c.0) as usize, Rc::as_ptr(&d.d.0) as usize])
                ),
            }
        }
        SerAnchors => {
            let x = Rc::new(Node { n: 1 });
            let y = Rc::new(Node { n: 1 });
            let d = SharedRcDoc { a: RcAnchor(x.clone()), b: RcAnchor(x), c: RcAnchor(y.clone()), w: RcWeakAnchor(Rc::downgrade(&y)) };
            match serde_saphyr::to_string(&d) {
                Ok(s) => format!("OK {s:?}"),
                Err(e) => format!("ERR {e}"),
            }
        }
        SerFailWriter => {
            let x = Rc::new(Node { n: 1 });
            let d = SharedRcDoc { a: RcAnchor(x.clone()), b: RcAnchor(x.clone()), c: RcAnchor(x.clone()), w: RcWeakAnchor(Rc::downgrade(&x)) };
            let mut w = FailAfter(12);
            match serde_saphyr::to_io_writer(&mut w, &d) {
                Ok(()) => "OK (unexpected)".into(),
                Err(e) => format!("ERR {e}"),
            }
        }
        ValidatedFail => res_obs(serde_saphyr::from_str_valid::<Validated>("first: &v abc\nsecond: *v\n")),
        CallbackNested => {
            let slot: Rc<RefCell<Option<serde_saphyr::Options>>> = Rc::new(RefCell::new(None));
            let inner: Rc<RefCell<Vec<String>>> = Rc::new(RefCell::new(vec![]));
            let busy = Rc::new(Cell::new(false));
            let (slot2, inner2) = (slot.clone(), inner.clone());
            let opts = serde_saphyr::Options::default().with_budget_report(move |_report| {
                if busy.replace(true) {
                    return;
                }
                let shared = slot2.borrow().clone();
                if let Some(o) = shared {
                    inner2.borrow_mut().push(res_obs(serde_saphyr::from_str_with_options::<Vec<i32>>("[1, 2, 3]", o)));
                }
                busy.set(false);
            });
            *slot.borrow_mut() = Some(opts.clone());
            let outer = res_obs(serde_saphyr::from_str_with_options::<Vec<i32>>("[4, 5]", opts));
            *slot.borrow_mut() = None;
            format!("{outer} ;; inner {:?}", inner.borrow())
        }
        ValidatorFail => {
            let text = "a: x\nb: &v y\nc: *v\nd: 1\ne: zz\nf: q\n";
            match serde_saphyr::from_str_validate::<Validated6>(text) {
                Ok(v) => format!("OK {v:?}"),
                Err(e) => {
                    // the same error through the miette adapter (its own walk over the report)
                    let report = serde_saphyr::miette::to_miette_report(&e, text, "input.yaml");
                    let mut narrated = String::new();
                    let _ = miette::NarratableReportHandler::new().render_report(&mut narrated, report.as_ref());
                    format!("{} ;; miette {narrated}", err_obs(&e))
                }
            }
        }
        Multi => {
            #[derive(Deserialize)]
            struct D {
                a: RcAnchor<Node>,
                b: RcAnchor<Node>,
            }
            match serde_saphyr::from_multiple::<D>("a: &x\n  n: 1\nb: *x\n---\na: &x\n  n: 2\nb: *x\n") {
                Err(e) => err_obs(&e),
                Ok(v) => {
                    let ptrs: Vec<usize> = v.iter().flat_map(|d| [Rc::as_ptr(&d.a.0) as usize, Rc::as_ptr(&d.b.0) as usize]).collect();
                    format!("OK n={:?} classes={:?}", v.iter().map(|d| (d.a.n, d.b.n)).collect::<Vec<_>>(), classes(&ptrs))
                }
            }
        }
        ReaderShared => shared_rc_obs(serde_saphyr::from_reader::<_, SharedRcDoc>(std::io::Cursor::new(SHARED_TEXT.as_bytes()))),
        IterShared => {
            let text = format!("{SHARED_TEXT}---\n{}", SHARED_TEXT.replace("n: 1", "n: 2"));
            let mut r = std::io::Cursor::new(text.into_bytes());
            let it = serde_saphyr::read::<_, SharedRcDoc>(&mut r);
            let items: Vec<String> = it.take(5).map(shared_rc_obs).collect();
            format!("{} items: {}", items.len(), items.join(" ;; "))
        }
    }
}

/// what the isolated observation must contain, from the documentation (README "Anchors":
/// "this deserialization is identity-preserving. A field or structure that is defined once and
/// subsequently referenced will exist as a single instance in memory, with all anchor fields
/// pointing to it"; fields that are not aliases of each other are separate allocations)
fn marker(b: Base) -> &'static [&'static str] {
    match b {
        ParseOk => &["OK {\"a\": [1, 2], \"b\": [3]}"],
        CallbackNested => &["OK [4, 5] ;; inner [\"OK [1, 2, 3]\"]"],
        SharedRc | SharedArc | ReaderShared => &["OK n=[1, 1, 1] classes=[0, 0, 1, 1] counts=[2, 1]"],
        IterShared => &["2 items: OK n=[1, 1, 1] classes=[0, 0, 1, 1] counts=[2, 1] ;; OK n=[2, 2, 2] classes=[0, 0, 1, 1] counts=[2, 1]"],
        Recursive => &["OK name=Aurelian coronator=Aurelian same=true"],
        Multi => &["OK n=[(1, 1), (2, 2)] classes=[0, 0, 1, 1]"],
        CaughtPanicInside => &["OK a-panicked=true n=[2, 3] classes=[0, 1]"],
        BudgetExact | AliasLimitExact => &["at-limit: OK", "below: ERR"],
        VisitorPanics => &["PANIC bomb boom"],
        SerAnchors => &["&a1", "*a1", "&a2", "*a2"],
        IterAbandon => &["OK {\"a\": [1], \"b\": [1]}"],
        IterFull => &["OK {\"a\": [1], \"b\": [1]} ;; OK {\"c\": [2], \"d\": [2]} ;; ERR"],
        AnchoredSyntaxFail | AnchoredTypeFail | FailInRcContext | FailInAliasReplay | BudgetBreach | MissingField
        | UnknownField | RootStaticError | DupKey | SerFailWriter | ValidatedFail | ValidatorFail => &["ERR"],
    }
}

// ---- nested calls ---------------------------------------------------------------------------

thread_local! {
    static PLAN: Cell<Option<Base>> = const { Cell::new(None) };
    static INNER: RefCell<Option<String>> = const { RefCell::new(None) };
}

/// a field whose Deserialize impl reads a scalar and then, if a plan is set, performs a whole
/// other serde-saphyr call before returning
struct Mid;
impl<'de> Deserialize<'de> for Mid {
    fn deserialize<D: serde::Deserializer<'de>>(d: D) -> Result<Self, D::Error> {
        let _ = String::deserialize(d)?;
        if let Some(b) = PLAN.with(|p| p.take()) {
            let obs = run_base(b);
            INNER.with(|i| *i.borrow_mut() = Some(obs));
        }
        Ok(Mid)
    }
}

fn run_outer(o: Outer) -> String {
    match o {
        Outer::Shared => {
            #[derive(Deserialize)]
            struct D {
                a: RcAnchor<Node>,
                #[allow(dead_code)]
                mid: Mid,
                b: RcAnchor<Node>,
                c: RcAnchor<Node>,
            }
            match serde_saphyr::from_str::<D>("a: &x\n  n: 7\nmid: go\nb: *x\nc: &y\n  n: 8\n") {
                Err(e) => err_obs(&e),
                Ok(d) => format!(
                    "OK n=[{}, {}, {}] classes={:?}",
                    d.a.n,
                    d.b.n,
                    d.c.n,
                    classes(&[Rc::as_ptr(&d.a.0) as usize, Rc::as_ptr(&d.b.0) as usize, Rc::as_ptr(&d.c.0) as usize])
                ),
            }
        }
        Outer::Inside => {
            #[derive(Deserialize)]
            struct H {
                first: RcAnchor<Node>,
                #[allow(dead_code)]
                mid: Mid,
                again: RcAnchor<Node>,
            }
            #[derive(Deserialize)]
            struct D {
                a: RcAnchor<H>,
                w: RcWeakAnchor<H>,
                z: RcAnchor<Node>,
            }
            match serde_saphyr::from_str::<D>("a: &h\n  first: &x\n    n: 7\n  mid: go\n  again: *x\nw: *h\nz: *x\n") {
                Err(e) => err_obs(&e),
                Ok(d) => format!(
                    "OK n=[{}, {}, {}] classes={:?} w-is-a={}",
                    d.a.first.n,
                    d.a.again.n,
                    d.z.n,
                    classes(&[Rc::as_ptr(&d.a.first.0) as usize, Rc::as_ptr(&d.a.again.0) as usize, Rc::as_ptr(&d.z.0) as usize]),
                    d.w.upgrade().map(|r| Rc::ptr_eq(&r, &d.a.0)).unwrap_or(false)
                ),
            }
        }
        Outer::Before => {
            #[derive(Deserialize)]
            struct D {
                a: RcAnchor<Node>,
                b: RcAnchor<Node>,
                #[allow(dead_code)]
                mid: Mid,
                n: i32,
            }
            match serde_saphyr::from_str::<D>("a: &x\n  n: 7\nb: *x\nmid: go\nn: 5\n") {
                Err(e) => err_obs(&e),
                Ok(d) => format!(
                    "OK n=[{}, {}, {}] classes={:?}",
                    d.a.n,
                    d.b.n,
                    d.n,
                    classes(&[Rc::as_ptr(&d.a.0) as usize, Rc::as_ptr(&d.b.0) as usize])
                ),
            }
        }
        Outer::Missing => {
            #[derive(Deserialize)]
            #[allow(dead_code)]
            struct In {
                a: i32,
                mid: Mid,
                b: i32,
            }
            #[derive(Deserialize)]
            #[allow(dead_code)]
            struct D {
                pad: i32,
                inner: In,
            }
            match serde_saphyr::from_str::<D>("pad: 0\ninner:\n  a: 1\n  mid: go\n") {
                Err(e) => err_obs(&e),
                Ok(_) => "OK (unexpected)".into(),
            }
        }
        Outer::Unknown => {
            #[derive(Deserialize)]
            #[serde(deny_unknown_fields)]
            #[allow(dead_code)]
            struct In {
                a: i32,
                mid: Mid,
            }
            #[derive(Deserialize)]
            #[allow(dead_code)]
            struct D {
                pad: i32,
                inner: In,
            }
            match serde_saphyr::from_str::<D>("pad: 0\ninner:\n  a: 1\n  mid: go\n  zz: 3\n") {
                Err(e) => err_obs(&e),
                Ok(_) => "OK (unexpected)".into(),
            }
        }
    }
}
fn outer_marker(o: Outer) -> &'static str {
    match o {
        Outer::Shared => "OK n=[7, 7, 8] classes=[0, 0, 1]",
        Outer::Inside => "OK n=[7, 7, 7] classes=[0, 0, 0] w-is-a=true",
        Outer::Before => "OK n=[7, 7, 5] classes=[0, 0]",
        Outer::Missing | Outer::Unknown => "ERR",
    }
}

/// (outer observation, inner observation)
fn run_nested(o: Outer, inner: Option<Base>) -> (String, Option<String>) {
    PLAN.with(|p| p.set(inner));
    INNER.with(|i| *i.borrow_mut() = None);
    let outer = run_outer(o);
    PLAN.with(|p| p.set(None));
    (outer, INNER.with(|i| i.borrow_mut().take()))
}

fn run_call(c: &Call) -> String {
    match c {
        Call::B(b) => run_base(*b),
        Call::Nested(o, b) => {
            let (outer, inner) = run_nested(*o, Some(*b));
            format!("outer: {outer} ## inner: {}", inner.unwrap_or("<nested call did not run>".into()))
        }
    }
}

// ------------------------------------------------------------------------------------------
// isolated observations (computed once per process and call kind, each on its own fresh thread)

#[derive(Clone)]
struct Alone {
    obs: String,
    /// problems with the isolated observation itself
    problem: Option<String>,
}

fn alone_base(b: Base) -> Alone {
    static CACHE: OnceLock<Mutex<HashMap<Base, Alone>>> = OnceLock::new();
    let cache = CACHE.get_or_init(|| Mutex::new(HashMap::new()));
    if let Some(a) = cache.lock().unwrap().get(&b) {
        return a.clone();
    }
    let one = on_fresh_thread(move || run_base(b));
    let two = on_fresh_thread(move || run_base(b));
    let a = match (one, two) {
        (Ok(x), Ok(y)) => {
            let mut problem = None;
            if x != y {
                problem = Some(format!("{b:?} gives different observations on two fresh threads: {x:?} vs {y:?}"));
            } else if let Some(m) = marker(b).iter().find(|m| !x.contains(**m)) {
                problem = Some(format!("{b:?} alone on a fresh thread gives {x:?}, which lacks {m:?}"));
            }
            Alone { obs: x, problem }
        }
        (Err(e), _) | (_, Err(e)) => Alone { obs: String::new(), problem: Some(format!("{b:?} alone: {e}")) },
    };
    cache.lock().unwrap().insert(b, a.clone());
    a
}
fn alone_outer(o: Outer) -> Alone {
    static CACHE: OnceLock<Mutex<HashMap<Outer, Alone>>> = OnceLock::new();
    let cache = CACHE.get_or_init(|| Mutex::new(HashMap::new()));
    if let Some(a) = cache.lock().unwrap().get(&o) {
        return a.clone();
    }
    let one = on_fresh_thread(move || run_nested(o, None).0);
    let two = on_fresh_thread(move || run_nested(o, None).0);
    let a = match (one, two) {
        (Ok(x), Ok(y)) => {
            let mut problem = None;
            if x != y {
                problem = Some(format!("outer {o:?} gives different observations on two fresh threads: {x:?} vs {y:?}"));
            } else if !x.contains(outer_marker(o)) {
                problem = Some(format!("outer {o:?} without a nested call gives {x:?}, which lacks {:?}", outer_marker(o)));
            }
            Alone { obs: x, problem }
        }
        (Err(e), _) | (_, Err(e)) => Alone { obs: String::new(), problem: Some(format!("outer {o:?} alone: {e}")) },
    };
    cache.lock().unwrap().insert(o, a.clone());
    a
}

fn expected(c: &Call) -> Result<String, String> {
    match c {
        Call::B(b) => {
            let a = alone_base(*b);
            match a.problem {
                Some(p) => Err(p),
                None => Ok(a.obs),
            }
        }
        Call::Nested(o, b) => {
            let (ao, ab) = (alone_outer(*o), alone_base(*b));
            if let Some(p) = ao.problem.or(ab.problem) {
                return Err(p);
            }
            Ok(format!("outer: {} ## inner: {}", ao.obs, ab.obs))
        }
    }
}

fn check_history(case: &Case) -> Result<(), String> {
    if case.calls.is_empty() {
        return Ok(());
    }
    let mut want = vec![];
    for c in &case.calls {
        want.push(expected(c)?);
    }
    let calls = case.calls.clone();
    let got = on_fresh_thread(move || calls.iter().map(run_call).collect::<Vec<String>>())?;
    if std::env::var_os("C15_DUMP").is_some() {
        // development aid: show the observations
        for (c, g) in case.calls.iter().zip(&got) {
            eprintln!("{c:?}\n    {g}");
        }
    }
    for (i, (g, w)) in got.iter().zip(&want).enumerate() {
        if g != w {
            return Err(format!(
                "call #{i} {:?} after {:?} gives {g:?}; alone on a fresh thread: {w:?}",
                case.calls[i],
                &case.calls[..i]
            ));
        }
    }
    Ok(())
}

// ------------------------------------------------------------------------------------------

struct C15;

fn decode(alpha: &[Call], len: usize, mut code: u64) -> Vec<Call> {
    let n = alpha.len() as u64;
    let mut v = vec![alpha[0]; len];
    for i in (0..len).rev() {
        v[i] = alpha[(code % n) as usize];
        code /= n;
    }
    v
}

impl Property for C15 {
    const ID: &'static str = "C15";
    type Case = Case;
    fn rule() -> String {
        "cases = call histories over an alphabet of 27 base calls (successful parse; syntax / type error midway through an anchored node; error inside an RcAnchor context and inside a replayed alias; budget breach; budget and alias-replay limit set exactly to what the document needs; shared RcAnchor / ArcAnchor / weak / RcRecursive parses observed through pointer classes and strong counts; missing-field, unknown-field and a root-level static serde error whose location can only come from the thread-local fallback; duplicate key; streaming iterator abandoned after one item / run to its failing end; Deserialize impl that panics (caught outside) and one whose panic is caught inside the document; serialisation with anchors and into a failing writer; garde-validated parse that fails; validator-crate parse with six failing fields (issue order, located issue and parameters must not depend on a hash seed); a parse started from inside the budget-report callback of another parse with a clone of its options; multi-document parse reusing anchor names; from_reader) plus 25 nested calls (an inner call performed inside the Deserialize impl of a field of an outer document whose anchors / aliases lie before, around and after it, or which ends in a missing-/unknown-field error). Every history runs on one fresh thread. Oracle: each call's observation (value Debug, or error Debug + rendered message with location, pointer classes, emitted text) equals the observation of the same call alone on a fresh thread; for nested calls the inner observation equals the isolated inner call and the outer observation equals the same outer document parsed without a nested call; isolated observations are equal on two fresh threads and contain the documented constants (sharing classes, anchors &a1/*a1). Exhaustive: all histories of length <= 3 over the full alphabet (quick; thorough: <= 4), all of length 4 over a 28-call core alphabet; random histories of length 4..12. Non-trivial: a failing / panicking / nested / abandoned call precedes a call whose observation includes pointer classes or a fallback location. distinct = distinct histories.".into()
    }
    fn assumptions() -> Vec<String> {
        vec![
            "hidden state is thread-local (anchor_store STATE, MISSING_FIELD_FALLBACK) or absent; a process-wide static would also be seen because isolated observations are computed first and histories later in the same process".into(),
            "pointer classes are compared, never addresses".into(),
        ]
    }
    fn check(c: &Case) -> Outcome {
        match check_history(c) {
            Ok(()) => Outcome::Pass,
            Err(m) => Outcome::Fail(m),
        }
    }
    fn signatures(c: &Case) -> Vec<&'static str> {
        // open finding: a parse nested inside an outer parse clears the outer document's anchor
        // table; visible when the outer document uses an alias after the nested call
        if c.calls.iter().any(|c| matches!(c, Call::Nested(Outer::Shared | Outer::Inside, b) if deserialising(*b))) {
            return vec!["nested_parse_wipes_outer_anchors"];
        }
        vec![]
    }
    fn shrink(c: &Case) -> Vec<Case> {
        let mut out = vec![];
        for i in 0..c.calls.len() {
            let mut v = c.calls.clone();
            v.remove(i);
            out.push(Case { calls: v });
        }
        for i in 0..c.calls.len() {
            if let Call::Nested(_, b) = c.calls[i] {
                let mut v = c.calls.clone();
                v[i] = Call::B(b);
                out.push(Case { calls: v });
            }
        }
        out
    }
    fn selfcheck() -> Result<(), String> {
        let a = alphabet();
        let mut s = a.clone();
        s.sort();
        s.dedup();
        if s.len() != a.len() || a.len() != 55 {
            return Err(format!("alphabet has {} symbols ({} distinct), expected 55", a.len(), s.len()));
        }
        // (the exact-limit calls check themselves: their isolated observation must contain
        // "at-limit: OK" and "below: ERR")
        Ok(())
    }
    /// libFuzzer input: a history of up to 12 calls, one byte per call over the 55-call alphabet
    fn fuzz_decode(data: &[u8]) -> Option<(&'static str, Case, bool)> {
        let alpha = alphabet();
        let calls: Vec<Call> = data.iter().take(12).map(|x| alpha[*x as usize % alpha.len()]).collect();
        if calls.is_empty() {
            return None;
        }
        let c = Case { calls };
        let nt = nontrivial(&c);
        Some(("fuzz-histories", c, nt))
    }
    fn generate(ctx: &mut Ctx<Self>) {
        let alpha = alphabet();
        let core = core_alphabet();
        let stats: std::rc::Rc<RefCell<BTreeMap<String, u64>>> = std::rc::Rc::new(RefCell::new(BTreeMap::new()));
        let stats2 = stats.clone();
        let note = move |c: &Case| -> bool {
            let nt = nontrivial(c);
            let mut s = stats2.borrow_mut();
            let mut add = |k: &str| *s.entry(k.to_string()).or_insert(0) += 1;
            add(&format!("length {}", match c.calls.len() { 0..=1 => "1", 2 => "2", 3 => "3", 4 => "4", 5..=8 => "5-8", _ => "9-12" }));
            if c.calls.iter().any(|c| matches!(c, Call::Nested(..))) {
                add("has a nested call");
            }
            if c.calls.iter().any(|c| matches!(c, Call::B(VisitorPanics | CaughtPanicInside) | Call::Nested(_, VisitorPanics))) {
                add("has a panicking visitor");
            }
            if c.calls.iter().any(|c| matches!(c, Call::B(IterAbandon) | Call::Nested(_, IterAbandon))) {
                add("has an abandoned iterator");
            }
            if nt {
                add("disturbing call before a sensitive one");
                let i = c.calls.iter().position(disturbing).unwrap();
                if c.calls[i + 1..].iter().any(|c| matches!(c, Call::B(MissingField | UnknownField | RootStaticError) | Call::Nested(Outer::Missing | Outer::Unknown, _))) {
                    add("… sensitive call observes a fallback location");
                }
                if c.calls[i + 1..].iter().any(|c| matches!(c, Call::B(SharedRc | SharedArc | Recursive | Multi | ReaderShared | CaughtPanicInside) | Call::Nested(Outer::Shared | Outer::Inside | Outer::Before, _))) {
                    add("… sensitive call observes pointer classes");
                }
            }
            nt
        };
        // --- exhaustive: all histories of length <= L over the full alphabet -------------------------
        let n = alpha.len() as u64;
        let maxlen = ctx.tier.pick(3, 4);
        let mut idx = 0u64;
        for len in 1..=maxlen {
            let total = n.pow(len as u32);
            for code in 0..total {
                idx += 1;
                if !ctx.mine(idx) {
                    continue;
                }
                let c = Case { calls: decode(&alpha, len, code) };
                let nt = note(&c);
                ctx.case(&format!("all-histories-len{len}"), &c, nt);
            }
            ctx.subspace(&format!("all histories of length {len} over the {n}-call alphabet"), total, true);
        }
        // --- exhaustive: length 4 (thorough: 5) over the core alphabet -----------------------------
        let m = core.len() as u64;
        let len = ctx.tier.pick(4, 5);
        let total = m.pow(len as u32);
        for code in 0..total {
            idx += 1;
            if !ctx.mine(idx) {
                continue;
            }
            let c = Case { calls: decode(&core, len, code) };
            let nt = note(&c);
            ctx.case(&format!("core-histories-len{len}"), &c, nt);
        }
        ctx.subspace(&format!("all histories of length {len} over the {m}-call core alphabet"), total, true);
        // --- random longer histories -----------------------------------------------------------------
        let strat = prop::collection::vec(prop::sample::select(alpha.clone()), 4..=12).prop_map(|calls| Case { calls });
        ctx.run_strategy("random-histories", 1, ctx.tier.pick(10_000, 150_000), &strat, note.clone());
        // histories biased towards disturbing calls followed by sensitive ones
        let dist: Vec<Call> = alpha.iter().copied().filter(disturbing).collect();
        let sens: Vec<Call> = alpha.iter().copied().filter(sensitive).collect();
        let strat = (
            prop::collection::vec(prop::sample::select(dist), 1..=6),
            prop::collection::vec(prop::sample::select(sens), 1..=6),
            any::<u64>(),
        )
            .prop_map(|(d, s, mix)| {
                // interleave: disturbing and sensitive calls alternate in blocks chosen by `mix`
                let mut calls = vec![];
                let (mut di, mut si) = (0, 0);
                let mut bits = mix;
                while di < d.len() || si < s.len() {
                    if (bits & 1 == 0 && di < d.len()) || si >= s.len() {
                        calls.push(d[di]);
                        di += 1;
                    } else {
                        calls.push(s[si]);
                        si += 1;
                    }
                    bits >>= 1;
                }
                Case { calls }
            });
        ctx.run_strategy("random-disturb-then-observe", 2, ctx.tier.pick(10_000, 150_000), &strat, note.clone());
        for (k, v) in stats.take() {
            ctx.class_n(&k, v);
        }
    }
}

fn main() {
    engine::main::<C15>()
}

/// entry point of the libFuzzer target `fuzz/fuzz_targets/c15.rs`
#[allow(dead_code)]
pub fn fuzz(data: &[u8]) {
    engine::fuzz_one::<C15>(data)
}
