//! C01 – deserialization and error rendering are total: no panic, abort or hang.
use proptest::prelude::*;
use serde::{Deserialize, Serialize};
use vcheck::engine::{self, catch, Caught, Ctx, Outcome, Property, Tier};
use vcheck::gdoc::{self, Layout};
use vcheck::iofault::SENTINEL;
use vcheck::untyped::U;

#[derive(Clone, Debug, Serialize, Deserialize, PartialEq)]
enum Input {
    /// UTF-8 text
    Text(String),
    /// arbitrary bytes
    Bytes(Vec<u8>),
    /// generated pathological input: (family, size)
    Gen(String, usize),
}

#[derive(Clone, Debug, Serialize, Deserialize)]
struct Case {
    input: Input,
    /// index into the option-vector family
    opts: usize,
    /// run the reader entry points even on input with a known reader hazard (witnesses only)
    #[serde(default)]
    force_reader: bool,
}

fn gen_input(family: &str, n: usize) -> Vec<u8> {
    let mut s = String::new();
    match family {
        "block-seq-nest" => {
            for _ in 0..n {
                s.push_str("- ");
            }
            s.push_str("x\n");
        }
        "block-map-nest" => {
            for i in 0..n {
                for _ in 0..i {
                    s.push(' ');
                }
                s.push_str("a:\n");
            }
            for _ in 0..n {
                s.push(' ');
            }
            s.push_str("x\n");
        }
        "complex-key-nest" => {
            s.push_str("? ");
            for _ in 0..n {
                s.push_str("- ");
            }
            s.push_str("x\n: v\n");
        }
        "flow-seq-nest" => {
            for _ in 0..n {
                s.push('[');
            }
            for _ in 0..n {
                s.push(']');
            }
            s.push('\n');
        }
        "flow-map-nest" => {
            for _ in 0..n {
                s.push_str("{a: ");
            }
            s.push('x');
            for _ in 0..n {
                s.push('}');
            }
            s.push('\n');
        }
        "anchored-nest" => {
            for i in 0..n {
                s.push_str(&format!("- &a{i} "));
            }
            s.push_str("x\n");
        }
        // `&a1 [&a2 [ ... x ]]`: anchored flow sequences nested in each other (they are stored
        // innermost first), the last levels also aliased
        "anchored-flow-nest" => {
            for i in 1..=n {
                s.push_str(&format!("&a{i} ["));
            }
            s.push('x');
            for _ in 0..n {
                s.push(']');
            }
            s.push_str(&format!("\n--- [*a{n}, *a1]\n"));
        }
        // a document that fails early (type error) and defines n anchors, followed by a document
        // that defines and uses one: the streaming entry points skip the first
        "anchors-in-skipped-doc" => {
            s.push_str("[");
            for i in 0..n {
                s.push_str(&format!("&s{i} {i}, "));
            }
            s.push_str("x]\n---\nk: &z 1\nl: *z\n");
        }
        "alias-in-deep-nest" => {
            s.push_str("- &a [1, 2]\n- ");
            for _ in 0..n {
                s.push_str("- ");
            }
            s.push_str("*a\n");
        }
        // eight anchored block nests of depth n, each ending in an alias to the previous one: the
        // nesting reached through alias replay is 8 x n and must be stopped by the depth budget
        "alias-chained-nests" => {
            for i in 0..8 {
                s.push_str(&format!("l{i}: &l{i}\n  "));
                for _ in 0..n {
                    s.push_str("- ");
                }
                if i == 0 {
                    s.push_str("x\n");
                } else {
                    s.push_str(&format!("*l{}\n", i - 1));
                }
            }
        }
        "merge-chain" => {
            s.push_str("m0: &m0 {k: 1}\n");
            for i in 1..=n {
                s.push_str(&format!("m{i}: &m{i}\n  <<: *m{}\n  k{i}: {i}\n", i - 1));
            }
        }
        "wide-seq" => {
            for i in 0..n {
                s.push_str("- ");
                s.push_str(&(i % 10).to_string());
                s.push('\n');
            }
        }
        "wide-map" => {
            for i in 0..n {
                s.push_str(&format!("k{i}: {}\n", i % 7));
            }
        }
        "many-docs" => {
            for i in 0..n {
                s.push_str(&format!("---\n{i}\n"));
            }
        }
        "big-scalar" => {
            s.push_str("k: \"");
            for _ in 0..n {
                s.push('a');
            }
            s.push_str("\"\n");
        }
        "long-line-error" => {
            s.push_str("k: [");
            for _ in 0..n {
                s.push_str("\u{e9}x ");
            }
            s.push_str("\n");
        }
        "many-aliases" => {
            s.push_str("a: &a x\nl:\n");
            for _ in 0..n {
                s.push_str("  - *a\n");
            }
        }
        _ => s.push_str("~\n"),
    }
    s.into_bytes()
}

fn bytes_of(i: &Input) -> Vec<u8> {
    match i {
        Input::Text(s) => s.clone().into_bytes(),
        Input::Bytes(b) => b.clone(),
        Input::Gen(f, n) => gen_input(f, *n),
    }
}

use vcheck::c01_core::{option_family, reader_hazard_opts, run_all};

fn check_case(c: &Case) -> Outcome {
    let fam = option_family();
    let o = fam[c.opts % fam.len()].clone();
    let b = bytes_of(&c.input);
    let heavy = b.len() > 200_000;
    let reader_ok = c.force_reader || !reader_hazard_opts(&b, &o);
    // run on a thread with exactly the stack the property names (8 MiB)
    let handle = std::thread::Builder::new().stack_size(8 << 20).spawn(move || match catch(|| run_all(&b, &o, reader_ok, heavy)) {
        Caught::Ok(Ok(())) => Ok(()),
        Caught::Ok(Err(m)) => Err(m),
        Caught::Panic(m, l) => {
            if m.contains(SENTINEL) {
                Err("a reader entry point keeps polling the reader after end of input (spins)".to_string())
            } else {
                Err(format!("panic at {l}: {m}"))
            }
        }
    });
    match handle {
        Ok(h) => match h.join() {
            Ok(Ok(())) => Outcome::Pass,
            Ok(Err(m)) => Outcome::Fail(m),
            Err(_) => Outcome::Fail("worker thread died".into()),
        },
        Err(_) => Outcome::Discard("thread-spawn-failed"),
    }
}

const TOKENS: [&str; 28] = ["0", "_", "a", "1", " ", "\n", ":", "- ", "[", "]", "{", "}", ",", "&a ", "*a", "!t ", "<<", "|", ">", "'", "\"", "#", "? ", "---", "...", "\t", "\u{e9}", "\u{1f600}"];

struct C01;

fn nontrivial(c: &Case) -> bool {
    // the parser produced at least one content event and logic beyond the scanner was reached:
    // approximated by "the untyped parse does not fail with a scanner error"
    let b = bytes_of(&c.input);
    if b.len() > 200_000 {
        return true;
    }
    match std::str::from_utf8(&b) {
        Ok(s) => match serde_saphyr::from_str::<U>(s) {
            Ok(_) => true,
            Err(e) => !matches!(e.without_snippet(), serde_saphyr::Error::ExternalMessage { .. }),
        },
        Err(_) => false,
    }
}

fn mutate(bytes: &[u8], script: &[u16]) -> Vec<u8> {
    let mut b = bytes.to_vec();
    let mut i = 0;
    let mut next = || {
        let v = if script.is_empty() { 0 } else { script[i % script.len()] };
        i += 1;
        v as usize
    };
    let ops = 1 + next() % 3;
    for _ in 0..ops {
        if b.is_empty() {
            b.push(b'a');
        }
        let pos = next() % b.len();
        match next() % 9 {
            0 => {
                b.remove(pos);
            }
            1 => {
                let x = b[pos];
                b.insert(pos, x);
            }
            2 => b.truncate(pos),
            3 => {
                let t = TOKENS[next() % TOKENS.len()].as_bytes();
                for (k, x) in t.iter().enumerate() {
                    b.insert(pos + k, *x);
                }
            }
            4 => b[pos] ^= 1 << (next() % 8),
            5 => b.insert(pos, b' '),
            6 => {
                let end = (pos + 1 + next() % 8).min(b.len());
                let chunk: Vec<u8> = b[pos..end].to_vec();
                let at = next() % (b.len() + 1);
                for (k, x) in chunk.iter().enumerate() {
                    b.insert(at + k, *x);
                }
            }
            7 => b.insert(pos, b'\n'),
            _ => b[pos] = [b'%', 0xff, 0xc3, 0, b'\r', 0xef, b'!', b'*', b'&'][next() % 9],
        }
    }
    b
}

impl Property for C01 {
    const ID: &'static str = "C01";
    const TRACE: bool = true;
    const CRASH_IS_VIOLATION: bool = true;
    type Case = Case;
    fn rule() -> String {
        "cases = (input bytes, option vector). Inputs: all strings of <= 3 tokens (thorough: 4) over a 28-token indicator alphabet incl. two multi-byte tokens - exhaustive; documents from the node grammar (anchors, aliases, merges, tags, all styles, block / flow, CRLF) and 1-3 byte/token-level mutations of them; random bytes, UTF-8 with flipped bytes, truncated multi-byte characters, UTF-16/32 BOM prefixes; pathological generated inputs (block / flow / complex-key / anchored nests at depth 1999, 2000, 2001 and 20000, alias in a deep nest, merge chains, 250000-wide collections, 1025+ documents, large scalars, long error lines). Option vectors: default; tiny budget + FirstWins; extreme (usize::MAX) limits + LastWins; all boolean flags on + crop 0; zero alias limits + snippets off; angle conversions + alias limits 1; no budget. Each case runs, on a thread with an 8 MiB stack, every entry point (from_str*, from_slice*, from_multiple*, from_slice_multiple*, from_reader* with chunk sizes 1 / 3 / 8192, the read* iterator to exhaustion, the six with_deserializer helpers, check_yaml_budget / parse_yaml, the garde and validator entry points) for a family of ~25 target types (untyped, IgnoredAny, serde_json::Value, structs, enums, maps, tuples, options, bytes, borrowed &str / Cow / HashMap<&str,&str>, Spanned, anchor wrappers, char, integers, unit) and turns every returned error into text through Display, Debug, render, render_with_formatter (user, developer), render_with_options(snippets off), without_snippet, location, locations. Oracle: no panic reaches the harness, the process is not killed (stack overflow / abort), the read iterator yields at most len+2 items, the reader is not polled more than 10000 times after end of input. Non-trivial: the untyped parse got past the scanner (Ok, or an error that is not a scanner message).".into()
    }
    fn assumptions() -> Vec<String> {
        vec![
            "termination is checked through work bounds (iterator items <= len+2, reader polls after EOF <= 10000) and the engine's stall watchdog (a worker that makes no progress for minutes is killed and the case re-run twice in fresh processes), not proved".into(),
            "stack use is measured for this toolchain / optimisation level and these target types on 8 MiB threads".into(),
        ]
    }
    fn check(c: &Case) -> Outcome {
        check_case(c)
    }
    fn signatures(c: &Case) -> Vec<&'static str> {
        // the reader hang is excluded inside the case (reader entry points are skipped for such
        // input). Open finding `c01-unoptimized-build-stack`: in an unoptimized build (the run of
        // `./check C01` with VCHECK_PROFILE=dev) block nesting beyond a few hundred levels
        // overflows an 8 MiB stack although the default depth budget (2000) is in force.
        if std::env::var("VCHECK_PROFILE").as_deref() == Ok("dev") {
            if let Input::Gen(f, n) = &c.input {
                let levels = match f.as_str() {
                    "block-seq-nest" | "block-map-nest" | "complex-key-nest" | "anchored-nest" | "alias-in-deep-nest" => *n,
                    "alias-chained-nests" => *n * 8,
                    _ => 0,
                };
                if levels > 500 {
                    return vec!["deep_nest_unoptimized_build"];
                }
            }
        }
        vec![]
    }
    fn shrink(c: &Case) -> Vec<Case> {
        let mut out = vec![];
        if c.opts != 0 {
            out.push(Case { input: c.input.clone(), opts: 0, force_reader: false });
        }
        match &c.input {
            Input::Text(s) => {
                let cs: Vec<char> = s.chars().collect();
                if cs.len() > 4 {
                    out.push(Case { input: Input::Text(cs[..cs.len() / 2].iter().collect()), opts: c.opts, force_reader: c.force_reader });
                    out.push(Case { input: Input::Text(cs[cs.len() / 2..].iter().collect()), opts: c.opts, force_reader: c.force_reader });
                }
                if cs.len() <= 120 {
                    for i in 0..cs.len() {
                        let mut v = cs.clone();
                        v.remove(i);
                        out.push(Case { input: Input::Text(v.into_iter().collect()), opts: c.opts, force_reader: c.force_reader });
                    }
                }
            }
            Input::Bytes(b) => {
                if b.len() > 4 {
                    out.push(Case { input: Input::Bytes(b[..b.len() / 2].to_vec()), opts: c.opts, force_reader: c.force_reader });
                    out.push(Case { input: Input::Bytes(b[b.len() / 2..].to_vec()), opts: c.opts, force_reader: c.force_reader });
                }
                if b.len() <= 120 {
                    for i in 0..b.len() {
                        let mut v = b.clone();
                        v.remove(i);
                        out.push(Case { input: Input::Bytes(v), opts: c.opts, force_reader: c.force_reader });
                    }
                }
            }
            Input::Gen(f, n) => {
                if *n > 1 {
                    out.push(Case { input: Input::Gen(f.clone(), n / 2), opts: c.opts, force_reader: c.force_reader });
                    out.push(Case { input: Input::Gen(f.clone(), n - 1), opts: c.opts, force_reader: c.force_reader });
                }
            }
        }
        out
    }
    /// libFuzzer input: byte 0 = option vector, the rest is the input itself (text when it is
    /// valid UTF-8, raw bytes otherwise)
    fn fuzz_decode(data: &[u8]) -> Option<(&'static str, Case, bool)> {
        let mut b = engine::Bytes::new(data);
        let opts = b.below(option_family().len());
        let rest = b.rest();
        if rest.len() > 4096 {
            return None;
        }
        let input = match std::str::from_utf8(rest) {
            Ok(s) => Input::Text(s.to_string()),
            Err(_) => Input::Bytes(rest.to_vec()),
        };
        let c = Case { input, opts, force_reader: false };
        let nt = nontrivial(&c);
        Some(("fuzz-bytes", c, nt))
    }
    fn generate(ctx: &mut Ctx<Self>) {
        let nopts = option_family().len();
        let thorough = ctx.tier == Tier::Thorough;
        // (1) exhaustive token strings
        let n = TOKENS.len() as u64;
        let maxlen = if thorough { 4 } else { 3 };
        let mut total = 0u64;
        let mut code_base = 0u64;
        for len in 0..=maxlen {
            let count = n.pow(len);
            for k in 0..count {
                let idx = code_base + k;
                if !ctx.mine(idx) {
                    continue;
                }
                let mut s = String::new();
                let mut kk = k;
                for _ in 0..len {
                    s.push_str(TOKENS[(kk % n) as usize]);
                    kk /= n;
                }
                // every string under the default options, plus one rotating non-default vector
                // short strings under every option vector; longer ones under the default plus one
                // rotating non-default vector
                let vecs: Vec<usize> = if len <= 2 { (0..nopts).collect() } else { vec![0usize, 1 + (idx as usize % (nopts - 1))] };
                for oi in vecs {
                    let c = Case { input: Input::Text(s.clone()), opts: oi, force_reader: false };
                    let nt = nontrivial(&c);
                    ctx.case("token-strings", &c, nt);
                }
            }
            code_base += count;
            total += count * if len <= 2 { nopts as u64 } else { 2 };
        }
        ctx.subspace(&format!("all strings of <= {maxlen} tokens over 28 tokens x (all option vectors for <= 2 tokens; default + one rotating vector beyond)"), total, true);

        // (2) grammar documents and mutations
        let doc = (gdoc::arb_tree(4, 24), prop::collection::vec(any::<u16>(), 8..40), prop::sample::select(vec![(0u16, 0u16), (25, 25), (35, 30), (20, 40)]), 0u32..(1 << 12))
            .prop_map(|(t, s, (a, al), lb)| gdoc::render(&gdoc::decorate(&t, &s, a, al, 10), &Layout::from_bits(lb)).text)
            .boxed();
        let strat = (doc.clone(), 0usize..nopts).prop_map(|(text, opts)| Case { input: Input::Text(text), opts, force_reader: false });
        ctx.run_strategy("grammar-docs", 1, ctx.tier.pick(1_500, 40_000), &strat, nontrivial);
        let strat = (doc.clone(), prop::collection::vec(any::<u16>(), 6..24), 0usize..nopts).prop_map(|(text, script, opts)| {
            let b = mutate(text.as_bytes(), &script);
            match String::from_utf8(b) {
                Ok(s) => Case { input: Input::Text(s), opts, force_reader: false },
                Err(e) => Case { input: Input::Bytes(e.into_bytes()), opts, force_reader: false },
            }
        });
        ctx.run_strategy("mutated-docs", 2, ctx.tier.pick(4_500, 120_000), &strat, nontrivial);

        // (3) raw bytes
        let strat = (prop::collection::vec(any::<u8>(), 0..64), 0usize..nopts).prop_map(|(b, opts)| Case { input: Input::Bytes(b), opts, force_reader: false });
        ctx.run_strategy("random-bytes", 3, ctx.tier.pick(1_000, 30_000), &strat, nontrivial);
        let boms: Vec<Vec<u8>> = vec![vec![0xef, 0xbb, 0xbf], vec![0xff, 0xfe], vec![0xfe, 0xff], vec![0xff, 0xfe, 0, 0], vec![0, 0, 0xfe, 0xff], vec![0xef, 0xbb], vec![0xef]];
        let strat = (prop::sample::select(boms), doc.clone(), any::<bool>(), 0usize..nopts).prop_map(|(bom, text, utf16, opts)| {
            let mut b = bom;
            if utf16 {
                for u in text.encode_utf16().take(60) {
                    b.extend_from_slice(&u.to_le_bytes());
                }
            } else {
                b.extend_from_slice(&text.as_bytes()[..text.len().min(80)]);
            }
            Case { input: Input::Bytes(b), opts, force_reader: false }
        });
        ctx.run_strategy("bom-prefixed", 4, ctx.tier.pick(800, 20_000), &strat, nontrivial);
        let strat = (doc.clone(), any::<u16>(), 0usize..nopts).prop_map(|(text, cut, opts)| {
            // cut in the middle of a multi-byte character
            let mut t = text;
            t.push_str("k: \u{4e2d}\u{1f600}\u{e9}\n");
            let b = t.into_bytes();
            let n = b.len();
            let keep = n - 1 - (cut as usize % 8);
            Case { input: Input::Bytes(b[..keep].to_vec()), opts, force_reader: false }
        });
        ctx.run_strategy("truncated-multibyte", 5, ctx.tier.pick(800, 20_000), &strat, nontrivial);

        // (4) pathological generated inputs (default and tiny budget only: the stack clause is
        // stated for the default budget)
        let mut gens: Vec<(&str, usize)> = vec![];
        for f in ["block-seq-nest", "block-map-nest", "complex-key-nest", "anchored-nest", "alias-in-deep-nest"] {
            for n in [1999usize, 2000, 2001, 20_000] {
                gens.push((f, n));
            }
        }
        for f in ["flow-seq-nest", "flow-map-nest"] {
            for n in [100usize, 254, 255, 256, 2001, 20_000] {
                gens.push((f, n));
            }
        }
        for n in [10usize, 500, 9_999, 10_001] {
            gens.push(("merge-chain", n.min(3000)));
        }
        for n in [300usize, 1_000, 1_900] {
            gens.push(("alias-chained-nests", n));
        }
        for n in [1usize, 7, 8, 9, 16, 17, 33, 100, 250] {
            gens.push(("anchored-flow-nest", n));
            gens.push(("anchors-in-skipped-doc", n));
        }
        gens.push(("wide-seq", 250_000));
        gens.push(("wide-seq", 250_001));
        gens.push(("wide-map", 125_000));
        gens.push(("many-docs", 1_024));
        gens.push(("many-docs", 1_025));
        gens.push(("big-scalar", 1 << 20));
        gens.push(("long-line-error", 20_000));
        gens.push(("many-aliases", 50_001));
        if thorough {
            gens.push(("big-scalar", (64 << 20) + 1));
            gens.push(("wide-seq", 1_000_001));
        }
        let mut idx = 0u64;
        for (f, n) in &gens {
            for oi in [0usize, 1] {
                idx += 1;
                if ctx.mine(idx) {
                    let c = Case { input: Input::Gen(f.to_string(), *n), opts: oi, force_reader: false };
                    ctx.case("pathological", &c, true);
                }
            }
        }
        ctx.subspace("pathological families x {default, tiny} budget", gens.len() as u64 * 2, true);
    }
}

fn main() {
    engine::main::<C01>()
}

/// entry point of the libFuzzer target `fuzz/fuzz_targets/c01.rs`
#[allow(dead_code)]
pub fn fuzz(data: &[u8]) {
    engine::fuzz_one::<C01>(data)
}
