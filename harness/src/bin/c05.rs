//! C05 – typed deserialization is position-faithful; shape mismatches are errors.
use proptest::prelude::*;
use serde::de::DeserializeSeed;
use serde::{Deserialize, Serialize};
use vcheck::dynschema::{self as ds, Ty, D, DV, FIELDS, VARS, VK};
use vcheck::engine::{self, Ctx, Outcome, Property};
use vcheck::gdoc::{self, Kind, Layout, Node, Style};

#[derive(Clone, Debug, Serialize, Deserialize)]
struct Case {
    ty: Ty,
    doc: Node,
    layout: Layout,
    /// label of the perturbation that produced `doc` (evidence only)
    perturbation: String,
}

// ---------------- reference interpreter (DESIGN.md Appendix A) ------------------------------
#[derive(Clone, Debug, PartialEq)]
enum Pat {
    Any,
    Unit,
    Bool(bool),
    Int(i64),
    Str(String),
    None,
    Some(Box<Pat>),
    Seq(Vec<Pat>),
    Map(Vec<(Pat, Pat)>),
    Struct(Vec<Pat>),
    Var(usize, Vec<Pat>),
    NT(Box<Pat>),
}
fn matches(p: &Pat, v: &DV) -> bool {
    match (p, v) {
        (Pat::Any, _) => true,
        (Pat::Unit, DV::Unit) | (Pat::None, DV::None) => true,
        (Pat::Bool(a), DV::Bool(b)) => a == b,
        (Pat::Int(a), DV::Int(b)) => a == b,
        (Pat::Str(a), DV::Str(b)) => a == b,
        (Pat::Some(a), DV::Some(b)) | (Pat::NT(a), DV::NT(b)) => matches(a, b),
        (Pat::Seq(a), DV::Seq(b)) | (Pat::Struct(a), DV::Struct(b)) => a.len() == b.len() && a.iter().zip(b).all(|(x, y)| matches(x, y)),
        (Pat::Var(i, a), DV::Var(j, b)) => i == j && a.len() == b.len() && a.iter().zip(b).all(|(x, y)| matches(x, y)),
        (Pat::Map(a), DV::Map(b)) => a.len() == b.len() && a.iter().zip(b).all(|((k1, v1), (k2, v2))| matches(k1, k2) && matches(v1, v2)),
        _ => false,
    }
}
#[derive(Clone, Debug)]
enum V {
    /// the document matches: must be accepted with a value matching the pattern
    Must(Pat),
    /// must be rejected
    MustErr,
    /// not fixed by the documentation: either an error, or a value matching the pattern
    Free(Pat),
}
fn free_any() -> V {
    V::Free(Pat::Any)
}
/// combine children verdicts under a constructor
fn combine(children: Vec<V>, build: impl FnOnce(Vec<Pat>) -> Pat) -> V {
    let mut free = false;
    let mut pats = vec![];
    for c in children {
        match c {
            V::MustErr => return V::MustErr,
            V::Free(p) => {
                free = true;
                pats.push(p);
            }
            V::Must(p) => pats.push(p),
        }
    }
    let p = build(pats);
    if free { V::Free(p) } else { V::Must(p) }
}
fn weaken(v: V) -> V {
    match v {
        V::Must(p) => V::Free(p),
        o => o,
    }
}

#[derive(PartialEq)]
enum Cls {
    Null,
    Bool(bool),
    Int(i64),
    Ident,
    /// quoted or otherwise not one of the three plain lexical classes
    OtherStr,
}
fn class(value: &str, style: Style) -> Cls {
    if style != Style::Plain {
        return Cls::OtherStr;
    }
    match value {
        "~" | "null" => Cls::Null,
        "true" => Cls::Bool(true),
        "false" => Cls::Bool(false),
        v if !v.is_empty() && v.len() <= 2 && v.bytes().all(|b| b.is_ascii_digit()) && !(v.len() == 2 && v.starts_with('0')) => Cls::Int(v.parse().unwrap()),
        v if v.len() >= 2 && v.len() <= 4 && v.bytes().all(|b| b.is_ascii_alphabetic()) => Cls::Ident,
        _ => Cls::OtherStr,
    }
}
fn is_null(n: &Node) -> bool {
    matches!(&n.kind, Kind::Scalar { value, style } if class(value, *style) == Cls::Null) && n.tag.is_none()
}
fn has_dup_keys(entries: &[(Node, Node)]) -> bool {
    entries.iter().enumerate().any(|(i, (k, _))| entries[..i].iter().any(|(k2, _)| gdoc::same_key(k2, k)))
}

fn interp(ty: &Ty, n: &Node) -> V {
    if let Kind::Alias(_) = n.kind {
        return free_any();
    }
    // tags: only `!Variant` on enums is interpreted; anything else is outside the grammar
    if let Some(tag) = &n.tag {
        if let Ty::Enum(vks) = ty {
            let name = tag.trim_start_matches('!');
            let bare = Node { anchor: None, tag: None, kind: n.kind.clone() };
            // `!Variant {..}`: the mapping could equally be read as the `{Variant: payload}`
            // notation; which one wins is not documented
            if matches!(n.kind, Kind::Map { .. }) {
                return free_any();
            }
            return match VARS[..vks.len()].iter().position(|v| *v == name) {
                None => free_any(),
                Some(i) => weaken(match &vks[i] {
                    VK::Unit => {
                        if is_null(&bare) {
                            V::Must(Pat::Var(i, vec![]))
                        } else if matches!(&bare.kind, Kind::Scalar { style: Style::Plain, .. } | Kind::Seq { .. }) {
                            // `!Variant x` / `!Variant [..]` for a unit variant: a payload where none
                            // belongs is a kind mismatch, exactly as in `{Variant: x}` - it must not
                            // be dropped silently
                            V::MustErr
                        } else {
                            free_any()
                        }
                    }
                    VK::New(t) => combine(vec![interp(t, &bare)], |p| Pat::Var(i, p)),
                    VK::Tup(ts) => match interp(&Ty::Tuple(ts.clone()), &bare) {
                        V::Must(Pat::Seq(p)) => V::Must(Pat::Var(i, p)),
                        V::Free(Pat::Seq(p)) => V::Free(Pat::Var(i, p)),
                        V::MustErr => V::MustErr,
                        _ => free_any(),
                    },
                    VK::St(_) => free_any(),
                }),
            };
        }
        return free_any();
    }
    match ty {
        Ty::Int | Ty::Bool | Ty::Str | Ty::Unit => match &n.kind {
            Kind::Scalar { value, style } => {
                if *style != Style::Plain && *ty != Ty::Str {
                    // a quoted scalar into a non-string target: not fixed by the documentation
                    // (C06's grey zone); if accepted, the value is that of the same text unquoted
                    return match (ty, class(value, Style::Plain)) {
                        (Ty::Int, Cls::Int(i)) => V::Free(Pat::Int(i)),
                        (Ty::Bool, Cls::Bool(b)) => V::Free(Pat::Bool(b)),
                        (Ty::Unit, Cls::Null) => V::Free(Pat::Unit),
                        _ => V::MustErr,
                    };
                }
                let c = class(value, *style);
                match (ty, c) {
                    (Ty::Int, Cls::Int(i)) => V::Must(Pat::Int(i)),
                    (Ty::Int, _) => V::MustErr,
                    (Ty::Bool, Cls::Bool(b)) => V::Must(Pat::Bool(b)),
                    (Ty::Bool, _) => V::MustErr,
                    (Ty::Unit, Cls::Null) => V::Must(Pat::Unit),
                    (Ty::Unit, _) => V::MustErr,
                    // null into a string: the library documents an error ("use Option"); not fixed by the property
                    (Ty::Str, Cls::Null) => V::Free(Pat::Str(value.clone())),
                    (Ty::Str, _) => V::Must(Pat::Str(value.clone())),
                    _ => unreachable!(),
                }
            }
            _ => V::MustErr,
        },
        Ty::Opt(t) => {
            if is_null(n) {
                V::Must(Pat::None)
            } else {
                combine(vec![interp(t, n)], |mut p| Pat::Some(Box::new(p.remove(0))))
            }
        }
        Ty::NT(t) => combine(vec![interp(t, n)], |mut p| Pat::NT(Box::new(p.remove(0)))),
        Ty::Seq(t) => match &n.kind {
            Kind::Seq { items, .. } => combine(items.iter().map(|x| interp(t, x)).collect(), Pat::Seq),
            _ if is_null(n) => V::Free(Pat::Seq(vec![])),
            _ => V::MustErr,
        },
        Ty::Tuple(ts) | Ty::TS(ts) => match &n.kind {
            Kind::Seq { items, .. } => {
                if items.len() != ts.len() {
                    V::MustErr
                } else {
                    combine(ts.iter().zip(items).map(|(t, x)| interp(t, x)).collect(), Pat::Seq)
                }
            }
            _ => V::MustErr,
        },
        Ty::Map(kt, vt) => match &n.kind {
            Kind::Map { entries, .. } => {
                if has_dup_keys(entries) {
                    return V::MustErr;
                }
                let mut kids = vec![];
                for (k, v) in entries {
                    kids.push(interp(kt, k));
                    kids.push(interp(vt, v));
                }
                combine(kids, |p| {
                    let mut out = vec![];
                    let mut it = p.into_iter();
                    while let (Some(k), Some(v)) = (it.next(), it.next()) {
                        out.push((k, v));
                    }
                    Pat::Map(out)
                })
            }
            _ if is_null(n) => V::Free(Pat::Map(vec![])),
            _ => V::MustErr,
        },
        Ty::Struct(ts, deny) => match &n.kind {
            Kind::Map { entries, .. } => {
                if has_dup_keys(entries) {
                    return V::MustErr;
                }
                let mut slots: Vec<Option<V>> = ts.iter().map(|_| None).collect();
                let mut odd = false;
                for (k, v) in entries {
                    let name = match &k.kind {
                        Kind::Scalar { value, style } if k.tag.is_none() && class(value, *style) != Cls::Null => value.as_str(),
                        // a non-scalar / tagged / aliased / null key where a field name is expected
                        _ => {
                            odd = true;
                            continue;
                        }
                    };
                    match FIELDS[..ts.len()].iter().position(|f| *f == name) {
                        Some(i) => slots[i] = Some(interp(&ts[i], v)),
                        None => {
                            if *deny {
                                return V::MustErr;
                            }
                        }
                    }
                }
                if odd {
                    return free_any();
                }
                let mut kids = vec![];
                for (i, s) in slots.into_iter().enumerate() {
                    match s {
                        Some(v) => kids.push(v),
                        None => {
                            if matches!(ts[i], Ty::Opt(_)) {
                                kids.push(V::Must(Pat::None));
                            } else {
                                return V::MustErr;
                            }
                        }
                    }
                }
                combine(kids, Pat::Struct)
            }
            // serde's derived visitor also accepts a sequence; null: "treated as empty" is a code comment only
            Kind::Seq { .. } => free_any(),
            _ if is_null(n) => free_any(),
            _ => V::MustErr,
        },
        Ty::Enum(vks) => match &n.kind {
            Kind::Scalar { value, style } => {
                if class(value, *style) == Cls::Null {
                    return V::MustErr;
                }
                match VARS[..vks.len()].iter().position(|v| *v == value.as_str()) {
                    None => V::MustErr,
                    Some(i) => match &vks[i] {
                        VK::Unit => V::Must(Pat::Var(i, vec![])),
                        // bare `Variant` of a variant that carries a payload: an error, or the variant
                        // with a payload made from nothing - never from a neighbouring node
                        VK::New(_) => V::Free(Pat::Var(i, vec![Pat::Any])),
                        VK::Tup(ts) | VK::St(ts) => V::Free(Pat::Var(i, ts.iter().map(|_| Pat::Any).collect())),
                    },
                }
            }
            Kind::Map { entries, .. } => {
                if entries.len() != 1 {
                    return V::MustErr;
                }
                let (k, v) = &entries[0];
                let name = match &k.kind {
                    Kind::Scalar { value, .. } if k.tag.is_none() => value.as_str(),
                    _ => return V::MustErr,
                };
                match VARS[..vks.len()].iter().position(|x| *x == name) {
                    None => V::MustErr,
                    Some(i) => match &vks[i] {
                        VK::Unit => {
                            if is_null(v) {
                                V::Must(Pat::Var(i, vec![]))
                            } else if v.tag.is_some() {
                                // a tagged payload is outside the documented grammar (as for `Ty::Unit`)
                                V::Free(Pat::Var(i, vec![]))
                            } else {
                                V::MustErr
                            }
                        }
                        VK::New(t) => combine(vec![interp(t, v)], |p| Pat::Var(i, p)),
                        VK::Tup(ts) => match interp(&Ty::Tuple(ts.clone()), v) {
                            V::Must(Pat::Seq(p)) => V::Must(Pat::Var(i, p)),
                            V::Free(Pat::Seq(p)) => V::Free(Pat::Var(i, p)),
                            V::MustErr => V::MustErr,
                            _ => free_any(),
                        },
                        VK::St(ts) => match interp(&Ty::Struct(ts.clone(), false), v) {
                            V::Must(Pat::Struct(p)) => V::Must(Pat::Var(i, p)),
                            V::Free(Pat::Struct(p)) => V::Free(Pat::Var(i, p)),
                            V::MustErr => V::MustErr,
                            _ => free_any(),
                        },
                    },
                }
            }
            Kind::Seq { .. } => V::MustErr,
            Kind::Alias(_) => free_any(),
        },
    }
}

// ---------------- documents from (type, value) ------------------------------------------------
const IDENTS: [&str; 5] = ["ab", "cd", "foo", "zed", "qux"];

fn arb_val(t: &Ty) -> BoxedStrategy<DV> {
    match t {
        Ty::Unit => Just(DV::Unit).boxed(),
        Ty::Bool => any::<bool>().prop_map(DV::Bool).boxed(),
        Ty::Int => (0i64..100).prop_map(DV::Int).boxed(),
        Ty::Str => prop::sample::select(IDENTS.to_vec()).prop_map(|s| DV::Str(s.to_string())).boxed(),
        Ty::Opt(t) => prop_oneof![Just(DV::None), arb_val(t).prop_map(|v| DV::Some(Box::new(v)))].boxed(),
        Ty::Seq(t) => prop::collection::vec(arb_val(t), 0..3).prop_map(DV::Seq).boxed(),
        Ty::Tuple(ts) | Ty::TS(ts) => ts.iter().map(arb_val).collect::<Vec<_>>().prop_map(DV::Seq).boxed(),
        Ty::NT(t) => arb_val(t).prop_map(|v| DV::NT(Box::new(v))).boxed(),
        Ty::Map(k, v) => prop::collection::vec((arb_val(k), arb_val(v)), 0..3)
            .prop_map(|es| {
                let mut out: Vec<(DV, DV)> = vec![];
                for (k, v) in es {
                    if !out.iter().any(|(k2, _)| k2 == &k) {
                        out.push((k, v));
                    }
                }
                DV::Map(out)
            })
            .boxed(),
        Ty::Struct(ts, _) => ts.iter().map(arb_val).collect::<Vec<_>>().prop_map(DV::Struct).boxed(),
        Ty::Enum(vks) => {
            let opts: Vec<BoxedStrategy<DV>> = vks
                .iter()
                .enumerate()
                .map(|(i, vk)| match vk {
                    VK::Unit => Just(DV::Var(i, vec![])).boxed(),
                    VK::New(t) => arb_val(t).prop_map(move |v| DV::Var(i, vec![v])).boxed(),
                    VK::Tup(ts) | VK::St(ts) => ts.iter().map(arb_val).collect::<Vec<_>>().prop_map(move |v| DV::Var(i, v)).boxed(),
                })
                .collect();
            proptest::strategy::Union::new(opts).boxed()
        }
    }
}

/// the document for a value; `script` chooses notations (unit variants bare / mapping, tagged forms, flow flags)
fn to_node(t: &Ty, v: &DV, script: &[u16], si: &mut usize) -> Node {
    let mut next = || {
        let x = if script.is_empty() { 0 } else { script[*si % script.len()] };
        *si += 1;
        x
    };
    match (t, v) {
        (Ty::Unit, _) | (_, DV::None) => Node::plain(if next() % 2 == 0 { "~" } else { "null" }),
        (Ty::Bool, DV::Bool(b)) => Node::plain(if *b { "true" } else { "false" }),
        (Ty::Int, DV::Int(i)) => Node::plain(&i.to_string()),
        (Ty::Str, DV::Str(s)) => Node::plain(s),
        (Ty::Opt(t), DV::Some(x)) | (Ty::NT(t), DV::NT(x)) => to_node(t, x, script, si),
        (Ty::Seq(t), DV::Seq(x)) => {
            let flow = next() % 3 == 0;
            Node::seq(flow, x.iter().map(|y| to_node(t, y, script, si)).collect())
        }
        (Ty::Tuple(ts), DV::Seq(x)) | (Ty::TS(ts), DV::Seq(x)) => {
            let flow = next() % 3 == 0;
            Node::seq(flow, ts.iter().zip(x).map(|(t, y)| to_node(t, y, script, si)).collect())
        }
        (Ty::Map(kt, vt), DV::Map(es)) => {
            let flow = next() % 3 == 0;
            Node::map(flow, es.iter().map(|(k, y)| (to_node(kt, k, script, si), to_node(vt, y, script, si))).collect())
        }
        (Ty::Struct(ts, _), DV::Struct(x)) => {
            let flow = next() % 3 == 0;
            Node::map(flow, ts.iter().zip(x).enumerate().map(|(i, (t, y))| (Node::plain(FIELDS[i]), to_node(t, y, script, si))).collect())
        }
        (Ty::Enum(vks), DV::Var(i, x)) => {
            let name = VARS[*i];
            let r = next() % 6;
            match &vks[*i] {
                VK::Unit => match r {
                    0 | 1 | 2 => Node::plain(name),
                    3 | 4 => Node::map(r == 3, vec![(Node::plain(name), Node::plain("~"))]),
                    _ => Node::plain("~").tagged(&format!("!{name}")),
                },
                VK::New(t) => {
                    let p = to_node(t, &x[0], script, si);
                    if r == 5 && p.tag.is_none() {
                        p.tagged(&format!("!{name}"))
                    } else {
                        Node::map(r % 2 == 0, vec![(Node::plain(name), p)])
                    }
                }
                VK::Tup(ts) => {
                    let p = Node::seq(r % 2 == 0, ts.iter().zip(x).map(|(t, y)| to_node(t, y, script, si)).collect());
                    if r == 5 {
                        p.tagged(&format!("!{name}"))
                    } else {
                        Node::map(r % 3 == 0, vec![(Node::plain(name), p)])
                    }
                }
                VK::St(ts) => {
                    let p = Node::map(r % 2 == 0, ts.iter().zip(x).enumerate().map(|(j, (t, y))| (Node::plain(FIELDS[j]), to_node(t, y, script, si))).collect());
                    Node::map(r % 3 == 0, vec![(Node::plain(name), p)])
                }
            }
        }
        _ => Node::plain("~"),
    }
}

/// one perturbation at pre-order position `at` (counting every node, keys included)
fn perturb(doc: &Node, at: usize, kind: u16) -> (Node, &'static str) {
    let s = Node::plain;
    let replacements: [(&str, Node); 12] = [
        ("null-in-place", s("~")),
        ("int-in-place", s("7")),
        ("bool-in-place", s("true")),
        ("ident-in-place", s("zz")),
        ("empty-seq-in-place", Node::seq(true, vec![])),
        ("seq-in-place", Node::seq(true, vec![s("zz")])),
        ("empty-map-in-place", Node::map(true, vec![])),
        ("map-in-place", Node::map(true, vec![(s("zz"), s("7"))])),
        ("bare-variant-in-place", s("Va")),
        ("bare-variant-b-in-place", s("Vb")),
        ("variant-map-in-place", Node::map(true, vec![(s("Vb"), s("7"))])),
        ("two-variants-in-place", Node::map(true, vec![(s("Va"), s("~")), (s("Vb"), s("7"))])),
    ];
    let mut idx = 0usize;
    let mut label = "no-op";
    fn go(n: &Node, at: usize, kind: u16, idx: &mut usize, label: &mut &'static str, reps: &[(&'static str, Node); 12]) -> Node {
        let me = *idx;
        *idx += 1;
        if me == at {
            let k = kind % 21;
            if (k as usize) < reps.len() {
                *label = reps[k as usize].0;
                // skip the subtree's indices
                *idx += n.count() - 1;
                return reps[k as usize].1.clone();
            }
            match (&n.kind, k) {
                (Kind::Seq { flow, items }, 12) => {
                    *label = "extra-element";
                    let mut v = items.clone();
                    v.push(Node::plain("9"));
                    *idx += n.count() - 1;
                    return Node { anchor: None, tag: n.tag.clone(), kind: Kind::Seq { flow: *flow, items: v } };
                }
                (Kind::Seq { flow, items }, 13) if !items.is_empty() => {
                    *label = "missing-element";
                    let mut v = items.clone();
                    v.pop();
                    *idx += n.count() - 1;
                    return Node { anchor: None, tag: n.tag.clone(), kind: Kind::Seq { flow: *flow, items: v } };
                }
                (Kind::Seq { flow, items }, 14) if !items.is_empty() => {
                    *label = "first-element-missing";
                    let v = items[1..].to_vec();
                    *idx += n.count() - 1;
                    return Node { anchor: None, tag: n.tag.clone(), kind: Kind::Seq { flow: *flow, items: v } };
                }
                (Kind::Map { flow, entries }, 12) => {
                    *label = "extra-entry";
                    let mut v = entries.clone();
                    v.push((Node::plain("zz"), Node::plain("9")));
                    *idx += n.count() - 1;
                    return Node { anchor: None, tag: n.tag.clone(), kind: Kind::Map { flow: *flow, entries: v } };
                }
                (Kind::Map { flow, entries }, 13) if !entries.is_empty() => {
                    *label = "missing-entry";
                    let mut v = entries.clone();
                    v.pop();
                    *idx += n.count() - 1;
                    return Node { anchor: None, tag: n.tag.clone(), kind: Kind::Map { flow: *flow, entries: v } };
                }
                (Kind::Map { flow, entries }, 14) if !entries.is_empty() => {
                    *label = "renamed-key";
                    let mut v = entries.clone();
                    v[0].0 = Node::plain("qq");
                    *idx += n.count() - 1;
                    return Node { anchor: None, tag: n.tag.clone(), kind: Kind::Map { flow: *flow, entries: v } };
                }
                (Kind::Map { flow, entries }, 15) => {
                    *label = "extra-variant-entry";
                    let mut v = entries.clone();
                    v.push((Node::plain("Vb"), Node::plain("7")));
                    *idx += n.count() - 1;
                    return Node { anchor: None, tag: n.tag.clone(), kind: Kind::Map { flow: *flow, entries: v } };
                }
                (Kind::Seq { flow, items }, 16) => {
                    *label = "seq-to-map";
                    let v = items.iter().enumerate().map(|(i, x)| (Node::plain(FIELDS[i % 4]), x.clone())).collect();
                    *idx += n.count() - 1;
                    return Node { anchor: None, tag: n.tag.clone(), kind: Kind::Map { flow: *flow, entries: v } };
                }
                (Kind::Map { flow, entries }, 16) => {
                    *label = "map-to-seq";
                    let v = entries.iter().map(|(_, x)| x.clone()).collect();
                    *idx += n.count() - 1;
                    return Node { anchor: None, tag: n.tag.clone(), kind: Kind::Seq { flow: *flow, items: v } };
                }
                (Kind::Scalar { value, .. }, 17) => {
                    *label = "quoted-scalar";
                    return Node { anchor: None, tag: n.tag.clone(), kind: Kind::Scalar { value: value.clone(), style: Style::Double } };
                }
                // the `!Variant` tag stays, the payload is replaced (a payload for a unit variant,
                // the wrong kind for the others)
                (_, 18) if n.tag.is_some() => {
                    *label = "tagged-payload-scalar";
                    *idx += n.count() - 1;
                    return Node { anchor: None, tag: n.tag.clone(), kind: Kind::Scalar { value: "zz".into(), style: Style::Plain } };
                }
                // a null payload under the kept tag: for a newtype variant that is the payload
                // `~` read by the variant's type, exactly as in `{Variant: ~}`
                (_, 20) if n.tag.is_some() => {
                    *label = "tagged-payload-null";
                    *idx += n.count() - 1;
                    return Node { anchor: None, tag: n.tag.clone(), kind: Kind::Scalar { value: "~".into(), style: Style::Plain } };
                }
                (_, 19) if n.tag.is_some() => {
                    *label = "tagged-payload-seq";
                    *idx += n.count() - 1;
                    return Node { anchor: None, tag: n.tag.clone(), kind: Kind::Seq { flow: true, items: vec![Node::plain("7")] } };
                }
                _ => {}
            }
        }
        let kind2 = match &n.kind {
            Kind::Seq { flow, items } => Kind::Seq { flow: *flow, items: items.iter().map(|x| go(x, at, kind, idx, label, reps)).collect() },
            Kind::Map { flow, entries } => Kind::Map { flow: *flow, entries: entries.iter().map(|(k, v)| (go(k, at, kind, idx, label, reps), go(v, at, kind, idx, label, reps))).collect() },
            k => k.clone(),
        };
        Node { anchor: None, tag: n.tag.clone(), kind: kind2 }
    }
    let out = go(doc, at, kind, &mut idx, &mut label, &replacements);
    (out, label)
}

fn check_case(c: &Case) -> Outcome {
    let r = gdoc::render(&c.doc, &c.layout);
    if gdoc::selfcheck_render(&c.doc, &c.layout, &r.text).is_err() {
        return Outcome::Discard("selfcheck-render");
    }
    let text = r.text;
    let verdict = interp(&c.ty, &c.doc);
    let got = serde_saphyr::with_deserializer_from_str(&text, |d| D(&c.ty).deserialize(d));
    // the other single-document entry points carry their own "nothing is left over" checks: each
    // must give the same outcome (same value, or an error as well)
    let others: [(&str, Result<DV, serde_saphyr::Error>); 3] = ds::with_ty(&c.ty, || {
        [
            ("from_str", serde_saphyr::from_str::<ds::Dyn>(&text).map(|d| d.0)),
            ("from_slice", serde_saphyr::from_slice::<ds::Dyn>(text.as_bytes()).map(|d| d.0)),
            ("from_reader", serde_saphyr::from_reader::<_, ds::Dyn>(std::io::Cursor::new(text.as_bytes())).map(|d| d.0)),
        ]
    });
    for (name, o) in &others {
        match (&got, o) {
            (Ok(a), Ok(b)) if a == b => {}
            (Err(_), Err(_)) => {}
            (a, b) => {
                return Outcome::Fail(format!(
                    "entry point {name} gives {} where with_deserializer_from_str gives {} (type {:?}, document {text:?})",
                    match b { Ok(v) => format!("{v:?}"), Err(e) => format!("error: {}", e.without_snippet()) },
                    match a { Ok(v) => format!("{v:?}"), Err(e) => format!("error: {}", e.without_snippet()) },
                    c.ty
                ))
            }
        }
    }
    // the streaming entry points: one document gives at most one item, "after an error, the
    // iterator ends", and the item is the reference outcome ("empty/null-like documents are
    // skipped and produce no items", so no item at all is fine for a null-like root only)
    let root_nullish = matches!(&c.doc.kind, Kind::Scalar { value, style: Style::Plain } if matches!(value.as_str(), "" | "~" | "null" | "Null" | "NULL"));
    let items: Vec<Result<DV, serde_saphyr::Error>> = ds::with_ty(&c.ty, || {
        let mut cur = std::io::Cursor::new(text.as_bytes());
        serde_saphyr::read::<_, ds::Dyn>(&mut cur).take(4).map(|r| r.map(|d| d.0)).collect()
    });
    let show = |items: &[Result<DV, serde_saphyr::Error>]| {
        items.iter().map(|r| match r { Ok(v) => format!("Ok({v:?})"), Err(e) => format!("Err({})", e.without_snippet().to_string().lines().next().unwrap_or("")) }).collect::<Vec<_>>().join(", ")
    };
    let stream_ok = match (&got, items.as_slice()) {
        (_, []) => root_nullish,
        (Ok(a), [Ok(b)]) => a == b,
        (Err(_), [Err(_)]) => true,
        _ => false,
    };
    if !stream_ok {
        return Outcome::Fail(format!(
            "entry point read gives the items [{}] for one document where with_deserializer_from_str gives {} (type {:?}, document {text:?})",
            show(&items),
            match &got { Ok(v) => format!("{v:?}"), Err(e) => format!("error: {}", e.without_snippet().to_string().lines().next().unwrap_or("")) },
            c.ty
        ));
    }
    // (from_multiple collects the same stream; it is only called once `read` is known to end)
    let multi: Result<Vec<DV>, serde_saphyr::Error> = ds::with_ty(&c.ty, || serde_saphyr::from_multiple::<ds::Dyn>(&text).map(|v| v.into_iter().map(|d| d.0).collect()));
    let multi_ok = match (&got, &multi) {
        (Ok(a), Ok(v)) => (v.len() == 1 && &v[0] == a) || (v.is_empty() && root_nullish),
        (Err(_), Err(_)) => true,
        (Err(_), Ok(v)) => v.is_empty() && root_nullish,
        (Ok(_), Err(_)) => false,
    };
    if !multi_ok {
        return Outcome::Fail(format!(
            "entry point from_multiple gives {} where with_deserializer_from_str gives {} (type {:?}, document {text:?})",
            match &multi { Ok(v) => format!("{v:?}"), Err(e) => format!("error: {}", e.without_snippet().to_string().lines().next().unwrap_or("")) },
            match &got { Ok(v) => format!("{v:?}"), Err(e) => format!("error: {}", e.without_snippet().to_string().lines().next().unwrap_or("")) },
            c.ty
        ));
    }
    // notation independence: `!Variant payload` and `{Variant: payload}` are two notations of one
    // value ("all enum notations ... are honoured"): the payload is read by the variant's type in
    // both, so both give the same value or both fail
    {
        fn to_map_notation(n: &Node, changed: &mut bool) -> Node {
            let kind = match &n.kind {
                Kind::Seq { flow, items } => Kind::Seq { flow: *flow, items: items.iter().map(|x| to_map_notation(x, changed)).collect() },
                Kind::Map { flow, entries } => Kind::Map { flow: *flow, entries: entries.iter().map(|(k, v)| (to_map_notation(k, changed), to_map_notation(v, changed))).collect() },
                k => k.clone(),
            };
            match (&n.tag, &kind) {
                (Some(t), Kind::Scalar { value, .. }) if t.starts_with('!') && !t.starts_with("!!") && !value.is_empty() => {
                    *changed = true;
                    Node { anchor: None, tag: None, kind: Kind::Map { flow: true, entries: vec![(Node::plain(&t[1..]), Node { anchor: None, tag: None, kind })] } }
                }
                (Some(t), Kind::Seq { .. }) if t.starts_with('!') && !t.starts_with("!!") => {
                    *changed = true;
                    Node { anchor: None, tag: None, kind: Kind::Map { flow: true, entries: vec![(Node::plain(&t[1..]), Node { anchor: None, tag: None, kind })] } }
                }
                _ => Node { anchor: n.anchor.clone(), tag: n.tag.clone(), kind },
            }
        }
        // (a variant tag on a mapping node is the notation the reference interpreter leaves
        // Free - the crate does not look at mapping tags: what such a document means is not
        // fixed, so neither is what its rewritten form should give; libFuzzer artifact)
        fn has_tagged_map(n: &Node) -> bool {
            match &n.kind {
                Kind::Seq { items, .. } => items.iter().any(has_tagged_map),
                Kind::Map { entries, .. } => n.tag.is_some() || entries.iter().any(|(k, v)| has_tagged_map(k) || has_tagged_map(v)),
                _ => false,
            }
        }
        let mut changed = false;
        let doc2 = if has_tagged_map(&c.doc) { c.doc.clone() } else { to_map_notation(&c.doc, &mut changed) };
        // (judged on documents generated from a value of the type: on perturbed ones the two
        // notations may fail - or be tolerated - in different ways)
        if changed && (c.perturbation == "none" || c.perturbation == "no-op") {
            let r2 = gdoc::render(&doc2, &c.layout);
            if gdoc::selfcheck_render(&doc2, &c.layout, &r2.text).is_ok() {
                let got2 = serde_saphyr::with_deserializer_from_str(&r2.text, |d| D(&c.ty).deserialize(d));
                let same = match (&got, &got2) {
                    (Ok(a), Ok(b)) => a == b,
                    (Err(_), Err(_)) => true,
                    _ => false,
                };
                if !same {
                    let sh = |r: &Result<DV, serde_saphyr::Error>| match r { Ok(v) => format!("{v:?}"), Err(e) => format!("error: {}", e.without_snippet().to_string().lines().next().unwrap_or("")) };
                    return Outcome::Fail(format!("enum notations disagree: tagged notation {text:?} gives {}, mapping notation {:?} gives {} (type {:?})", sh(&got), r2.text, sh(&got2), c.ty));
                }
            }
        }
    }
    // content left after the document: a flow collection or quoted scalar at the root ends where
    // it ends - a second root node behind it (without any marker) is surplus content, which the
    // single-document entry points must report whatever the first node is worth
    let root_closed = match &c.doc.kind {
        Kind::Seq { flow, items } => *flow || c.layout.force_flow || items.is_empty(),
        Kind::Map { flow, entries } => *flow || c.layout.force_flow || entries.is_empty(),
        Kind::Scalar { style, .. } => matches!(style, Style::Double | Style::Single),
        _ => false,
    };
    if root_closed && got.is_ok() && text.ends_with('\n') {
        let twice = format!("{text}{text}");
        let rs: [(&str, Result<DV, serde_saphyr::Error>); 4] = ds::with_ty(&c.ty, || {
            [
                ("with_deserializer_from_str", serde_saphyr::with_deserializer_from_str(&twice, |d| D(&c.ty).deserialize(d))),
                ("from_str", serde_saphyr::from_str::<ds::Dyn>(&twice).map(|d| d.0)),
                ("from_slice", serde_saphyr::from_slice::<ds::Dyn>(twice.as_bytes()).map(|d| d.0)),
                ("from_reader", serde_saphyr::from_reader::<_, ds::Dyn>(std::io::Cursor::new(twice.as_bytes())).map(|d| d.0)),
            ]
        });
        for (name, r) in &rs {
            if let Ok(v) = r {
                return Outcome::Fail(format!("{name} accepts a second root node behind the document as {v:?} (type {:?}, text {twice:?})", c.ty));
            }
        }
    }
    match (&verdict, &got) {
        (V::MustErr, Ok(v)) => Outcome::Fail(format!("shape mismatch accepted as {v:?} (type {:?}, document {text:?})", c.ty)),
        (V::MustErr, Err(_)) => Outcome::Pass,
        (V::Must(p), Ok(v)) | (V::Free(p), Ok(v)) => {
            if matches(p, v) {
                Outcome::Pass
            } else {
                Outcome::Fail(format!("value {v:?} is not the position-faithful one {p:?} (type {:?}, document {text:?})", c.ty))
            }
        }
        (V::Must(_), Err(e)) => Outcome::Fail(format!("matching document rejected: {} (type {:?}, document {text:?})", e.without_snippet(), c.ty)),
        (V::Free(_), Err(_)) => Outcome::Pass,
    }
}

struct C05;

fn nontrivial(c: &Case) -> bool {
    if c.perturbation != "none" && c.perturbation != "no-op" {
        return true;
    }
    // matching documents with an enum or a tuple inside a sequence / map
    fn has(t: &Ty, inside: bool) -> bool {
        match t {
            Ty::Enum(_) | Ty::Tuple(_) | Ty::TS(_) if inside => true,
            Ty::Seq(x) => has(x, true),
            Ty::Map(k, v) => has(k, true) || has(v, true),
            Ty::Opt(x) | Ty::NT(x) => has(x, inside),
            Ty::Tuple(ts) | Ty::TS(ts) | Ty::Struct(ts, _) => ts.iter().any(|x| has(x, inside)),
            Ty::Enum(vks) => vks.iter().any(|vk| match vk {
                VK::Unit => false,
                VK::New(x) => has(x, inside),
                VK::Tup(ts) | VK::St(ts) => ts.iter().any(|x| has(x, inside)),
            }),
            _ => false,
        }
    }
    has(&c.ty, false)
}

impl Property for C05 {
    const ID: &'static str = "C05";
    type Case = Case;
    fn rule() -> String {
        "cases = (run-time type description, document). Types from a schema grammar (bool / int / string / option / unit / sequence / tuple / tuple struct / newtype / map / struct with and without deny_unknown_fields / enum with all four variant kinds, depth <= 4); the document is first generated from the type and a value (plain scalars of three unambiguous lexical classes; enum values in bare, mapping and tagged notation; block and flow), then perturbed at one random node by one of 21 perturbations (null / scalar / sequence / mapping / bare variant / variant mapping / two-variant mapping in place, extra / missing / first-missing element, extra / missing entry, renamed key, extra variant entry, sequence<->mapping, quoted scalar, scalar / sequence / null payload under a kept `!Variant` tag) or left intact. Oracle: a reference interpreter over the document AST (self-checked against the raw parser events) and the type, written from DESIGN.md Appendix A, answers Must(pattern) / MustErr / Free(pattern): an accepted value must match the position-faithful pattern (holes only where the documentation is silent), a MustErr document must be rejected, a Must document must be accepted. Every document is also read through from_str / from_slice / from_reader (same outcome as with_deserializer_from_str) and through read / from_multiple (one document gives at most one item, nothing follows an error, the item is the reference outcome). Non-trivial: perturbed documents, and matching documents with an enum or tuple inside a sequence / map.".into()
    }
    fn assumptions() -> Vec<String> {
        vec![
            "scalars are restricted to integers 0..99, true/false, [a-z]{2,4} identifiers and ~/null so that scalar interpretation (C06) plays no role".into(),
            "behaviour the documentation leaves open is Free: null for a container / struct / string, a sequence for a struct, tagged variant forms, non-scalar struct keys, bare names of payload-carrying variants (error or the variant with a payload made from nothing)".into(),
        ]
    }
    fn check(c: &Case) -> Outcome {
        check_case(c)
    }
    fn signatures(c: &Case) -> Vec<&'static str> {
        // open C13/C05 finding: a mapping key that is an empty mapping or a one-entry mapping whose
        // own key is null-like is mistaken for the explicit-empty-key special case by the reader
        let mut hit = false;
        c.doc.visit(&mut |n| {
            if let Kind::Map { entries, .. } = &n.kind {
                for (k, _) in entries {
                    if let Kind::Map { entries: ke, .. } = &k.kind {
                        if ke.is_empty() || (ke.len() == 1 && matches!(&ke[0].0.kind, Kind::Scalar { value, .. } if value.is_empty() || value == "~" || value.eq_ignore_ascii_case("null"))) {
                            hit = true;
                        }
                    }
                }
            }
        });
        if hit { vec!["complex_key_empty_key_hack"] } else { vec![] }
    }
    fn shrink(c: &Case) -> Vec<Case> {
        let mut out = vec![];
        if c.layout != Layout::default() {
            out.push(Case { layout: Layout::default(), ..c.clone() });
        }
        out
    }
    fn selfcheck() -> Result<(), String> {
        vcheck::dynschema_selfcheck::run()
    }
    /// libFuzzer input: layout bits, perturbation (mode, position, kind), notation script, then the
    /// type and a value of it
    fn fuzz_decode(data: &[u8]) -> Option<(&'static str, Case, bool)> {
        let mut b = engine::Bytes::new(data);
        let layout = Layout { doc_end: false, ..Layout::from_bits(b.u16() as u32) };
        let mode = b.below(4);
        let at = b.u16();
        let kind = b.u16();
        let n = 8 + b.below(16);
        let script: Vec<u16> = (0..n).map(|_| b.u16()).collect();
        let ty = ds::ty_from_bytes(&mut b, 4);
        let val = ds::val_from_bytes_with(&mut b, &ty, &IDENTS, 0, 100);
        let doc = to_node(&ty, &val, &script, &mut 0);
        let c = if mode == 0 {
            Case { ty, doc, layout, perturbation: "none".into() }
        } else {
            let n = doc.count();
            let (d2, label) = perturb(&doc, (at as usize * n) >> 16, kind);
            Case { ty, doc: d2, layout, perturbation: label.to_string() }
        };
        let nt = nontrivial(&c);
        Some(("fuzz-typed-documents", c, nt))
    }
    fn generate(ctx: &mut Ctx<Self>) {
        let strat = (ds::arb_ty(4), prop::collection::vec(any::<u16>(), 8..32), any::<u16>(), any::<u16>(), 0u32..(1 << 12), 0u8..4)
            .prop_flat_map(|(ty, script, at, kind, lb, mode)| {
                let v = arb_val(&ty);
                (Just(ty), v, Just(script), Just(at), Just(kind), Just(lb), Just(mode))
            })
            .prop_map(|(ty, val, script, at, kind, lb, mode)| {
                let doc = to_node(&ty, &val, &script, &mut 0);
                let layout = Layout { doc_end: false, ..Layout::from_bits(lb) };
                if mode == 0 {
                    Case { ty, doc, layout, perturbation: "none".into() }
                } else {
                    let n = doc.count();
                    let (d2, label) = perturb(&doc, (at as usize * n) >> 16, kind);
                    Case { ty, doc: d2, layout, perturbation: label.to_string() }
                }
            });
        // distribution pass (same stream => same cases)
        {
            use proptest::strategy::ValueTree;
            let mut runner = ctx.runner(1);
            for _ in 0..4000 {
                if let Ok(t) = strat.new_tree(&mut runner) {
                    let c = t.current();
                    let v = match interp(&c.ty, &c.doc) {
                        V::Must(_) => "Must",
                        V::MustErr => "MustErr",
                        V::Free(Pat::Any) => "FreeAny",
                        V::Free(_) => "Free",
                    };
                    ctx.class(&format!("perturbation {} -> {}", c.perturbation, v));
                }
            }
        }
        ctx.run_strategy("typed-documents", 1, ctx.tier.pick(150_000, 2_000_000), &strat, nontrivial);

        // streams: a bare variant at the end of a document must not take its payload from the next document
        let sstrat = (prop::sample::select(vec!["Vb", "Vc", "Vd"]), 0i64..100).prop_map(|(name, n)| {
            // the document pair is written as one text through a two-item sequence whose first item is the bare variant
            let ty = Ty::Seq(Box::new(Ty::Enum(vec![VK::Unit, VK::New(Box::new(Ty::Int)), VK::Tup(vec![Ty::Int]), VK::St(vec![Ty::Int])])));
            let doc = Node::seq(false, vec![Node::plain(name), Node::plain(&n.to_string())]);
            Case { ty, doc, layout: Layout::default(), perturbation: "bare-payload-variant-before-sibling".into() }
        });
        ctx.run_strategy("bare-variant-before-sibling", 2, 300, &sstrat, |_| true);
    }
}

fn main() {
    engine::main::<C05>()
}

/// entry point of the libFuzzer target `fuzz/fuzz_targets/c05.rs`
#[allow(dead_code)]
pub fn fuzz(data: &[u8]) {
    engine::fuzz_one::<C05>(data)
}
