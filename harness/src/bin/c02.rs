//! C02 – anchors and aliases are transparent: an alias equals a copy of its anchor.
use proptest::prelude::*;
use serde::de::DeserializeSeed;
use serde::{Deserialize, Serialize};
use vcheck::engine::{self, Ctx, Outcome, Property};
use vcheck::gdoc::{self, ExpandErr, Kind, Layout, Node, Style};
use vcheck::shape::{ScalarMode, ShapeSeed};
use vcheck::untyped::U;

#[derive(Clone, Copy, Debug, Serialize, Deserialize, PartialEq, Eq)]
enum Target {
    Untyped,
    Json,
    ShapeStr,
    ShapeOpt,
    ShapeAny,
}
const TARGETS: [Target; 5] = [Target::Untyped, Target::Json, Target::ShapeStr, Target::ShapeOpt, Target::ShapeAny];

#[derive(Clone, Debug, Serialize, Deserialize)]
struct Case {
    docs: Vec<Node>,
    layout: Layout,
    target: Target,
}

/// Ok(debug text of the value) or Err(error text)
fn run(text: &str, shapes: &[Node], target: Target, stream: bool) -> Result<String, String> {
    let e = |e: serde_saphyr::Error| e.without_snippet().to_string();
    if stream {
        return match target {
            Target::Json => serde_saphyr::from_multiple::<serde_json::Value>(text).map(|v| format!("{v:?}")).map_err(e),
            _ => serde_saphyr::from_multiple::<U>(text).map(|v| format!("{v:?}")).map_err(e),
        };
    }
    match target {
        Target::Untyped => serde_saphyr::from_str::<U>(text).map(|v| format!("{v:?}")).map_err(e),
        Target::Json => serde_saphyr::from_str::<serde_json::Value>(text).map(|v| format!("{v:?}")).map_err(e),
        Target::ShapeStr | Target::ShapeOpt | Target::ShapeAny => {
            let mode = match target {
                Target::ShapeStr => ScalarMode::Str,
                Target::ShapeOpt => ScalarMode::OptStr,
                _ => ScalarMode::Any,
            };
            serde_saphyr::with_deserializer_from_str(text, |d| ShapeSeed { shape: shapes.first(), mode }.deserialize(d))
                .map(|v| format!("{v:?}"))
                .map_err(e)
        }
    }
}

fn check_case(c: &Case) -> Outcome {
    let stream = c.docs.len() != 1;
    let text = gdoc::render_stream(&c.docs, &c.layout);
    // generator soundness: each document alone must render to text whose raw parser events
    // equal the AST's events
    for d in &c.docs {
        let r = gdoc::render(d, &c.layout);
        if gdoc::selfcheck_render(d, &c.layout, &r.text).is_err() {
            return Outcome::Discard("selfcheck-render");
        }
    }
    let mut expanded = vec![];
    let mut unbound = false;
    let mut recursive = false;
    for d in &c.docs {
        match gdoc::expand_aliases(d) {
            Ok(x) => expanded.push(x),
            Err(ExpandErr::Unbound(_)) => unbound = true,
            Err(ExpandErr::Recursive(_)) => recursive = true,
        }
    }
    if unbound {
        // R3: an alias with no earlier anchor of that name in the same document is an error
        return match run(&text, &[], c.target, stream) {
            Err(_) => Outcome::Pass,
            Ok(v) => Outcome::Fail(format!("R3: document with an unbound alias was accepted as {v} (text {text:?})")),
        };
    }
    if recursive {
        // an alias to a node that is still open: the property does not define it
        let _ = run(&text, &[], c.target, stream);
        return Outcome::Discard("recursive-alias");
    }
    // R1 (and R2 when there is no alias): value(doc) == value(expanded, anchor-free doc)
    let text2 = gdoc::render_stream(&expanded, &c.layout);
    let a = run(&text, &expanded, c.target, stream);
    let b = run(&text2, &expanded, c.target, stream);
    match (a, b) {
        (Ok(x), Ok(y)) => {
            if x == y {
                Outcome::Pass
            } else {
                Outcome::Fail(format!("R1: value differs from the alias-free expansion: {x} vs {y} (text {text:?} / expansion {text2:?})"))
            }
        }
        (Err(_), Err(_)) => Outcome::Pass,
        (Ok(x), Err(e)) => Outcome::Fail(format!("R1: accepted as {x} but the alias-free expansion is rejected: {e} (text {text:?} / expansion {text2:?})")),
        (Err(e), Ok(y)) => Outcome::Fail(format!("R1: rejected ({e}) but the alias-free expansion gives {y} (text {text:?} / expansion {text2:?})")),
    }
}

struct C02;

fn nontrivial(c: &Case) -> bool {
    // an alias that resolves to a container, an anchor nested inside an anchored node, or a re-defined name
    let mut nt = false;
    for d in &c.docs {
        let mut names: Vec<&str> = vec![];
        let mut anchored_containers: Vec<&str> = vec![];
        fn nested(n: &Node, inside: bool, out: &mut bool) {
            if n.anchor.is_some() && inside {
                *out = true;
            }
            let inside = inside || n.anchor.is_some();
            match &n.kind {
                Kind::Seq { items, .. } => items.iter().for_each(|x| nested(x, inside, out)),
                Kind::Map { entries, .. } => entries.iter().for_each(|(k, v)| {
                    nested(k, inside, out);
                    nested(v, inside, out)
                }),
                _ => {}
            }
        }
        nested(d, false, &mut nt);
        d.visit(&mut |n| {
            if let Some(a) = &n.anchor {
                if names.contains(&a.as_str()) {
                    nt = true;
                }
                names.push(a);
                if n.is_collection() {
                    anchored_containers.push(a);
                }
            }
            if let Kind::Alias(a) = &n.kind {
                if anchored_containers.contains(&a.as_str()) {
                    nt = true;
                }
            }
        });
    }
    nt
}

fn classify(ctx: &mut Ctx<C02>, c: &Case) {
    for d in &c.docs {
        let mut alias_key = false;
        let mut alias_merge = false;
        let mut alias = false;
        let mut anchored_scalar = None;
        d.visit(&mut |n| {
            if let Kind::Map { entries, .. } = &n.kind {
                for (k, v) in entries {
                    if matches!(k.kind, Kind::Alias(_)) {
                        alias_key = true;
                    }
                    if k.is_merge_key() && v.has_alias() {
                        alias_merge = true;
                    }
                }
            }
            if matches!(n.kind, Kind::Alias(_)) {
                alias = true;
            }
            if n.anchor.is_some() {
                if let Kind::Scalar { style, .. } = &n.kind {
                    anchored_scalar = Some(*style);
                }
            }
        });
        if alias {
            ctx.class("doc with alias");
        }
        if alias_key {
            ctx.class("alias in key position");
        }
        if alias_merge {
            ctx.class("alias in merge value");
        }
        if let Some(s) = anchored_scalar {
            ctx.class(&format!("anchored scalar {s:?}"));
        }
        if c.layout.force_flow {
            ctx.class("flow layout");
        }
    }
    if c.docs.len() > 1 {
        ctx.class("stream");
    }
}

/// all trees with <= n nodes over {scalar, seq, map(with scalar keys)}
fn small_trees(n: usize) -> Vec<Node> {
    // by node count; map entries count key + value
    let mut by: Vec<Vec<Node>> = vec![vec![]; n + 1];
    by[1] = vec![Node::plain("s"), Node::seq(false, vec![]), Node::map(false, vec![])];
    for size in 2..=n {
        let mut out = vec![];
        // sequences: children sizes sum to size-1
        fn seqs(by: &Vec<Vec<Node>>, left: usize, cur: &mut Vec<Node>, out: &mut Vec<Vec<Node>>) {
            if left == 0 {
                out.push(cur.clone());
                return;
            }
            for s in 1..=left {
                for t in &by[s] {
                    cur.push(t.clone());
                    seqs(by, left - s, cur, out);
                    cur.pop();
                }
            }
        }
        let mut lists = vec![];
        seqs(&by, size - 1, &mut vec![], &mut lists);
        for l in &lists {
            if !l.is_empty() {
                out.push(Node::seq(false, l.clone()));
            }
        }
        // maps: each entry = scalar key (1 node) + value
        fn maps(by: &Vec<Vec<Node>>, left: usize, cur: &mut Vec<(Node, Node)>, out: &mut Vec<Vec<(Node, Node)>>) {
            if left == 0 {
                out.push(cur.clone());
                return;
            }
            for s in 1..left {
                for t in &by[s] {
                    let key = Node::plain(["k", "l", "m", "n", "o"][cur.len().min(4)]);
                    cur.push((key, t.clone()));
                    maps(by, left - 1 - s, cur, out);
                    cur.pop();
                }
            }
        }
        let mut ms = vec![];
        maps(&by, size - 1, &mut vec![], &mut ms);
        for m in &ms {
            if !m.is_empty() {
                out.push(Node::map(false, m.clone()));
            }
        }
        by[size] = out;
    }
    by.into_iter().flatten().collect()
}

/// every placement of <= 2 anchors (names a/b) and <= 3 aliases on the nodes of `t` (pre-order
/// positions; aliases replace leaf-or-subtree positions other than the root)
fn placements(t: &Node, out: &mut Vec<Node>) {
    let n = t.count();
    // role per position: 0 none, 1 anchor a, 2 anchor b, 3 alias a, 4 alias b
    let mut roles = vec![0u8; n];
    fn apply(t: &Node, roles: &[u8], idx: &mut usize) -> Node {
        let i = *idx;
        *idx += 1;
        let r = roles[i];
        if r >= 3 && i != 0 {
            // skip the subtree's positions
            *idx += t.count() - 1;
            return Node::alias(if r == 3 { "a" } else { "b" });
        }
        let mut out = Node { anchor: None, tag: None, kind: t.kind.clone() };
        if r == 1 {
            out.anchor = Some("a".into());
        } else if r == 2 {
            out.anchor = Some("b".into());
        }
        out.kind = match &t.kind {
            Kind::Seq { flow, items } => Kind::Seq { flow: *flow, items: items.iter().map(|x| apply(x, roles, idx)).collect() },
            Kind::Map { flow, entries } => Kind::Map {
                flow: *flow,
                entries: entries.iter().map(|(k, v)| (apply(k, roles, idx), apply(v, roles, idx))).collect(),
            },
            k => k.clone(),
        };
        out
    }
    fn rec(t: &Node, roles: &mut Vec<u8>, pos: usize, anchors: usize, aliases: usize, out: &mut Vec<Node>) {
        if pos == roles.len() {
            if anchors + aliases > 0 {
                let mut idx = 0;
                out.push(apply(t, roles, &mut idx));
            }
            return;
        }
        for r in 0..5u8 {
            let (da, dl) = match r {
                0 => (0, 0),
                1 | 2 => (1, 0),
                _ => (0, 1),
            };
            if anchors + da > 2 || aliases + dl > 3 || (r >= 3 && pos == 0) {
                continue;
            }
            roles[pos] = r;
            rec(t, roles, pos + 1, anchors + da, aliases + dl, out);
        }
        roles[pos] = 0;
    }
    rec(t, &mut roles, 0, 0, 0, out);
}

impl Property for C02 {
    const ID: &'static str = "C02";
    type Case = Case;
    fn rule() -> String {
        "cases = (documents from a node grammar decorated with anchors and aliases, layout, target). Exhaustive: every tree with <= 5 (thorough 6) nodes over {scalar, sequence, mapping} x every placement of <= 2 anchors (2 names, so re-definition is included) and <= 3 aliases, in block and flow layout; random trees up to ~40 nodes decorated by a script (aliases drawn from the names bound at that point, 10% deliberately unbound), all scalar styles, aliases as keys / values / items / merge values, 1-3 document streams. Oracle: metamorphic - value(doc) == value(alias-free, anchor-free expansion computed on the AST by the harness) for untyped, serde_json::Value and shape-following typed targets (String / Option<String> / any scalars); a document with an unbound alias (never defined, defined later, defined in another document) must be rejected. Every rendered text is first self-checked against the raw parser's event stream. Non-trivial: an alias that resolves to a container, an anchor nested inside an anchored node, or a re-defined name; distinct = distinct (docs, layout, target). Sub-check anchored-null-likes: 8 null-like / empty scalars (an omitted node that carries only an anchor, `~`, `null`, `\"\"`, ...) anchored and aliased in value, item and key position, next to the other null / empty key.".into()
    }
    fn assumptions() -> Vec<String> {
        vec![
            "sizes stay far below the default alias / budget limits, so 'whenever the expansion stays within the configured limits' always applies".into(),
            "an alias to a node that is still open (recursive) is outside the property: such cases are run (no panic) but not judged".into(),
            "names bind at the anchor mark (pre-order), as in the YAML specification".into(),
        ]
    }
    fn check(c: &Case) -> Outcome {
        check_case(c)
    }
    fn signatures(c: &Case) -> Vec<&'static str> {
        // open finding: an anchored *empty quoted* scalar is rewritten to plain and becomes null-like
        let mut hit = false;
        for d in &c.docs {
            d.visit(&mut |n| {
                if n.anchor.is_some() {
                    if let Kind::Scalar { value, style } = &n.kind {
                        if value.is_empty() && *style != Style::Plain {
                            hit = true;
                        }
                    }
                }
            });
        }
        if hit { vec!["anchored_empty_quoted"] } else { vec![] }
    }
    fn shrink(c: &Case) -> Vec<Case> {
        let mut out = vec![];
        if c.docs.len() > 1 {
            for i in 0..c.docs.len() {
                let mut d = c.docs.clone();
                d.remove(i);
                out.push(Case { docs: d, ..c.clone() });
            }
        }
        if c.layout != Layout::default() {
            out.push(Case { layout: Layout::default(), ..c.clone() });
        }
        out
    }
    /// libFuzzer input: layout bits, target, anchor / alias percentages, decoration script, then
    /// one tree (three out of four inputs) or a stream of 2-3 trees
    fn fuzz_decode(data: &[u8]) -> Option<(&'static str, Case, bool)> {
        let mut b = engine::Bytes::new(data);
        let lb = b.u16() as u32;
        let stream = b.below(4) == 0;
        let (a, al, ub) = b.pick(&[(20u16, 20u16, 10u16), (35, 30, 10), (15, 10, 0), (30, 0, 0), (25, 25, 40), (30, 25, 30)]);
        let c = if stream {
            let target = b.pick(&[Target::Untyped, Target::Json]);
            let n = 2 + b.below(2);
            let docs = (0..n)
                .map(|_| {
                    let script = gdoc::script_from_bytes(&mut b, 12);
                    let t = gdoc::tree_from_bytes(&mut b, 3);
                    gdoc::decorate(&t, &script, a, al, ub)
                })
                .collect();
            Case { docs, layout: Layout { doc_end: false, ..Layout::from_bits(lb) }, target }
        } else {
            let target = b.pick(&TARGETS);
            let script = gdoc::script_from_bytes(&mut b, 24);
            let t = gdoc::tree_from_bytes(&mut b, 4);
            Case { docs: vec![gdoc::decorate(&t, &script, a, al, ub)], layout: Layout::from_bits(lb), target }
        };
        let nt = nontrivial(&c);
        Some((if stream { "fuzz-streams" } else { "fuzz-decorated" }, c, nt))
    }
    fn generate(ctx: &mut Ctx<Self>) {
        // exhaustive small trees
        let n = ctx.tier.pick(5, 6);
        let trees = small_trees(n);
        let mut idx = 0u64;
        let mut total = 0u64;
        let flow = Layout { force_flow: true, ..Layout::default() };
        for t in &trees {
            let mut ps = vec![];
            placements(t, &mut ps);
            for p in ps {
                for lay in [Layout::default(), flow.clone()] {
                    for target in [Target::Untyped, Target::ShapeStr, Target::ShapeOpt] {
                        idx += 1;
                        total += 1;
                        if ctx.mine(idx) {
                            let c = Case { docs: vec![p.clone()], layout: lay.clone(), target };
                            let nt = nontrivial(&c);
                            if target == Target::Untyped {
                                classify(ctx, &c);
                            }
                            ctx.case("exhaustive-small", &c, nt);
                        }
                    }
                }
            }
        }
        ctx.subspace(&format!("trees <= {n} nodes x placements of <=2 anchors, <=3 aliases x block/flow x 3 targets"), total, true);

        // random decorated trees
        let strat = (
            gdoc::arb_tree(4, 24),
            prop::collection::vec(any::<u16>(), 8..40),
            0u32..(1 << 12),
            prop::sample::select(TARGETS.to_vec()),
            prop::sample::select(vec![(20u16, 20u16, 10u16), (35, 30, 10), (15, 10, 0), (30, 0, 0), (25, 25, 40)]),
        )
            .prop_map(|(t, script, lb, target, (a, al, ub))| Case {
                docs: vec![gdoc::decorate(&t, &script, a, al, ub)],
                layout: Layout::from_bits(lb),
                target,
            });
        let nrand = ctx.tier.pick(60_000, 600_000);
        {
            // classification pass uses the same stream, so it sees the same cases
            let mut runner = ctx.runner(1);
            for _ in 0..nrand.min(3000) {
                if let Ok(t) = strat.new_tree(&mut runner) {
                    use proptest::strategy::ValueTree;
                    let c = t.current();
                    classify(ctx, &c);
                }
            }
        }
        ctx.run_strategy("random-decorated", 1, nrand, &strat, nontrivial);

        // merge values through aliases
        let mstrat = (
            prop::collection::vec((gdoc::arb_key(), gdoc::arb_scalar()), 1..4),
            prop::collection::vec((gdoc::arb_key(), gdoc::arb_scalar()), 0..3),
            any::<bool>(),
            0u32..(1 << 12),
            prop::sample::select(TARGETS.to_vec()),
        )
            .prop_map(|(base, own, seqform, lb, target)| {
                let base_map = Node::map(false, dedup(base)).anchored("b");
                let merge_val = if seqform { Node::seq(true, vec![Node::alias("b"), Node::alias("b")]) } else { Node::alias("b") };
                let mut entries = vec![(Node::plain("<<"), merge_val)];
                for (k, v) in dedup(own) {
                    entries.push((k, v));
                }
                let doc = Node::map(false, vec![(Node::plain("base"), base_map), (Node::plain("use"), Node::map(false, entries)), (Node::plain("again"), Node::alias("b"))]);
                Case { docs: vec![doc], layout: Layout::from_bits(lb), target }
            });
        ctx.run_strategy("merge-through-alias", 2, ctx.tier.pick(10_000, 100_000), &mstrat, |_| true);

        // tagged scalars with and without an anchor, used directly and through an alias
        // (attaching an anchor must not change how a tagged node - e.g. an explicit `!!null` -
        // is read, for Option / string / untyped targets alike)
        let tagged: Vec<(&str, &str)> = vec![("!!null", ""), ("!!null", "~"), ("!!null", "x"), ("!!str", "7"), ("!!str", ""), ("!!str", "null"), ("!!int", "7"), ("!!bool", "true"), ("!!float", "1.5"), ("!t", "x"), ("!!binary", "AQ==")];
        let mut idx = 0u64;
        let mut total = 0u64;
        for (tag, val) in &tagged {
            for style in [Style::Plain, Style::Double] {
                for shape in 0..4 {
                    for lay in [Layout::default(), Layout { force_flow: true, ..Layout::default() }, Layout { breaks: 1, doc_start: true, ..Layout::default() }] {
                        for target in TARGETS {
                            idx += 1;
                            total += 1;
                            if !ctx.mine(idx) {
                                continue;
                            }
                            let sc = Node::scalar(val, style).tagged(tag);
                            let doc = match shape {
                                0 => Node::map(false, vec![(Node::plain("x"), sc.clone().anchored("a")), (Node::plain("y"), Node::alias("a")), (Node::plain("z"), sc.clone())]),
                                1 => Node::seq(false, vec![sc.clone().anchored("a"), Node::alias("a"), sc.clone()]),
                                2 => Node::map(false, vec![(Node::plain("x"), sc.clone().anchored("a")), (Node::plain("z"), Node::plain("1"))]),
                                _ => Node::seq(false, vec![Node::seq(false, vec![sc.clone().anchored("a")]).anchored("o"), Node::alias("o"), Node::alias("a")]),
                            };
                            let c = Case { docs: vec![doc], layout: lay.clone(), target };
                            ctx.case("tagged-anchored-scalars", &c, true);
                        }
                    }
                }
            }
        }
        ctx.subspace("11 tagged scalars x 2 styles x 4 shapes x 3 layouts x 5 targets", total, true);

        // null-like and empty scalars with an anchor, as value / item / key, used again through an
        // alias in value, item and key position (an omitted node that carries an anchor is still
        // the null node; `""` is still the empty string)
        {
            let nodes: Vec<Node> = vec![
                Node::plain(""), // with an anchor: rendered as `&a` alone (an omitted node)
                Node::plain("~"),
                Node::plain("null"),
                Node::plain("Null"),
                Node::scalar("", Style::Double),
                Node::scalar("", Style::Single),
                Node::scalar("~", Style::Double),
                Node::scalar("null", Style::Single),
            ];
            let mut idx = 0u64;
            let mut total = 0u64;
            for sc in &nodes {
                for shape in 0..7 {
                    for lay in [Layout::default(), Layout { force_flow: true, ..Layout::default() }, Layout { breaks: 1, doc_start: true, ..Layout::default() }] {
                        for target in TARGETS {
                            idx += 1;
                            total += 1;
                            if !ctx.mine(idx) {
                                continue;
                            }
                            let a = || sc.clone().anchored("a");
                            let p = Node::plain;
                            let doc = match shape {
                                0 => Node::map(false, vec![(p("x"), a()), (p("y"), Node::alias("a")), (p("z"), p("1"))]),
                                1 => Node::seq(false, vec![a(), Node::alias("a"), p("1")]),
                                // anchored in key position, used as a value
                                2 => Node::map(false, vec![(a(), p("1")), (p("y"), Node::alias("a"))]),
                                // anchored as a value, used as a key
                                3 => Node::seq(false, vec![a(), Node::map(false, vec![(Node::alias("a"), p("1")), (p("k"), p("2"))])]),
                                // next to the other null / empty key: no false collision, no missed one
                                4 => Node::seq(false, vec![a(), Node::map(false, vec![(Node::alias("a"), p("1")), (Node::scalar("", Style::Double), p("2"))])]),
                                5 => Node::map(false, vec![(a(), p("1")), (p("~"), p("2"))]),
                                _ => Node::seq(false, vec![Node::seq(false, vec![a()]).anchored("o"), Node::alias("o"), Node::alias("a")]),
                            };
                            let c = Case { docs: vec![doc], layout: lay.clone(), target };
                            ctx.case("anchored-null-likes", &c, true);
                        }
                    }
                }
            }
            ctx.subspace("8 null-like / empty scalars x 7 shapes (anchored and aliased in value, item and key position) x 3 layouts x 5 targets", total, true);
        }

        // streams: anchors of one document must not be visible in another
        let sstrat = (
            prop::collection::vec((gdoc::arb_tree(3, 10), prop::collection::vec(any::<u16>(), 8..20)), 2..4),
            0u32..(1 << 12),
            prop::sample::select(vec![Target::Untyped, Target::Json]),
        )
            .prop_map(|(ds, lb, target)| Case {
                docs: ds.iter().map(|(t, s)| gdoc::decorate(t, s, 30, 25, 30)).collect(),
                layout: Layout { doc_end: false, ..Layout::from_bits(lb) },
                target,
            });
        ctx.run_strategy("streams", 3, ctx.tier.pick(20_000, 200_000), &sstrat, nontrivial);
    }
}

fn dedup(entries: Vec<(Node, Node)>) -> Vec<(Node, Node)> {
    let mut out: Vec<(Node, Node)> = vec![];
    for (k, v) in entries {
        if !out.iter().any(|(k2, _)| gdoc::same_key(k2, &k)) {
            out.push((k, v));
        }
    }
    out
}

fn main() {
    engine::main::<C02>()
}

/// entry point of the libFuzzer target `fuzz/fuzz_targets/c02.rs`
#[allow(dead_code)]
pub fn fuzz(data: &[u8]) {
    engine::fuzz_one::<C02>(data)
}
