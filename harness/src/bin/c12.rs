//! C12 – every scalar value survives serialization and deserialization unchanged.
use proptest::prelude::*;
use serde::de::DeserializeOwned;
use serde::{Deserialize, Serialize};
use std::collections::BTreeMap;
use vcheck::engine::{self, Ctx, Outcome, Property, Tier};
use vcheck::opts::SerOpts;
use vcheck::untyped::U;

#[derive(Clone, Debug, Serialize, Deserialize, PartialEq)]
enum Val {
    Str(String),
    F32(u32),
    F64(u64),
    I8(i8),
    I16(i16),
    I32(i32),
    I64(i64),
    I128(#[serde(with = "engine::as_str")] i128),
    U8(u8),
    U16(u16),
    U32(u32),
    U64(u64),
    U128(#[serde(with = "engine::as_str")] u128),
    Bool(bool),
    Char(char),
    Unit,
    NoneStr,
    SomeStr(String),
    Bytes(Vec<u8>),
}

#[derive(Clone, Copy, Debug, Serialize, Deserialize, PartialEq, Eq)]
enum Pos {
    Root,
    SeqItem,
    MapValue,
    StructField,
    MapKey,
    FlowSeqItem,
    FlowMapValue,
    NewtypeVariant,
    StructVariantField,
    TupleElem,
    SeqOfMaps,
    MapOfSeqs,
    SeqOfVariants,
    SeqOfOptions,
    /// key of a mapping written in flow style (`{key: 1, z: 2}`)
    FlowMapKey,
}
impl Pos {
    fn is_key(self) -> bool {
        matches!(self, Pos::MapKey | Pos::FlowMapKey)
    }
}
const POS_ALL: [Pos; 15] = [
    Pos::Root,
    Pos::SeqItem,
    Pos::MapValue,
    Pos::StructField,
    Pos::MapKey,
    Pos::FlowSeqItem,
    Pos::FlowMapValue,
    Pos::NewtypeVariant,
    Pos::StructVariantField,
    Pos::TupleElem,
    Pos::SeqOfMaps,
    Pos::MapOfSeqs,
    Pos::SeqOfVariants,
    Pos::SeqOfOptions,
    Pos::FlowMapKey,
];

#[derive(Clone, Debug, Serialize, Deserialize)]
struct Case {
    val: Val,
    pos: Pos,
    opts: SerOpts,
}

// ---- comparison that treats floats by bit pattern (NaN == NaN) -------------------------
trait Same {
    fn same(&self, o: &Self) -> bool;
}
macro_rules! same_eq { ($($t:ty),*) => { $(impl Same for $t { fn same(&self, o:&Self)->bool { self == o } })* } }
same_eq!(String, i8, i16, i32, i64, i128, u8, u16, u32, u64, u128, bool, char, (), serde_bytes::ByteBuf);
impl Same for f32 {
    fn same(&self, o: &Self) -> bool {
        (self.is_nan() && o.is_nan()) || self.to_bits() == o.to_bits()
    }
}
impl Same for f64 {
    fn same(&self, o: &Self) -> bool {
        (self.is_nan() && o.is_nan()) || self.to_bits() == o.to_bits()
    }
}
impl<T: Same> Same for Option<T> {
    fn same(&self, o: &Self) -> bool {
        match (self, o) {
            (None, None) => true,
            (Some(a), Some(b)) => a.same(b),
            _ => false,
        }
    }
}
impl<T: Same> Same for Vec<T> {
    fn same(&self, o: &Self) -> bool {
        self.len() == o.len() && self.iter().zip(o).all(|(a, b)| a.same(b))
    }
}
impl<T: Same> Same for BTreeMap<String, T> {
    fn same(&self, o: &Self) -> bool {
        self.len() == o.len() && self.iter().zip(o).all(|((ka, a), (kb, b))| ka == kb && a.same(b))
    }
}
impl<A: Same, B: Same> Same for (A, B) {
    fn same(&self, o: &Self) -> bool {
        self.0.same(&o.0) && self.1.same(&o.1)
    }
}

#[derive(Serialize, Deserialize, Debug)]
struct St<T> {
    first: T,
    second: T,
}
impl<T: Same> Same for St<T> {
    fn same(&self, o: &Self) -> bool {
        self.first.same(&o.first) && self.second.same(&o.second)
    }
}
#[derive(Serialize, Deserialize, Debug)]
enum En<T> {
    Nt(T),
    Sv { f: T, g: T },
}
impl<T: Same> Same for En<T> {
    fn same(&self, o: &Self) -> bool {
        match (self, o) {
            (En::Nt(a), En::Nt(b)) => a.same(b),
            (En::Sv { f, g }, En::Sv { f: f2, g: g2 }) => f.same(f2) && g.same(g2),
            _ => false,
        }
    }
}
/// map with a T key, kept as a pair list so that T need not be Ord
#[derive(Debug)]
struct KeyMap<T>(Vec<(T, i32)>);
impl<T: Serialize> Serialize for KeyMap<T> {
    fn serialize<S: serde::Serializer>(&self, s: S) -> Result<S::Ok, S::Error> {
        use serde::ser::SerializeMap;
        let mut m = s.serialize_map(Some(self.0.len()))?;
        for (k, v) in &self.0 {
            m.serialize_entry(k, v)?;
        }
        m.end()
    }
}
impl<'de, T: Deserialize<'de>> Deserialize<'de> for KeyMap<T> {
    fn deserialize<D: serde::Deserializer<'de>>(d: D) -> Result<Self, D::Error> {
        struct V<T>(std::marker::PhantomData<T>);
        impl<'de, T: Deserialize<'de>> serde::de::Visitor<'de> for V<T> {
            type Value = KeyMap<T>;
            fn expecting(&self, f: &mut std::fmt::Formatter) -> std::fmt::Result {
                f.write_str("a map")
            }
            fn visit_map<A: serde::de::MapAccess<'de>>(self, mut a: A) -> Result<KeyMap<T>, A::Error> {
                let mut v = vec![];
                while let Some(k) = a.next_key::<T>()? {
                    v.push((k, a.next_value::<i32>()?));
                }
                Ok(KeyMap(v))
            }
        }
        d.deserialize_map(V(std::marker::PhantomData))
    }
}
impl<T: Same> Same for KeyMap<T> {
    fn same(&self, o: &Self) -> bool {
        self.0.len() == o.0.len() && self.0.iter().zip(&o.0).all(|(a, b)| a.0.same(&b.0) && a.1 == b.1)
    }
}

fn emit<T: Serialize>(v: &T, o: &SerOpts) -> Result<String, String> {
    serde_saphyr::to_string_with_options(v, o.build()).map_err(|e| format!("serialization failed: {e}"))
}
fn back<T: DeserializeOwned + Same + std::fmt::Debug>(text: &str, orig: &T) -> Result<(), String> {
    match serde_saphyr::from_str::<T>(text) {
        Ok(b) => {
            if b.same(orig) {
                Ok(())
            } else {
                Err(format!("reads back as a different value: {:?} (emitted {:?})", b, text))
            }
        }
        Err(e) => Err(format!("emitted text is rejected: {} (emitted {:?})", e.without_snippet(), text)),
    }
}
fn rt1<W: Serialize + DeserializeOwned + Same + std::fmt::Debug>(w: &W, o: &SerOpts) -> Result<String, String> {
    let text = emit(w, o)?;
    back(text.as_str(), w)?;
    Ok(text)
}

/// round trip of `v` placed at `pos`; returns the emitted text
fn rt<T>(v: T, second: T, pos: Pos, o: &SerOpts) -> Result<String, String>
where
    T: Serialize + DeserializeOwned + Same + std::fmt::Debug + Clone,
{
    match pos {
        Pos::Root => rt1(&v, o),
        Pos::SeqItem => rt1(&vec![v.clone(), second, v], o),
        Pos::MapValue => {
            let mut m = BTreeMap::new();
            m.insert("k".to_string(), v);
            m.insert("z".to_string(), second);
            rt1(&m, o)
        }
        Pos::StructField => rt1(&St { first: v, second }, o),
        Pos::MapKey => {
            if v.same(&second) {
                rt1(&KeyMap(vec![(v, 1)]), o)
            } else {
                rt1(&KeyMap(vec![(v, 1), (second, 2)]), o)
            }
        }
        Pos::FlowMapKey => {
            let km = if v.same(&second) { KeyMap(vec![(v, 1)]) } else { KeyMap(vec![(v, 1), (second, 2)]) };
            let text = emit(&serde_saphyr::FlowMap(&km), o)?;
            back(&text, &km)?;
            Ok(text)
        }
        Pos::FlowSeqItem => {
            let w = vec![v.clone(), second, v];
            let text = emit(&serde_saphyr::FlowSeq(&w), o)?;
            back(&text, &w)?;
            Ok(text)
        }
        Pos::FlowMapValue => {
            let mut m = BTreeMap::new();
            m.insert("k".to_string(), v);
            m.insert("z".to_string(), second);
            let text = emit(&serde_saphyr::FlowMap(&m), o)?;
            back(&text, &m)?;
            Ok(text)
        }
        Pos::NewtypeVariant => rt1(&En::Nt(v), o),
        Pos::StructVariantField => rt1(&En::Sv { f: v, g: second }, o),
        Pos::TupleElem => rt1(&(v, second), o),
        Pos::SeqOfMaps => {
            let mut m = BTreeMap::new();
            m.insert("k".to_string(), v);
            m.insert("z".to_string(), second);
            rt1(&vec![m], o)
        }
        Pos::MapOfSeqs => {
            let mut m = BTreeMap::new();
            m.insert("k".to_string(), vec![v, second]);
            rt1(&m, o)
        }
        Pos::SeqOfVariants => rt1(&vec![En::Nt(v.clone()), En::Sv { f: second.clone(), g: v }, En::Nt(second)], o),
        Pos::SeqOfOptions => rt1(&vec![Some(v), None, Some(second)], o),
    }
}

fn float_token_ok(tok: &str) -> bool {
    let t = tok.trim();
    let lower = t.to_ascii_lowercase();
    if matches!(lower.as_str(), ".inf" | "-.inf" | "+.inf" | ".nan") {
        return true;
    }
    let b = t.as_bytes();
    let mut i = 0;
    if i < b.len() && (b[i] == b'-' || b[i] == b'+') {
        i += 1;
    }
    let d0 = i;
    while i < b.len() && b[i].is_ascii_digit() {
        i += 1;
    }
    let int_digits = i - d0;
    if i >= b.len() || b[i] != b'.' {
        return false;
    }
    i += 1;
    let f0 = i;
    while i < b.len() && b[i].is_ascii_digit() {
        i += 1;
    }
    if int_digits + (i - f0) == 0 {
        return false;
    }
    if i == b.len() {
        return true;
    }
    if b[i] != b'e' && b[i] != b'E' {
        return false;
    }
    i += 1;
    if i >= b.len() || (b[i] != b'-' && b[i] != b'+') {
        return false;
    }
    i += 1;
    let e0 = i;
    while i < b.len() && b[i].is_ascii_digit() {
        i += 1;
    }
    i > e0 && i == b.len()
}

/// strip a `%YAML 1.2` directive and the document start marker from a root scalar document
fn root_token(text: &str) -> &str {
    let mut t = text;
    if let Some(rest) = t.strip_prefix("%YAML 1.2\n") {
        t = rest;
    }
    if let Some(rest) = t.strip_prefix("---") {
        t = rest;
    }
    t.trim()
}

fn check_string(s: &str, pos: Pos, o: &SerOpts) -> Result<(), String> {
    let second = "z".to_string();
    let text = rt(s.to_string(), second, pos, o)?;
    // untyped view: the emitted text must contain this string as a *string* at that position,
    // and the whole text must be exactly one document
    // (under yaml_12 the emitter documents that YAML 1.1 boolean spellings stay plain, so the
    // matching reader configuration is strict_booleans)
    let mut ro = vcheck::opts::DeOpts::default();
    ro.strict_bool = o.yaml12;
    let docs: Vec<U> = serde_saphyr::from_multiple_with_options(&text, ro.build())
        .map_err(|e| format!("emitted text rejected as a stream: {} (emitted {:?})", e.without_snippet(), text))?;
    if docs.len() != 1 {
        return Err(format!("emitted text is {} documents, not one (emitted {:?})", docs.len(), text));
    }
    let want = U::s(s);
    let z = U::s("z");
    let kv = |a: U, b: U| U::Map(vec![(U::s("k"), a), (U::s("z"), b)]);
    let expect = match pos {
        Pos::Root => want.clone(),
        Pos::SeqItem | Pos::FlowSeqItem => U::Seq(vec![want.clone(), z, want.clone()]),
        Pos::MapValue | Pos::FlowMapValue => {
            // BTreeMap order: "k" < "z"
            kv(want.clone(), z)
        }
        Pos::StructField => U::Map(vec![(U::s("first"), want.clone()), (U::s("second"), z)]),
        Pos::MapKey | Pos::FlowMapKey => {
            if s == "z" {
                U::Map(vec![(want.clone(), U::Int(1))])
            } else {
                U::Map(vec![(want.clone(), U::Int(1)), (z, U::Int(2))])
            }
        }
        Pos::NewtypeVariant => U::Map(vec![(U::s("Nt"), want.clone())]),
        Pos::StructVariantField => {
            U::Map(vec![(U::s("Sv"), U::Map(vec![(U::s("f"), want.clone()), (U::s("g"), z)]))])
        }
        Pos::TupleElem => U::Seq(vec![want.clone(), z]),
        Pos::SeqOfMaps => U::Seq(vec![kv(want.clone(), z)]),
        Pos::MapOfSeqs => U::Map(vec![(U::s("k"), U::Seq(vec![want.clone(), z]))]),
        Pos::SeqOfVariants => U::Seq(vec![
            U::Map(vec![(U::s("Nt"), want.clone())]),
            U::Map(vec![(U::s("Sv"), U::Map(vec![(U::s("f"), z.clone()), (U::s("g"), want.clone())]))]),
            U::Map(vec![(U::s("Nt"), z)]),
        ]),
        Pos::SeqOfOptions => U::Seq(vec![want.clone(), U::Null, z]),
    };
    if docs[0] != expect {
        return Err(format!(
            "untyped view differs: got {:?}, expected {:?} (emitted {:?})",
            docs[0], expect, text
        ));
    }
    Ok(())
}

fn check_case(c: &Case) -> Result<(), String> {
    let o = &c.opts;
    match &c.val {
        Val::Str(s) => check_string(s, c.pos, o),
        Val::F32(b) => {
            let f = f32::from_bits(*b);
            let text = rt(f, 1.5f32, c.pos, o)?;
            if c.pos == Pos::Root && !float_token_ok(root_token(&text)) {
                return Err(format!("emitted float token {:?} is outside the YAML float grammar", text));
            }
            Ok(())
        }
        Val::F64(b) => {
            let f = f64::from_bits(*b);
            let text = rt(f, 1.5f64, c.pos, o)?;
            if c.pos == Pos::Root && !float_token_ok(root_token(&text)) {
                return Err(format!("emitted float token {:?} is outside the YAML float grammar", text));
            }
            Ok(())
        }
        Val::I8(v) => rt(*v, 1, c.pos, o).map(|_| ()),
        Val::I16(v) => rt(*v, 1, c.pos, o).map(|_| ()),
        Val::I32(v) => rt(*v, 1, c.pos, o).map(|_| ()),
        Val::I64(v) => rt(*v, 1, c.pos, o).map(|_| ()),
        Val::I128(v) => rt(*v, 1, c.pos, o).map(|_| ()),
        Val::U8(v) => rt(*v, 1, c.pos, o).map(|_| ()),
        Val::U16(v) => rt(*v, 1, c.pos, o).map(|_| ()),
        Val::U32(v) => rt(*v, 1, c.pos, o).map(|_| ()),
        Val::U64(v) => rt(*v, 1, c.pos, o).map(|_| ()),
        Val::U128(v) => rt(*v, 1, c.pos, o).map(|_| ()),
        Val::Bool(v) => rt(*v, !*v, c.pos, o).map(|_| ()),
        Val::Char(v) => rt(*v, 'z', c.pos, o).map(|_| ()),
        Val::Unit => {
            if c.pos.is_key() || c.pos == Pos::SeqOfOptions {
                return Ok(());
            }
            rt((), (), c.pos, o).map(|_| ())
        }
        Val::NoneStr => {
            if c.pos.is_key() || c.pos == Pos::SeqOfOptions {
                return Ok(());
            }
            rt(None::<String>, Some("z".to_string()), c.pos, o).map(|_| ())
        }
        Val::SomeStr(s) => {
            if c.pos == Pos::SeqOfOptions {
                return Ok(());
            }
            // as a mapping key next to the sibling key `None`: `"null"` / `"~"` / `""` and `null`
            // are one key node for the reader (style is not part of a key, C04) - not a document
            // of the domain
            if c.pos.is_key() && (s.is_empty() || s == "~" || s.eq_ignore_ascii_case("null")) {
                return Ok(());
            }
            rt(Some(s.clone()), None::<String>, c.pos, o).map(|_| ())
        }
        Val::Bytes(b) => {
            if c.pos.is_key() {
                return Ok(());
            }
            rt(serde_bytes::ByteBuf::from(b.clone()), serde_bytes::ByteBuf::from(vec![1u8]), c.pos, o).map(|_| ())
        }
    }
}

const ALPHABET: [char; 47] = [
    '_',
    ' ', '\n', '\r', '\t', '\0', '\u{7}', '\u{1b}', '\u{7f}', '\u{85}', '\u{a0}', '\u{2028}', '\u{2029}',
    '\u{feff}', 'é', '😀', ':', '-', '?', '#', ',', '[', ']', '{', '}', '&', '*', '!', '|', '>', '\'', '"',
    '%', '@', '`', '\\', '<', '=', '~', '.', '0', '1', 'x', 'e', 'n', 'y', 'a',
];

const LEXICON: [&str; 64] = [
    "null", "Null", "NULL", "~", "", "true", "True", "TRUE", "false", "yes", "Yes", "no", "NO", "on", "off",
    "y", "n", "Y", "N", "0", "-0", "+1", "1_000", "0x1F", "0o17", "0b101", "017", "00", "1.5", "-1.5e3",
    "1e3", "1e+3", ".5", "5.", ".inf", "-.inf", "+.inf", ".Inf", ".INF", ".nan", ".NaN", ".NAN", "inf", "nan",
    "<<", "---", "...", "--- a", "... a", "- a", "? a", "a: b", "a #c", "# c", "a:", ":a", "!t a", "&a b",
    "*a", "[a]", "{a: b}", "| ", "> ", "12:30:45",
];

struct C12;

fn nontrivial(c: &Case) -> bool {
    match &c.val {
        Val::Str(s) | Val::SomeStr(s) => s.chars().any(|ch| !ch.is_ascii_alphanumeric()),
        Val::F32(b) => {
            let f = f32::from_bits(*b);
            !f.is_finite() || f.is_subnormal() || format!("{:e}", f).len() >= 11
        }
        Val::F64(b) => {
            let f = f64::from_bits(*b);
            !f.is_finite() || f.is_subnormal() || format!("{:e}", f).len() >= 18
        }
        Val::Char(ch) => !ch.is_ascii_alphanumeric(),
        Val::Bytes(b) => !b.is_empty(),
        Val::I8(_) | Val::I16(_) | Val::I32(_) | Val::I64(_) | Val::I128(_) => true,
        Val::U8(_) | Val::U16(_) | Val::U32(_) | Val::U64(_) | Val::U128(_) => true,
        _ => false,
    }
}

fn long_string() -> impl Strategy<Value = String> + Clone + use<> {
    let word = prop_oneof![
        6 => "[a-z]{1,12}",
        1 => "[a-zA-Z0-9]{30,120}",
        1 => Just(" ".to_string()),
        1 => Just("  ".to_string()),
        1 => Just("\n".to_string()),
        1 => Just("\n\n".to_string()),
        1 => Just("\t".to_string()),
        1 => prop::sample::select(ALPHABET.to_vec()).prop_map(|c| c.to_string()),
        1 => prop::sample::select(LEXICON.to_vec()).prop_map(|c| c.to_string()),
    ];
    (prop::collection::vec(word, 0..40), 0usize..4, 0usize..3, 0usize..3).prop_map(|(ws, trailing_nl, lead_sp, lead_nl)| {
        let mut s = String::new();
        for _ in 0..lead_nl.saturating_sub(1) {
            s.push('\n');
        }
        for _ in 0..lead_sp.saturating_sub(1) {
            s.push(' ');
        }
        for (i, w) in ws.iter().enumerate() {
            if i > 0 && !w.starts_with(['\n', ' ']) {
                s.push(' ');
            }
            s.push_str(w);
        }
        for _ in 0..trailing_nl {
            s.push('\n');
        }
        s
    })
}

impl Property for C12 {
    const ID: &'static str = "C12";
    type Case = Case;
    fn rule() -> String {
        "cases = (scalar value, position, serializer options); strings: exhaustive over all strings of length <= L over a 47-character adversarial alphabet (L=2 with all positions/options, L=3 with rotating position/option; thorough adds L=4), a 64-entry look-alike lexicon with every 1-character prefix/suffix, random long strings; floats: boundaries, strided f32 bit patterns (thorough: all 2^32 at root), random f64; integers: all width boundaries +-2 and random; chars, bools, unit/None, byte arrays. Oracle: from_str::<T>(to_string_with_options(v)) == v (floats by bit pattern), float tokens match the YAML float grammar, strings additionally must read back as the same *string* in an untyped tree and the output must be one document. Non-trivial: string/char containing a non-alphanumeric character; non-finite, subnormal or >= 9 (f32) / >= 16 (f64) significant digit floats; every integer boundary case; non-empty byte arrays. distinct = distinct (value, position, options).".into()
    }
    fn assumptions() -> Vec<String> {
        vec![
            "Option<T> is only generated for T = String (nested options / Option<()> have no distinguishable YAML form)".into(),
            "deserialization uses default Options".into(),
        ]
    }
    fn check(c: &Case) -> Outcome {
        match check_case(c) {
            Ok(()) => Outcome::Pass,
            Err(m) => Outcome::Fail(m),
        }
    }
    fn signatures(c: &Case) -> Vec<&'static str> {
        // open finding: with empty_as_braces=false an empty collection (here: an empty byte
        // array) is emitted as nothing
        if !c.opts.braces && matches!(&c.val, Val::Bytes(b) if b.is_empty()) {
            return vec!["empty_no_braces"];
        }
        // open finding (C13): with indent_step = 1 nodes nested after a sequence dash are
        // mis-indented; here that concerns the struct variant inside a sequence
        if c.opts.indent == 1 && c.pos == Pos::SeqOfVariants {
            return vec!["indent_step_1"];
        }
        vec![]
    }
    fn shrink(c: &Case) -> Vec<Case> {
        let mut out = vec![];
        let d = SerOpts::default();
        if c.opts != d {
            out.push(Case { opts: d.clone(), ..c.clone() });
        }
        if c.pos != Pos::Root {
            out.push(Case { pos: Pos::Root, ..c.clone() });
        }
        if let Val::Str(s) = &c.val {
            let chars: Vec<char> = s.chars().collect();
            // halves, then single deletions
            if chars.len() > 4 {
                out.push(Case { val: Val::Str(chars[..chars.len() / 2].iter().collect()), ..c.clone() });
                out.push(Case { val: Val::Str(chars[chars.len() / 2..].iter().collect()), ..c.clone() });
            }
            if chars.len() <= 200 {
                for i in 0..chars.len() {
                    let mut v = chars.clone();
                    v.remove(i);
                    out.push(Case { val: Val::Str(v.into_iter().collect()), ..c.clone() });
                }
                for i in 0..chars.len() {
                    if chars[i] != 'a' && chars[i].is_alphanumeric() {
                        let mut v = chars.clone();
                        v[i] = 'a';
                        out.push(Case { val: Val::Str(v.into_iter().collect()), ..c.clone() });
                    }
                }
            }
        }
        out
    }
    /// libFuzzer input: position, option bits, value kind, then the value (strings: the rest of
    /// the input as UTF-8, lossily, at most 96 bytes; numbers: their bit patterns)
    fn fuzz_decode(data: &[u8]) -> Option<(&'static str, Case, bool)> {
        let mut b = engine::Bytes::new(data);
        let pos = b.pick(&POS_ALL);
        let opts = SerOpts::from_bits(b.u16() as u32);
        let kind = b.below(12);
        let (sub, val) = match kind {
            0..=4 => ("fuzz-str", Val::Str(String::from_utf8_lossy(b.take(96)).into_owned())),
            5 => ("fuzz-option-str", Val::SomeStr(String::from_utf8_lossy(b.take(24)).into_owned())),
            6 => ("fuzz-f64", Val::F64(b.u64())),
            7 => ("fuzz-f32", Val::F32(b.u32())),
            8 => ("fuzz-i128", Val::I128(((b.u64() as u128) << 64 | b.u64() as u128) as i128)),
            9 => ("fuzz-u128", Val::U128((b.u64() as u128) << 64 | b.u64() as u128)),
            10 => ("fuzz-char", Val::Char(char::from_u32(b.u32() % 0x11_0000).unwrap_or('\u{fffd}'))),
            _ => ("fuzz-bytes", Val::Bytes(b.take(24).to_vec())),
        };
        let c = Case { val, pos, opts };
        let nt = nontrivial(&c);
        Some((sub, c, nt))
    }
    fn generate(ctx: &mut Ctx<Self>) {
        let fam = SerOpts::family();
        let thorough = ctx.tier == Tier::Thorough;
        // --- strings: exhaustive small space ---------------------------------------------
        let n = ALPHABET.len() as u64;
        // length <= 2: all positions x all option vectors of the family
        let mut idx = 0u64;
        let total2 = 1 + n + n * n;
        for code in 0..total2 {
            let s = decode(code);
            for &pos in POS_ALL.iter() {
                for o in fam.iter() {
                    idx += 1;
                    if ctx.mine(idx) {
                        let c = Case { val: Val::Str(s.clone()), pos, opts: o.clone() };
                        let nt = nontrivial(&c);
                        ctx.case("str-exhaustive-len2", &c, nt);
                    }
                }
            }
        }
        ctx.subspace("strings len<=2 x 12 positions x 11 option vectors", total2 * 12 * fam.len() as u64, true);
        // length 3: every string, position and option vector rotate (each string: 3 combos quick, 12x3 thorough)
        let total3 = n * n * n;
        let combos = if thorough { 36 } else { 12 };
        for k in 0..total3 {
            if !ctx.mine(k) {
                continue;
            }
            let s = decode(total2 + k);
            for j in 0..combos {
                let (pos, o) = if thorough {
                    (POS_ALL[(j as usize) % POS_ALL.len()], &fam[((k + j / 12 * 4 + j) % fam.len() as u64) as usize])
                } else {
                    (POS_ALL[((k + j * 5) as usize) % POS_ALL.len()], &fam[((k / 12 + j * 3) % fam.len() as u64) as usize])
                };
                let c = Case { val: Val::Str(s.clone()), pos, opts: o.clone() };
                let nt = nontrivial(&c);
                ctx.case("str-exhaustive-len3", &c, nt);
            }
        }
        ctx.subspace("strings len==3 (each with rotating position/option combos)", total3, true);
        if thorough {
            let total4 = n * n * n * n;
            for k in 0..total4 {
                if !ctx.mine(k) {
                    continue;
                }
                let s = decode(total2 + total3 + k);
                let pos = POS_ALL[(k as usize) % POS_ALL.len()];
                let o = &fam[((k / 12) % fam.len() as u64) as usize];
                let c = Case { val: Val::Str(s), pos, opts: o.clone() };
                let nt = nontrivial(&c);
                ctx.case("str-exhaustive-len4", &c, nt);
            }
            ctx.subspace("strings len==4 (one position/option combo each)", total4, true);
        }
        // lexicon with 1-char prefix/suffix
        let mut idx = 0u64;
        for w in LEXICON.iter() {
            let mut variants = vec![w.to_string()];
            for ch in ALPHABET.iter() {
                variants.push(format!("{ch}{w}"));
                variants.push(format!("{w}{ch}"));
            }
            for s in variants {
                for &pos in POS_ALL.iter() {
                    for (oi, o) in fam.iter().enumerate() {
                        idx += 1;
                        if !thorough && (idx % 3 != (oi as u64 % 3)) {
                            continue;
                        }
                        if ctx.mine(idx) {
                            let c = Case { val: Val::Str(s.clone()), pos, opts: o.clone() };
                            let nt = nontrivial(&c);
                            ctx.case("str-lexicon", &c, nt);
                        }
                    }
                }
            }
        }
        // every case pattern of the null / boolean / non-finite words
        let mut idx = 0u64;
        for w in ["null", "true", "false", "yes", "no", "on", "off", "y", "n", "nan", "inf", ".nan", ".inf", "-.inf"] {
            let letters: Vec<usize> = w.char_indices().filter(|(_, c)| c.is_ascii_alphabetic()).map(|(i, _)| i).collect();
            for mask in 0..(1u32 << letters.len()) {
                let mut b = w.as_bytes().to_vec();
                for (bit, &i) in letters.iter().enumerate() {
                    if mask >> bit & 1 == 1 {
                        b[i] = b[i].to_ascii_uppercase();
                    }
                }
                let s = String::from_utf8(b).unwrap();
                for &pos in POS_ALL.iter() {
                    for (oi, o) in fam.iter().enumerate() {
                        idx += 1;
                        if !thorough && oi > 3 {
                            continue;
                        }
                        if ctx.mine(idx) {
                            let c = Case { val: Val::Str(s.clone()), pos, opts: o.clone() };
                            ctx.case("str-case-variants", &c, true);
                        }
                    }
                }
            }
        }
        // random long strings
        let pos_s = prop::sample::select(POS_ALL.to_vec());
        let opt_s = (0u32..(1 << 14)).prop_map(SerOpts::from_bits);
        let strat = (long_string(), pos_s.clone(), opt_s.clone()).prop_map(|(s, pos, opts)| Case { val: Val::Str(s), pos, opts });
        ctx.run_strategy("str-long-random", 1, ctx.tier.pick(20_000, 100_000), &strat, nontrivial);
        let strat = ("\\PC{0,12}", pos_s.clone(), opt_s.clone()).prop_map(|(s, pos, opts)| Case { val: Val::Str(s), pos, opts });
        ctx.run_strategy("str-unicode-random", 2, ctx.tier.pick(40_000, 200_000), &strat, nontrivial);
        let strat = (prop::collection::vec(prop::sample::select(ALPHABET.to_vec()), 4..10), pos_s.clone(), opt_s.clone())
            .prop_map(|(s, pos, opts)| Case { val: Val::Str(s.into_iter().collect()), pos, opts });
        ctx.run_strategy("str-alphabet-random", 3, ctx.tier.pick(100_000, 400_000), &strat, nontrivial);
        let strat = (prop::collection::vec(prop::sample::select(ALPHABET.to_vec()), 0..5), pos_s.clone(), opt_s.clone())
            .prop_map(|(s, pos, opts)| Case { val: Val::SomeStr(s.into_iter().collect()), pos, opts });
        ctx.run_strategy("option-string", 4, ctx.tier.pick(4_000, 50_000), &strat, nontrivial);

        // --- floats ---------------------------------------------------------------------------
        let f32_special: Vec<u32> = vec![
            0, 0x8000_0000, 1, 0x8000_0001, 0x007f_ffff, 0x0080_0000, 0x7f7f_ffff, 0xff7f_ffff, 0x7f80_0000,
            0xff80_0000, 0x7fc0_0000, 0xffc0_0000, 0x7f80_0001, 0x3f80_0000, 0x3f80_0001, 0x3f7f_ffff,
            0x4b00_0000, 0x4b80_0000, 0x5f00_0000, 0x3dcc_cccd, 0x4000_0000, 0x4120_0000, 0x501502f9, 0x1e3ce508,
        ];
        let mut idx = 0u64;
        for &b in &f32_special {
            for &pos in POS_ALL.iter() {
                if pos.is_key() {
                    continue;
                }
                for o in fam.iter() {
                    idx += 1;
                    if ctx.mine(idx) {
                        let c = Case { val: Val::F32(b), pos, opts: o.clone() };
                        let nt = nontrivial(&c);
                        ctx.case("f32-special", &c, nt);
                    }
                }
            }
        }
        // strided / full f32 sweep at the root (the emitter's number formatting does not depend on position)
        let stride: u64 = if thorough { 1 } else { 4099 };
        let d = SerOpts::default();
        let mut b: u64 = (ctx.worker as u64) * stride;
        let step = stride * ctx.nworkers as u64;
        while b <= u32::MAX as u64 {
            let c = Case { val: Val::F32(b as u32), pos: Pos::Root, opts: d.clone() };
            let nt = nontrivial(&c);
            ctx.case("f32-sweep", &c, nt);
            b += step;
        }
        ctx.subspace("f32 bit patterns (stride 4099 quick, 1 thorough) at root", (u32::MAX as u64 + 1) / stride, stride == 1);
        let f64_special: Vec<u64> = vec![
            0, 1 << 63, 1, 0x000f_ffff_ffff_ffff, 0x0010_0000_0000_0000, 0x7fef_ffff_ffff_ffff, 0xffef_ffff_ffff_ffff,
            0x7ff0_0000_0000_0000, 0xfff0_0000_0000_0000, 0x7ff8_0000_0000_0000, 0x3ff0_0000_0000_0000,
            0x3ff0_0000_0000_0001, 0x3fef_ffff_ffff_ffff, 0x4330_0000_0000_0000, 0x4340_0000_0000_0000,
            0x3fb9_9999_9999_999a, 0x43e0_0000_0000_0000, 0x7fe1_ccf3_85eb_c8a0, 0x0006_123400000001,
        ];
        let mut idx = 0u64;
        for &b in &f64_special {
            for &pos in POS_ALL.iter() {
                if pos.is_key() {
                    continue;
                }
                for o in fam.iter() {
                    idx += 1;
                    if ctx.mine(idx) {
                        let c = Case { val: Val::F64(b), pos, opts: o.clone() };
                        let nt = nontrivial(&c);
                        ctx.case("f64-special", &c, nt);
                    }
                }
            }
        }
        let fpos = prop::sample::select(POS_ALL.iter().copied().filter(|p| !p.is_key()).collect::<Vec<_>>());
        let strat = (any::<u64>(), fpos.clone(), opt_s.clone()).prop_map(|(b, pos, opts)| Case { val: Val::F64(b), pos, opts });
        ctx.run_strategy("f64-random-bits", 5, ctx.tier.pick(600_000, 12_000_000), &strat, nontrivial);
        // "short" decimals: values like 0.1, 1e21, 123456.789 whose shortest repr is short
        let strat = ((-400i32..400), 0u64..100000, fpos.clone(), opt_s.clone()).prop_map(|(e, m, pos, opts)| {
            let f: f64 = format!("{m}e{e}").parse().unwrap();
            Case { val: Val::F64(f.to_bits()), pos, opts }
        });
        ctx.run_strategy("f64-short-decimal", 6, ctx.tier.pick(30_000, 1_000_000), &strat, nontrivial);
        let strat = ((-50i32..45), 0u64..100000, fpos.clone(), opt_s.clone()).prop_map(|(e, m, pos, opts)| {
            let f: f32 = format!("{m}e{e}").parse().unwrap();
            Case { val: Val::F32(f.to_bits()), pos, opts }
        });
        ctx.run_strategy("f32-short-decimal", 7, ctx.tier.pick(30_000, 1_000_000), &strat, nontrivial);

        // --- integers -----------------------------------------------------------------------
        let mut ints: Vec<Val> = vec![];
        macro_rules! bounds { ($t:ty, $v:ident) => {{
            for d in 0..3 { ints.push(Val::$v(<$t>::MIN.wrapping_add(d))); ints.push(Val::$v(<$t>::MAX.wrapping_sub(d))); }
            for x in [0 as $t, 1, 2, 7, 8, 9, 10, 100] { ints.push(Val::$v(x)); }
        }}}
        bounds!(i8, I8);
        bounds!(i16, I16);
        bounds!(i32, I32);
        bounds!(i64, I64);
        bounds!(i128, I128);
        bounds!(u8, U8);
        bounds!(u16, U16);
        bounds!(u32, U32);
        bounds!(u64, U64);
        bounds!(u128, U128);
        for x in [-1i64, -2, -8, -10, i32::MIN as i64 - 1, i32::MAX as i64 + 1, u32::MAX as i64 + 1, 1 << 53, (1 << 53) + 1] {
            ints.push(Val::I64(x));
            ints.push(Val::I128(x as i128));
        }
        for x in [i64::MIN as i128 - 1, i64::MAX as i128 + 1, u64::MAX as i128 + 1, -(u64::MAX as i128) - 1] {
            ints.push(Val::I128(x));
        }
        let mut idx = 0u64;
        for v in &ints {
            for &pos in POS_ALL.iter() {
                for o in fam.iter() {
                    idx += 1;
                    if ctx.mine(idx) {
                        let c = Case { val: v.clone(), pos, opts: o.clone() };
                        ctx.case("int-boundaries", &c, true);
                    }
                }
            }
        }
        let strat = (any::<i128>(), 0u32..128, pos_s.clone(), opt_s.clone())
            .prop_map(|(v, sh, pos, opts)| Case { val: Val::I128(v >> sh), pos, opts });
        ctx.run_strategy("i128-random", 8, ctx.tier.pick(20_000, 500_000), &strat, nontrivial);
        let strat = (any::<u128>(), 0u32..128, pos_s.clone(), opt_s.clone())
            .prop_map(|(v, sh, pos, opts)| Case { val: Val::U128(v >> sh), pos, opts });
        ctx.run_strategy("u128-random", 9, ctx.tier.pick(20_000, 500_000), &strat, nontrivial);

        // --- chars, bool, unit, none ----------------------------------------------------------
        let mut idx = 0u64;
        let mut others: Vec<Val> = vec![Val::Bool(true), Val::Bool(false), Val::Unit, Val::NoneStr];
        for ch in ALPHABET.iter() {
            others.push(Val::Char(*ch));
        }
        for ch in ['A', 'z', '5', '\u{d7ff}', '\u{e000}', '\u{fffd}', '\u{fffe}', '\u{ffff}', '\u{10000}', '\u{10ffff}', '\u{1}', '\u{1f}', '\u{80}', '\u{9f}', '\u{ad}', '\u{200b}', '\u{202e}', '/', ';', '$', '^', '(', ')', '_', '+'] {
            others.push(Val::Char(ch));
        }
        for v in &others {
            for &pos in POS_ALL.iter() {
                for o in fam.iter() {
                    idx += 1;
                    if ctx.mine(idx) {
                        let c = Case { val: v.clone(), pos, opts: o.clone() };
                        let nt = nontrivial(&c);
                        ctx.case("char-bool-unit", &c, nt);
                    }
                }
            }
        }
        if thorough {
            // all Unicode scalar values as char, rotating position / options
            let mut k = ctx.worker as u32;
            while k <= 0x10ffff {
                if let Some(ch) = char::from_u32(k) {
                    let c = Case { val: Val::Char(ch), pos: POS_ALL[(k as usize) % POS_ALL.len()], opts: fam[((k / 12) as usize) % fam.len()].clone() };
                    let nt = nontrivial(&c);
                    ctx.case("char-all", &c, nt);
                }
                k += ctx.nworkers as u32;
            }
            ctx.subspace("all Unicode scalar values as char", 0x10ffff - 0x800 + 1, true);
        } else {
            let strat = (any::<char>(), pos_s.clone(), opt_s.clone()).prop_map(|(ch, pos, opts)| Case { val: Val::Char(ch), pos, opts });
            ctx.run_strategy("char-random", 10, 10_000, &strat, nontrivial);
        }

        // --- byte arrays ------------------------------------------------------------------------
        let mut idx = 0u64;
        let bpos: Vec<Pos> = POS_ALL.iter().copied().filter(|p| !p.is_key()).collect();
        let mut arrays: Vec<Vec<u8>> = vec![vec![]];
        for a in 0..=255u8 {
            arrays.push(vec![a]);
        }
        for a in 0..=255u8 {
            for b in 0..=255u8 {
                arrays.push(vec![a, b]);
            }
        }
        for (i, arr) in arrays.iter().enumerate() {
            idx += 1;
            if !ctx.mine(idx) {
                continue;
            }
            let pos = bpos[i % bpos.len()];
            let o = &fam[(i / bpos.len()) % fam.len()];
            let c = Case { val: Val::Bytes(arr.clone()), pos, opts: o.clone() };
            let nt = nontrivial(&c);
            ctx.case("bytes-len<=2", &c, nt);
        }
        ctx.subspace("byte arrays len<=2 (rotating position/options)", arrays.len() as u64, true);
        // byte arrays whose base64 text looks like another scalar (`null`, `true`, `1234` ...): the
        // `!!binary` payload is written plain, so the reader must go by the tag, also in Option
        // and untyped positions
        {
            fn unb64(w: &str) -> Vec<u8> {
                const A: &[u8] = b"ABCDEFGHIJKLMNOPQRSTUVWXYZabcdefghijklmnopqrstuvwxyz0123456789+/";
                let mut out = vec![];
                let v: Vec<u32> = w.bytes().map(|c| A.iter().position(|x| *x == c).unwrap() as u32).collect();
                for q in v.chunks(4) {
                    let n = (q[0] << 18) | (q[1] << 12) | (q[2] << 6) | q[3];
                    out.extend_from_slice(&[(n >> 16) as u8, (n >> 8) as u8, n as u8]);
                }
                out
            }
            let words = ["null", "Null", "NULL", "true", "True", "TRUE", "1234", "0000", "1e10", "+123", "0x1F", "0o17", "nullnull", "trueTRUE", "NaNN", "yesy", "Noon", "offf"];
            let mut i = 0u64;
            for w in words {
                for pos in &bpos {
                    for o in fam.iter() {
                        i += 1;
                        if !ctx.mine(i) {
                            continue;
                        }
                        let c = Case { val: Val::Bytes(unb64(w)), pos: *pos, opts: o.clone() };
                        ctx.case("bytes-lookalike-base64", &c, true);
                    }
                }
            }
            ctx.subspace("18 byte arrays whose base64 spells null / booleans / numbers x positions x option family", i, true);
        }
        let bpos_s = prop::sample::select(bpos.clone());
        let strat = (prop::collection::vec(any::<u8>(), 0..200), bpos_s, opt_s.clone())
            .prop_map(|(b, pos, opts)| Case { val: Val::Bytes(b), pos, opts });
        ctx.run_strategy("bytes-random", 11, ctx.tier.pick(4_000, 100_000), &strat, nontrivial);
    }
}

fn decode(mut code: u64) -> String {
    // enumerate strings over ALPHABET in length-lexicographic order: code 0 = "", 1..=n = length 1, ...
    let n = ALPHABET.len() as u64;
    let mut len = 0;
    let mut block = 1u64;
    while code >= block {
        code -= block;
        block *= n;
        len += 1;
    }
    let mut chars = vec![' '; len];
    for i in (0..len).rev() {
        chars[i] = ALPHABET[(code % n) as usize];
        code /= n;
    }
    chars.into_iter().collect()
}

fn main() {
    engine::main::<C12>()
}

/// entry point of the libFuzzer target `fuzz/fuzz_targets/c12.rs`
#[allow(dead_code)]
pub fn fuzz(data: &[u8]) {
    engine::fuzz_one::<C12>(data)
}
