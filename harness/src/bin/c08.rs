//! C08 – expansion work and memory are bounded by the budget and alias limits.
use proptest::prelude::*;
use serde::de::{DeserializeSeed, Deserializer, MapAccess, SeqAccess, Visitor};
use serde::{Deserialize, Serialize};
use std::alloc::{GlobalAlloc, Layout as AllocLayout, System};
use std::cell::Cell;
use std::sync::atomic::{AtomicUsize, Ordering};
use vcheck::engine::{self, Ctx, Outcome, Property};
use vcheck::gdoc::{self, Kind, Layout, Node};
use vcheck::opts::{BudgetD, BudgetSel, DeOpts, Dup};
use vcheck::usage::{self, Usage};

// ---------------- counting allocator (peak heap per call) ---------------------------------
struct Counting;
static CUR: AtomicUsize = AtomicUsize::new(0);
static PEAK: AtomicUsize = AtomicUsize::new(0);
unsafe impl GlobalAlloc for Counting {
    unsafe fn alloc(&self, l: AllocLayout) -> *mut u8 {
        let p = unsafe { System.alloc(l) };
        if !p.is_null() {
            let c = CUR.fetch_add(l.size(), Ordering::Relaxed) + l.size();
            PEAK.fetch_max(c, Ordering::Relaxed);
        }
        p
    }
    unsafe fn dealloc(&self, p: *mut u8, l: AllocLayout) {
        unsafe { System.dealloc(p, l) };
        CUR.fetch_sub(l.size(), Ordering::Relaxed);
    }
    unsafe fn realloc(&self, p: *mut u8, l: AllocLayout, new: usize) -> *mut u8 {
        let q = unsafe { System.realloc(p, l, new) };
        if !q.is_null() {
            if new >= l.size() {
                let c = CUR.fetch_add(new - l.size(), Ordering::Relaxed) + (new - l.size());
                PEAK.fetch_max(c, Ordering::Relaxed);
            } else {
                CUR.fetch_sub(l.size() - new, Ordering::Relaxed);
            }
        }
        q
    }
}
#[global_allocator]
static ALLOC: Counting = Counting;

fn measure<T>(f: impl FnOnce() -> T) -> (T, usize) {
    let base = CUR.load(Ordering::Relaxed);
    PEAK.store(base, Ordering::Relaxed);
    let r = f();
    let peak = PEAK.load(Ordering::Relaxed);
    (r, peak.saturating_sub(base))
}

// ---------------- counting visitor -----------------------------------------------------------
struct CountAny<'a>(&'a Cell<usize>);
impl<'de, 'a> DeserializeSeed<'de> for CountAny<'a> {
    type Value = ();
    fn deserialize<D: Deserializer<'de>>(self, d: D) -> Result<(), D::Error> {
        d.deserialize_any(self)
    }
}
impl<'de, 'a> Visitor<'de> for CountAny<'a> {
    type Value = ();
    fn expecting(&self, f: &mut std::fmt::Formatter) -> std::fmt::Result {
        f.write_str("anything")
    }
    fn visit_bool<E>(self, _: bool) -> Result<(), E> {
        self.0.set(self.0.get() + 1);
        Ok(())
    }
    fn visit_i64<E>(self, _: i64) -> Result<(), E> {
        self.0.set(self.0.get() + 1);
        Ok(())
    }
    fn visit_u64<E>(self, _: u64) -> Result<(), E> {
        self.0.set(self.0.get() + 1);
        Ok(())
    }
    fn visit_i128<E>(self, _: i128) -> Result<(), E> {
        self.0.set(self.0.get() + 1);
        Ok(())
    }
    fn visit_u128<E>(self, _: u128) -> Result<(), E> {
        self.0.set(self.0.get() + 1);
        Ok(())
    }
    fn visit_f64<E>(self, _: f64) -> Result<(), E> {
        self.0.set(self.0.get() + 1);
        Ok(())
    }
    fn visit_str<E>(self, _: &str) -> Result<(), E> {
        self.0.set(self.0.get() + 1);
        Ok(())
    }
    fn visit_unit<E>(self) -> Result<(), E> {
        self.0.set(self.0.get() + 1);
        Ok(())
    }
    fn visit_none<E>(self) -> Result<(), E> {
        self.0.set(self.0.get() + 1);
        Ok(())
    }
    fn visit_some<D: Deserializer<'de>>(self, d: D) -> Result<(), D::Error> {
        d.deserialize_any(self)
    }
    fn visit_bytes<E>(self, _: &[u8]) -> Result<(), E> {
        self.0.set(self.0.get() + 1);
        Ok(())
    }
    fn visit_seq<A: SeqAccess<'de>>(self, mut a: A) -> Result<(), A::Error> {
        self.0.set(self.0.get() + 1);
        while a.next_element_seed(CountAny(self.0))?.is_some() {}
        Ok(())
    }
    fn visit_map<A: MapAccess<'de>>(self, mut a: A) -> Result<(), A::Error> {
        self.0.set(self.0.get() + 1);
        while a.next_key_seed(CountAny(self.0))?.is_some() {
            a.next_value_seed(CountAny(self.0))?;
        }
        Ok(())
    }
}

// ---------------- cases ----------------------------------------------------------------------
#[derive(Clone, Debug, Serialize, Deserialize, PartialEq)]
enum Fam {
    Bomb { levels: u32, fanout: u32 },
    Chain { len: u32 },
    AliasInAnchored { n: u32, k: u32 },
    NestedAnchors { d: u32, n: u32, block: bool },
    WideMerge { m: u32, k: u32 },
    LongKey { n: u32 },
    /// entries whose key is a small collection (`kind` 0: `{k: v}`, 1: `[k]`, 2: `{k: v, l: w}`)
    /// nested d deep around a payload of n nodes: keys are captured, values must stream
    KeyNest { d: u32, n: u32, kind: u8 },
    /// one anchored scalar of `size` bytes (multi-byte text when `wide`) aliased k times: the
    /// expansion is in bytes, not in nodes
    BigScalar { size: u32, k: u32, wide: bool },
    Doc { doc: Node, layout: Layout },
}
#[derive(Clone, Copy, Debug, Serialize, Deserialize, PartialEq)]
enum Lim {
    Default,
    /// max_nodes = usage + delta (everything else unlimited)
    Nodes(i8),
    /// AliasLimits::max_total_replayed_events = usage + delta
    Replay(i8),
    /// AliasLimits::max_alias_expansions_per_anchor = usage + delta
    PerAnchor(i8),
    /// max_total_scalar_bytes = usage + delta (everything else unlimited): bytes that reach the
    /// target through alias replay count like the ones written in place
    ScalarBytes(i8),
    /// AliasLimits::max_replay_stack_depth = v
    Stack(u8),
}
#[derive(Clone, Debug, Serialize, Deserialize)]
struct Case {
    fam: Fam,
    lim: Lim,
}

fn text_of(f: &Fam) -> String {
    let mut s = String::new();
    match f {
        Fam::Bomb { levels, fanout } => {
            s.push_str("l0: &l0 [");
            for i in 0..*fanout {
                if i > 0 {
                    s.push_str(", ");
                }
                s.push('x');
            }
            s.push_str("]\n");
            for l in 1..=*levels {
                s.push_str(&format!("l{l}: &l{l} ["));
                for i in 0..*fanout {
                    if i > 0 {
                        s.push_str(", ");
                    }
                    s.push_str(&format!("*l{}", l - 1));
                }
                s.push_str("]\n");
            }
        }
        Fam::Chain { len } => {
            s.push_str("- &c0 [x]\n");
            for i in 1..=*len {
                s.push_str(&format!("- &c{i} [*c{}]\n", i - 1));
            }
        }
        Fam::AliasInAnchored { n, k } => {
            s.push_str("base: &b [1, 2, 3]\n");
            s.push_str("outer: &o\n");
            for i in 0..*n {
                s.push_str(&format!("  k{i}: *b\n"));
            }
            for i in 0..*k {
                s.push_str(&format!("use{i}: *o\n"));
            }
        }
        Fam::NestedAnchors { d, n, block } => {
            if *block {
                for i in 0..*d {
                    for _ in 0..i {
                        s.push(' ');
                    }
                    s.push_str(&format!("- &n{i}\n"));
                }
                for _ in 0..*d {
                    s.push(' ');
                }
                s.push_str("- [");
            } else {
                for i in 0..*d {
                    s.push_str(&format!("&n{i} ["));
                }
                s.push('[');
            }
            for i in 0..*n {
                if i > 0 {
                    s.push_str(", ");
                }
                s.push_str(&(i % 10).to_string());
            }
            s.push(']');
            if !*block {
                for _ in 0..*d {
                    s.push(']');
                }
            }
            s.push('\n');
        }
        Fam::WideMerge { m, k } => {
            for i in 0..*m {
                s.push_str(&format!("b{i}: &b{i} {{"));
                for j in 0..*k {
                    if j > 0 {
                        s.push_str(", ");
                    }
                    s.push_str(&format!("k{i}_{j}: {j}"));
                }
                s.push_str("}\n");
            }
            s.push_str("t:\n  <<: [");
            for i in 0..*m {
                if i > 0 {
                    s.push_str(", ");
                }
                s.push_str(&format!("*b{i}"));
            }
            s.push_str("]\n  own: 1\n");
        }
        Fam::LongKey { n } => {
            s.push_str("? [");
            for i in 0..*n {
                if i > 0 {
                    s.push_str(", ");
                }
                s.push_str(&(i % 7).to_string());
            }
            s.push_str("]\n: v\n");
        }
        Fam::BigScalar { size, k, wide } => {
            s.push_str("- &s \"");
            if *wide {
                for _ in 0..(*size / 2) {
                    s.push('\u{e9}');
                }
            } else {
                for _ in 0..*size {
                    s.push('x');
                }
            }
            s.push_str("\"\n");
            for _ in 0..*k {
                s.push_str("- *s\n");
            }
        }
        Fam::KeyNest { d, n, kind } => {
            let key = ["{k: v}", "[k]", "{k: v, l: w}"][*kind as usize % 3];
            for _ in 0..*d {
                s.push_str(&format!("{{{key}: "));
            }
            s.push('[');
            for i in 0..*n {
                if i > 0 {
                    s.push_str(", ");
                }
                s.push_str(&(i % 10).to_string());
            }
            s.push(']');
            for _ in 0..*d {
                s.push('}');
            }
            s.push('\n');
        }
        Fam::Doc { doc, layout } => return gdoc::render(doc, layout).text,
    }
    s
}

fn default_budget() -> BudgetD {
    BudgetD::default_budget()
}

struct Limits {
    b: Option<BudgetD>,
    replay: usize,
    per_anchor: usize,
    stack: usize,
}

/// Some(list of categories exceeded) under these limits, per the usage model
fn exceeded(u: &Usage, l: &Limits) -> Vec<&'static str> {
    let mut v = vec![];
    if let Some(b) = &l.b {
        if u.events > b.max_events {
            v.push("events");
        }
        if u.nodes > b.max_nodes {
            v.push("nodes");
        }
        if u.max_depth > b.max_depth {
            v.push("depth");
        }
        if u.aliases > b.max_aliases {
            v.push("aliases");
        }
        if u.anchors > b.max_anchors {
            v.push("anchors");
        }
        if u.scalar_bytes > b.max_total_scalar_bytes {
            v.push("scalar");
        }
        if u.merge_keys > b.max_merge_keys {
            v.push("merge");
        }
        if b.enforce_ratio && u.aliases >= b.ratio_min_aliases && u.aliases > b.ratio_multiplier.saturating_mul(u.anchors) {
            v.push("ratio");
        }
    }
    if u.replayed_events > l.replay {
        v.push("replay");
    }
    if u.max_expansions_per_anchor > l.per_anchor {
        v.push("per-anchor");
    }
    if u.aliases > 0 && l.stack < 1 {
        v.push("stack");
    }
    v
}

fn category(e: &serde_saphyr::Error) -> &'static str {
    use serde_saphyr::budget::BudgetBreach as B;
    use serde_saphyr::Error as E;
    match e.without_snippet() {
        E::Budget { breach, .. } => match breach {
            B::Events { .. } => "events",
            B::Nodes { .. } => "nodes",
            B::Depth { .. } => "depth",
            B::Aliases { .. } => "aliases",
            B::Anchors { .. } => "anchors",
            B::ScalarBytes { .. } => "scalar",
            B::MergeKeys { .. } => "merge",
            B::AliasAnchorRatio { .. } => "ratio",
            _ => "budget-other",
        },
        E::AliasReplayLimitExceeded { .. } => "replay",
        E::AliasExpansionLimitExceeded { .. } => "per-anchor",
        E::AliasReplayStackDepthExceeded { .. } => "stack",
        E::AliasError { .. } => "wrapped",
        _ => "other",
    }
}

const C0: usize = 64 * 1024;
const K: usize = 16;
const EVENT_BYTES: usize = 96;
const K_REPLAY: usize = 2;
const MODEL_CAP: usize = 3_000_000;

/// the largest number of key positions on the way from the root to an alias (0: no alias below a
/// key): every enclosing key captures the replayed node once more
fn alias_key_depth(n: &Node) -> usize {
    // returns (has an alias below, depth)
    fn go(n: &Node) -> Option<usize> {
        match &n.kind {
            Kind::Alias(_) => Some(0),
            Kind::Seq { items, .. } => items.iter().filter_map(go).max(),
            Kind::Map { entries, .. } => entries
                .iter()
                .flat_map(|(k, v)| [go(k).map(|d| d + 1), go(v)])
                .flatten()
                .max(),
            _ => None,
        }
    }
    go(n).unwrap_or(0)
}

fn nested_anchor_depth(n: &Node) -> usize {
    fn go(n: &Node) -> usize {
        let own = if n.anchor.is_some() && n.is_collection() { 1 } else { 0 };
        let below = match &n.kind {
            Kind::Seq { items, .. } => items.iter().map(go).max().unwrap_or(0),
            Kind::Map { entries, .. } => entries.iter().map(|(k, v)| go(k).max(go(v))).max().unwrap_or(0),
            _ => 0,
        };
        own + below
    }
    go(n)
}

fn check_case(c: &Case) -> Outcome {
    let text = text_of(&c.fam);
    if let Fam::Doc { doc, layout } = &c.fam {
        if gdoc::selfcheck_render(doc, layout, &text).is_err() {
            return Outcome::Discard("selfcheck-render");
        }
        if gdoc::expand_aliases(doc).is_err() {
            return Outcome::Discard("unbound-or-recursive-alias");
        }
    }
    let model = usage::analyze_capped(&text, MODEL_CAP);
    let model_u: Option<Usage> = match &model {
        Ok(a) => Some(a.total.clone()),
        Err(e) if e == "too big" => None,
        Err(_) => return Outcome::Discard("selfcheck-analyze"),
    };
    // limits for this case
    let dflt = vcheck::opts::DeOpts::default();
    let mut lim = Limits { b: Some(default_budget()), replay: dflt.max_total_replayed_events, per_anchor: dflt.max_alias_expansions_per_anchor, stack: dflt.max_replay_stack_depth };
    let adj = |v: usize, d: i8| -> usize { if d < 0 { v.saturating_sub((-d) as usize) } else { v + d as usize } };
    match (c.lim, &model_u) {
        (Lim::Default, _) => {}
        (_, None) => return Outcome::Discard("tightened-limit-needs-model"),
        (Lim::Nodes(d), Some(u)) => {
            let mut b = BudgetD::unlimited();
            b.max_nodes = adj(u.nodes, d);
            lim = Limits { b: Some(b), replay: usize::MAX, per_anchor: usize::MAX, stack: 64 };
        }
        (Lim::ScalarBytes(d), Some(u)) => {
            let mut b = BudgetD::unlimited();
            b.max_total_scalar_bytes = adj(u.scalar_bytes, d);
            lim = Limits { b: Some(b), replay: usize::MAX, per_anchor: usize::MAX, stack: 64 };
        }
        (Lim::Replay(d), Some(u)) => {
            lim = Limits { b: Some(BudgetD::unlimited()), replay: adj(u.replayed_events, d), per_anchor: usize::MAX, stack: 64 };
        }
        (Lim::PerAnchor(d), Some(u)) => {
            lim = Limits { b: Some(BudgetD::unlimited()), replay: usize::MAX, per_anchor: adj(u.max_expansions_per_anchor, d), stack: 64 };
        }
        (Lim::Stack(v), Some(_)) => {
            lim = Limits { b: Some(BudgetD::unlimited()), replay: usize::MAX, per_anchor: usize::MAX, stack: v as usize };
        }
    }
    let opts = DeOpts {
        budget: match &lim.b {
            Some(b) => BudgetSel::Explicit(b.clone()),
            None => BudgetSel::None,
        },
        dup: Dup::Last,
        max_total_replayed_events: lim.replay,
        max_alias_expansions_per_anchor: lim.per_anchor,
        max_replay_stack_depth: lim.stack,
        snippet: false,
        ..DeOpts::default()
    };
    let calls = Cell::new(0usize);
    let o = opts.build();
    let (res, peak) = measure(|| serde_saphyr::with_deserializer_from_str_with_options(&text, o, |d| CountAny(&calls).deserialize(d)));
    let delivered = calls.get();

    // (1) nodes delivered to the target never exceed the node / event limits
    if let Some(b) = &lim.b {
        let cap = b.max_nodes.min(b.max_events).saturating_add(2);
        if delivered > cap {
            return Outcome::Fail(format!("{delivered} nodes were delivered to the target, node limit {} / event limit {} ({:?})", b.max_nodes, b.max_events, c.fam_label()));
        }
    }
    // (2) accepted exactly when the model says everything is within the limits
    let verdict = res.as_ref().map(|_| ()).map_err(category);
    match (&model_u, &verdict) {
        (Some(u), Ok(())) => {
            let ex = exceeded(u, &lim);
            if !ex.is_empty() {
                return Outcome::Fail(format!("accepted although the model says {ex:?} exceeded: usage {u:?} ({:?}, {:?})", c.fam_label(), c.lim));
            }
        }
        (Some(u), Err(cat)) => {
            let ex = exceeded(u, &lim);
            if ex.is_empty() {
                return Outcome::Fail(format!("rejected ({cat}: {}) although every quantity is within its limit: usage {u:?} ({:?}, {:?})", res.as_ref().unwrap_err().without_snippet(), c.fam_label(), c.lim));
            }
            if *cat != "wrapped" && !ex.contains(cat) {
                return Outcome::Fail(format!("rejected with {cat}, but the model says only {ex:?} are exceeded: usage {u:?} ({:?}, {:?})", c.fam_label(), c.lim));
            }
        }
        (None, Ok(())) => {
            // the expansion is larger than 3M events: far beyond the default limits
            return Outcome::Fail(format!("an expansion of more than {MODEL_CAP} events was accepted under the default limits ({:?})", c.fam_label()));
        }
        (None, Err(_)) => {}
    }
    // (3) peak heap within a fixed multiple of input size plus budget-counted events; raw events
    // may be stored (keys, anchored subtrees), replayed events at most once more (when they are
    // recorded into an enclosing anchored node), so they get the smaller constant K_REPLAY.
    let (raw_events, replayed) = match &model {
        Ok(a) => (a.raw_events, a.total.events.saturating_sub(a.raw_events)),
        Err(_) => (text.len() + 2, usize::MAX),
    };
    let replay_cap = match &lim.b {
        Some(b) => b.max_events.min(b.max_nodes.saturating_mul(2).saturating_add(16)).min(lim.replay.saturating_add(16)),
        None => lim.replay.saturating_add(16),
    };
    let counted_replayed = replayed.min(replay_cap);
    // (an alias in key position: the replayed node is also captured as a key - its events once
    // more plus a fingerprint that owns a copy of every scalar - "keys are captured as replayable
    // nodes with a structural fingerprint"; libFuzzer artifact of a thorough sweep)
    // (and once more for every further enclosing node that is itself a key: `? &a {? *d : *d}`)
    let k_replay = match &c.fam {
        // (+2 for generated documents as such: their per-event overhead - fingerprints that own
        // scalar text, up to two anchored frames below the open finding's threshold - varies more
        // than that of the fixed families, which keep the tight constant)
        Fam::Doc { doc, .. } => K_REPLAY + 2 * alias_key_depth(doc) + 2,
        _ => K_REPLAY,
    };
    let bound = C0 + K * (text.len() + EVENT_BYTES * raw_events) + k_replay * EVENT_BYTES * counted_replayed;
    if std::env::var("C08_DEBUG").is_ok() {
        eprintln!("peak {peak} bound {bound} raw_events {raw_events} replayed {replayed} counted_replayed {counted_replayed} delivered {delivered} verdict {verdict:?}");
    }
    if peak > bound {
        return Outcome::Fail(format!(
            "peak heap {peak} bytes exceeds {C0} + {K}*(input {} + {EVENT_BYTES}*{raw_events} raw events) + {k_replay}*{EVENT_BYTES}*{counted_replayed} replayed events = {bound} ({:?}, {:?})",
            text.len(),
            c.fam_label(),
            c.lim
        ));
    }
    // scaling relation for nested anchors: cost must not grow with the depth of anchored nesting
    if let Fam::NestedAnchors { d, n, block } = &c.fam {
        if *d > 1 && c.lim == Lim::Default {
            let t1 = text_of(&Fam::NestedAnchors { d: 1, n: *n, block: *block });
            let calls1 = Cell::new(0usize);
            let o1 = opts.build();
            let (_r, peak1) = measure(|| serde_saphyr::with_deserializer_from_str_with_options(&t1, o1, |dd| CountAny(&calls1).deserialize(dd)));
            if peak > 4 * peak1.max(4096) {
                return Outcome::Fail(format!("peak heap grows with the depth of anchored nesting: d={d} needs {peak} bytes, d=1 needs {peak1} bytes (n={n})"));
            }
        }
    }
    Outcome::Pass
}

impl Case {
    fn fam_label(&self) -> String {
        match &self.fam {
            Fam::Doc { doc, layout } => format!("doc {:?}", gdoc::render(doc, layout).text),
            f => format!("{f:?}"),
        }
    }
}

struct C08;

fn expansion_factor(c: &Case) -> f64 {
    let text = text_of(&c.fam);
    match usage::analyze_capped(&text, MODEL_CAP) {
        Ok(a) => a.total.nodes as f64 / text.len().max(1) as f64,
        Err(_) => 1e9,
    }
}

impl Property for C08 {
    const ID: &'static str = "C08";
    type Case = Case;
    fn rule() -> String {
        format!("cases = (member of a parameterised attack family | generated document, limit setting). Families over their whole grid: alias bombs (levels 1-8 x fan-out 2-10), alias chains (1-200), aliases inside anchored containers, anchors nested d deep around n nodes (flow d <= 64, block d <= 200), wide merges (m x k), long complex keys; plus generated documents. Limit settings: defaults, and node / total-replayed-events / per-anchor-expansion limits set to the model usage and to usage-1, replay stack depth 0 / 1. Observers: a counting visitor (nodes delivered to the target) and a counting global allocator (peak heap per call). Oracle: delivered nodes <= min(node limit, event limit) + 2; accepted exactly when the independent usage model (raw events + replay) is within every limit, rejected with a matching error category otherwise; peak heap <= {C0} + {K}*(input bytes + {EVENT_BYTES}*raw events) + {K_REPLAY}*{EVENT_BYTES}*(budget-counted replayed events); for nested anchors peak(d,n) <= 4*peak(1,n). Non-trivial: expansion factor (expanded nodes / input bytes) >= 10, or a tightened limit.")
    }
    fn assumptions() -> Vec<String> {
        vec![
            "the constants of the memory bound (64 KiB + 16 x (input + 96 B per raw event) + 2 x 96 B per replayed event) are design choices with about 2x head-room over the largest legitimate ratio measured".into(),
            "the target builds no value (counting visitor), so the measured heap is the library's own".into(),
        ]
    }
    fn check(c: &Case) -> Outcome {
        check_case(c)
    }
    fn signatures(c: &Case) -> Vec<&'static str> {
        // open finding: recording clones every event into every open anchored frame, so cost
        // grows with (depth of anchored nesting) x events
        let deep = match &c.fam {
            Fam::NestedAnchors { d, .. } => *d >= 4,
            Fam::Chain { len } => *len >= 4,
            // (generated documents replay aliases inside the nested frames: there every
            // replayed event is cloned into every open frame, so three levels already cost
            // more than the K_REPLAY = 2 copies the bound allows - found by the libFuzzer tier)
            Fam::Doc { doc, .. } => nested_anchor_depth(doc) >= 3,
            _ => false,
        };
        if deep { vec!["nested_anchor_recording_cost"] } else { vec![] }
    }
    fn shrink(c: &Case) -> Vec<Case> {
        let mut out = vec![];
        if c.lim != Lim::Default {
            out.push(Case { fam: c.fam.clone(), lim: Lim::Default });
        }
        out
    }
    /// libFuzzer input: limit setting, layout bits, anchor percentages, decoration script, tree
    fn fuzz_decode(data: &[u8]) -> Option<(&'static str, Case, bool)> {
        let mut b = engine::Bytes::new(data);
        let lim = b.pick(&[Lim::Default, Lim::Nodes(0), Lim::Nodes(-1), Lim::Replay(0), Lim::Replay(-1), Lim::PerAnchor(0), Lim::PerAnchor(-1), Lim::Stack(0), Lim::Stack(1), Lim::ScalarBytes(0), Lim::ScalarBytes(-1)]);
        let lb = b.u16() as u32;
        let (a, al) = b.pick(&[(25u16, 30u16), (40, 35), (15, 45)]);
        let script = gdoc::script_from_bytes(&mut b, 24);
        let t = gdoc::tree_from_bytes(&mut b, 4);
        let c = Case { fam: Fam::Doc { doc: gdoc::decorate(&t, &script, a, al, 0), layout: Layout::from_bits(lb) }, lim };
        let nt = c.lim != Lim::Default;
        Some(("fuzz-generated-docs", c, nt))
    }
    fn generate(ctx: &mut Ctx<Self>) {
        let thorough = ctx.tier == engine::Tier::Thorough;
        let lims = [Lim::Default, Lim::Nodes(0), Lim::Nodes(-1), Lim::Replay(0), Lim::Replay(-1), Lim::PerAnchor(0), Lim::PerAnchor(-1), Lim::Stack(0), Lim::Stack(1), Lim::ScalarBytes(0), Lim::ScalarBytes(-1)];
        let mut fams: Vec<Fam> = vec![];
        for levels in 1..=8 {
            for fanout in 2..=10 {
                fams.push(Fam::Bomb { levels, fanout });
            }
        }
        for len in (1..=20).chain([30, 50, 100, 150, 200]) {
            fams.push(Fam::Chain { len });
        }
        for n in [1, 5, 50, 500] {
            for k in [1, 3, 20, 200] {
                fams.push(Fam::AliasInAnchored { n, k });
            }
        }
        for d in [1, 2, 3, 4, 8, 16, 32, 64] {
            for n in [10, 200, if thorough { 5000 } else { 2000 }] {
                fams.push(Fam::NestedAnchors { d, n, block: false });
            }
        }
        for d in [1, 3, 50, 200] {
            for n in [10, 500] {
                fams.push(Fam::NestedAnchors { d, n, block: true });
            }
        }
        for m in [1, 4, 30, 200] {
            for k in [1, 5, 50] {
                fams.push(Fam::WideMerge { m, k });
            }
        }
        for n in [1, 100, 5000] {
            fams.push(Fam::LongKey { n });
        }
        for size in [1, 100, 10_000, 1_000_000] {
            for k in [1, 9, 90] {
                for wide in [false, true] {
                    fams.push(Fam::BigScalar { size, k, wide });
                }
            }
        }
        for d in [1, 4, 16, 60] {
            for n in [10, 500, 2000] {
                for kind in 0..3 {
                    fams.push(Fam::KeyNest { d, n, kind });
                }
            }
        }
        let mut idx = 0u64;
        let mut total = 0u64;
        for f in &fams {
            for l in lims {
                idx += 1;
                total += 1;
                if ctx.mine(idx) {
                    let c = Case { fam: f.clone(), lim: l };
                    let nt = l != Lim::Default || expansion_factor(&c) >= 10.0;
                    ctx.case("families", &c, nt);
                }
            }
        }
        ctx.subspace("attack-family grid x 11 limit settings", total, true);

        // generated documents
        let strat = (
            gdoc::arb_tree(4, 30),
            prop::collection::vec(any::<u16>(), 8..40),
            prop::sample::select(vec![(25u16, 30u16), (40, 35), (15, 45)]),
            0u32..(1 << 12),
            prop::sample::select(lims.to_vec()),
        )
            .prop_map(|(t, s, (a, al), lb, lim)| Case { fam: Fam::Doc { doc: gdoc::decorate(&t, &s, a, al, 0), layout: Layout::from_bits(lb) }, lim });
        ctx.run_strategy("generated-docs", 1, ctx.tier.pick(20_000, 300_000), &strat, |c| c.lim != Lim::Default);
    }
}

fn main() {
    engine::main::<C08>()
}

/// entry point of the libFuzzer target `fuzz/fuzz_targets/c08.rs`
#[allow(dead_code)]
pub fn fuzz(data: &[u8]) {
    engine::fuzz_one::<C08>(data)
}
